#!/venv/bin/python
"""Coverage-guided stage (atheris / libFuzzer) for the properties that have
a cheap byte-level entry point.

The property module supplies ``fuzz_seeds()`` (initial corpus) and
``fuzz_case(data)`` (bytes -> case dict for its own ``check``, or None).
The semantic oracle is the property's own and runs inside the target; a
failing input does not stop the campaign: it is recorded under its signature
(smallest input kept) in <workdir>/findings.json, and the check re-judges
every recorded input in-process afterwards, so a replay never needs the
fuzzer.

usage: target.py <Cnn> <workdir> [libFuzzer flags]"""
import json
import os
import sys

HERE = os.path.dirname(os.path.abspath(__file__))
ROOT = os.path.dirname(HERE)
sys.path[:0] = [os.environ.get("VERIF_REPO", "/repo"), ROOT,
                os.path.join(ROOT, ".deps")]

import atheris                                      # noqa: E402

with atheris.instrument_imports(include=["tlslite"]):
    import tlslite.messages                         # noqa: F401,E402
    import tlslite.extensions                       # noqa: F401,E402
    import tlslite.utils.codec                      # noqa: F401,E402
    import tlslite.x509                             # noqa: F401,E402

    import tlslite.tlsconnection                    # noqa: F401,E402
    import tlslite.tlsrecordlayer                   # noqa: F401,E402
    import tlslite.recordlayer                      # noqa: F401,E402

from vlib.runner import run_check, load            # noqa: E402

MOD = load(sys.argv[1])
WORK = sys.argv[2]
FINDINGS = {}
COUNT = [0]


def save():
    with open(os.path.join(WORK, "findings.json"), "w") as f:
        json.dump({"execs": COUNT[0], "findings": FINDINGS}, f)


def one(data):
    COUNT[0] += 1
    if COUNT[0] % 5000 == 0:
        save()
    case = MOD.fuzz_case(bytes(data))
    if case is None:
        return
    r = run_check(MOD, case)
    if not r.ok:
        old = FINDINGS.get(r.sig)
        if old is None or len(case["hex"]) < len(old["hex"]):
            FINDINGS[r.sig] = case
            save()


def main():
    os.makedirs(os.path.join(WORK, "corpus"), exist_ok=True)
    MOD.init("quick", 1)
    if not os.environ.get("VERIF_FUZZ_EMPTY_CORPUS"):
        for i, blob in enumerate(MOD.fuzz_seeds()):
            with open(os.path.join(WORK, "corpus", "seed%03d" % i),
                      "wb") as f:
                f.write(blob)
    argv = [sys.argv[0]] + sys.argv[3:] + [os.path.join(WORK, "corpus")]
    atheris.Setup(argv, one)
    import atexit
    try:
        atheris.Fuzz()
    finally:
        save()


if __name__ == "__main__":
    main()
