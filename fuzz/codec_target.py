#!/venv/bin/python
"""Coverage-guided stage of C15 (atheris / libFuzzer).

Input = selector byte + bytes of one handshake message or extension; the
selector picks the parsing context.  The semantic oracle is C15's own
(decode error, or byte-identical re-encoding); a failing input does not stop
the campaign: it is recorded under its signature (smallest input kept) in
<workdir>/findings.json and C15 re-judges every recorded input in-process,
so replay does not need the fuzzer.

usage: codec_target.py <workdir> [libFuzzer flags]"""
import json
import os
import sys

HERE = os.path.dirname(os.path.abspath(__file__))
ROOT = os.path.dirname(HERE)
sys.path[:0] = [os.environ.get("VERIF_REPO", "/repo"), ROOT,
                os.path.join(ROOT, ".deps")]

import atheris                                      # noqa: E402

with atheris.instrument_imports(include=["tlslite"]):
    import tlslite.messages                         # noqa: F401,E402
    import tlslite.extensions                       # noqa: F401,E402
    import tlslite.utils.codec                      # noqa: F401,E402
    import tlslite.x509                             # noqa: F401,E402

from props import c15                               # noqa: E402
from vlib.runner import run_check                   # noqa: E402

WORK = sys.argv[1]
FINDINGS = {}
COUNT = [0]


def save():
    with open(os.path.join(WORK, "findings.json"), "w") as f:
        json.dump({"execs": COUNT[0], "findings": FINDINGS}, f)


def one(data):
    COUNT[0] += 1
    if COUNT[0] % 5000 == 0:
        save()
    if len(data) < 2:
        return
    case = {"src": "raw", "sel": data[0], "hex": bytes(data[1:]).hex(),
            "mut": ["raw"]}
    r = run_check(c15, case)
    if not r.ok:
        old = FINDINGS.get(r.sig)
        if old is None or len(case["hex"]) < len(old["hex"]):
            FINDINGS[r.sig] = case
            save()


def main():
    os.makedirs(os.path.join(WORK, "corpus"), exist_ok=True)
    c15.init("quick", 1)
    # seed corpus: harvested messages under a matching selector
    for i, e in enumerate(c15.corpus()):
        sel = c15.selector_for(e["ctx"])
        with open(os.path.join(WORK, "corpus", "seed%03d" % i), "wb") as f:
            f.write(bytes([sel]) + e["bytes"])
    argv = [sys.argv[0]] + sys.argv[2:] + [os.path.join(WORK, "corpus")]
    atheris.Setup(argv, one)
    import atexit
    try:
        atheris.Fuzz()
    finally:
        save()


if __name__ == "__main__":
    main()
