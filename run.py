"""Entry point: python -B run.py <ID> <quick|thorough> [--replay FILE]"""
import os
import sys

ROOT = os.path.dirname(os.path.abspath(__file__))
sys.path.insert(0, ROOT)
sys.dont_write_bytecode = True


def main(argv):
    if len(argv) < 2:
        print("usage: check <ID> <quick|thorough> [--replay FILE]")
        return 2
    prop = argv[0].upper()
    tier = argv[1]
    import vlib  # noqa  (puts /repo on sys.path)
    from vlib import runner
    try:
        if "--replay" in argv:
            return runner.replay(prop, argv[argv.index("--replay") + 1])
        if tier not in ("quick", "thorough"):
            print("tier must be quick or thorough")
            return 2
        return runner.main(prop, tier)
    except SystemExit:
        raise
    except BaseException:       # noqa
        import traceback
        traceback.print_exc()
        print("HARNESS-ERROR property=%s" % prop)
        return 2


if __name__ == "__main__":
    sys.exit(main(sys.argv[1:]))
