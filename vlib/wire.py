"""E1: in-memory transport with tap, MITM and scripted I/O."""
import errno
import socket

KNOWN_CT = (20, 21, 22, 23, 24)


class Pipe(object):
    """One direction of a byte stream."""

    def __init__(self):
        self.q = bytearray()
        self.eof = False
        self.log = bytearray()      # every byte ever written

    def write(self, data):
        self.q += data
        self.log += data

    def take(self, n):
        out = bytes(self.q[:n])
        del self.q[:n]
        return out


def wouldblock():
    return BlockingIOError(errno.EWOULDBLOCK, "would block")


FAULTS = {
    "reset": lambda: ConnectionResetError(errno.ECONNRESET, "reset by peer"),
    "pipe": lambda: BrokenPipeError(errno.EPIPE, "broken pipe"),
    "timeout": lambda: socket.timeout("timed out"),
}


class Script(object):
    """Decides, call by call, what the socket does.

    ``recv_sizes`` / ``send_sizes``: iterables of ints; 0 = report
    would-block for that call, k>0 = move at most k bytes.  When exhausted
    the socket is unconstrained.
    """

    def __init__(self, recv_sizes=(), send_sizes=()):
        self.recv_sizes = list(recv_sizes)
        self.send_sizes = list(send_sizes)
        self.ri = 0
        self.si = 0
        self.stats = {"recv_block": 0, "recv_partial": 0, "send_block": 0,
                      "send_partial": 0}

    def on_recv(self, n, avail):
        if self.ri < len(self.recv_sizes):
            k = self.recv_sizes[self.ri]
            self.ri += 1
            return k
        return n

    def on_send(self, n):
        if self.si < len(self.send_sizes):
            k = self.send_sizes[self.si]
            self.si += 1
            return k
        return n


class CycleScript(Script):
    """Like Script but cycles through the lists forever."""

    def on_recv(self, n, avail):
        if not self.recv_sizes:
            return n
        k = self.recv_sizes[self.ri % len(self.recv_sizes)]
        self.ri += 1
        return k

    def on_send(self, n):
        if not self.send_sizes:
            return n
        k = self.send_sizes[self.si % len(self.send_sizes)]
        self.si += 1
        return k


class MemSock(object):
    """Socket-like end of a Link."""

    def __init__(self, rx, tx, name="", script=None):
        self.rx = rx
        self.tx = tx
        self.name = name
        self.script = script
        self.closed = False
        self.calls = []             # (op, requested, moved)
        self.rx_total = 0
        self.tx_total = 0
        # fault injection by stream offset: after delivering/accepting that
        # many bytes the next call faults
        self.rx_fault = None        # (offset, kind) kind in eof/reset/...
        self.tx_fault = None
        self.fault_fired = None

    # -- reading ------------------------------------------------------------
    def recv(self, n):
        if self.closed:
            raise OSError(errno.EBADF, "closed")
        limit = n
        if self.rx_fault is not None:
            off, kind = self.rx_fault
            room = off - self.rx_total
            if room <= 0:
                self.fault_fired = ("recv", kind, self.rx_total)
                if kind == "eof":
                    return b""
                raise FAULTS[kind]()
            limit = min(limit, room)
        avail = len(self.rx.q)
        if avail == 0:
            if self.rx.eof:
                self.calls.append(("recv", n, 0))
                return b""
            raise wouldblock()
        if self.script is not None:
            k = self.script.on_recv(limit, avail)
            if k <= 0:
                self.script.stats["recv_block"] += 1
                raise wouldblock()
            if k < min(limit, avail):
                self.script.stats["recv_partial"] += 1
            limit = min(limit, k)
        out = self.rx.take(limit)
        self.rx_total += len(out)
        self.calls.append(("recv", n, len(out)))
        return out

    # -- writing ------------------------------------------------------------
    def _tx_room(self, n):
        if self.tx_fault is None:
            return n
        off, kind = self.tx_fault
        room = off - self.tx_total
        if room <= 0:
            self.fault_fired = ("send", kind, self.tx_total)
            raise FAULTS[kind]()
        return min(n, room)

    def send(self, data):
        if self.closed:
            raise OSError(errno.EBADF, "closed")
        n = len(data)
        k = self._tx_room(n)
        if self.script is not None:
            j = self.script.on_send(k)
            if j <= 0:
                self.script.stats["send_block"] += 1
                raise wouldblock()
            if j < k:
                self.script.stats["send_partial"] += 1
            k = min(k, j)
        self.tx.write(bytes(data[:k]))
        self.tx_total += k
        self.calls.append(("send", n, k))
        return k

    def sendall(self, data):
        # models a blocking socket's sendall: everything is accepted, or the
        # call fails part-way when a fault offset is reached
        if self.closed:
            raise OSError(errno.EBADF, "closed")
        data = bytes(data)
        while data:
            k = self._tx_room(len(data))
            self.tx.write(data[:k])
            self.tx_total += k
            data = data[k:]
        self.calls.append(("sendall", len(data), len(data)))
        return None

    # -- closing ------------------------------------------------------------
    def close(self):
        if not self.closed:
            self.closed = True
            self.tx.eof = True

    def shutdown(self, how):
        self.tx.eof = True

    # -- pass-through API BufferedSocket / TLSRecordLayer forward -----------
    def getsockname(self):
        return ("mem-" + self.name, 0)

    def getpeername(self):
        return ("mem-peer-of-" + self.name, 0)

    def settimeout(self, value):
        pass

    def gettimeout(self):
        return None

    def setsockopt(self, level, optname, value):
        pass

    def fileno(self):
        return -1


def frame(buf, start=0):
    """Independent record framer: yields (offset, header_len, ctype,
    version, length) for every complete record in buf, and the offset where
    the first incomplete record starts."""
    out = []
    i = start
    n = len(buf)
    while i < n:
        b0 = buf[i]
        if b0 in KNOWN_CT:
            if n - i < 5:
                break
            length = (buf[i + 3] << 8) | buf[i + 4]
            if n - i < 5 + length:
                break
            out.append((i, 5, b0, (buf[i + 1], buf[i + 2]), length))
            i += 5 + length
        else:
            # SSLv2 style header
            if n - i < 2:
                break
            if b0 & 0x80:
                hl = 2
                length = ((b0 & 0x7f) << 8) | buf[i + 1]
            else:
                if n - i < 3:
                    break
                hl = 3
                length = ((b0 & 0x3f) << 8) | buf[i + 1]
            if n - i < hl + length:
                break
            out.append((i, hl, None, (2, 0), length))
            i += hl + length
    return out, i


def records(buf):
    """List of dicts describing the complete records in a byte string."""
    recs, end = frame(buf)
    res = []
    for (off, hl, ct, ver, ln) in recs:
        res.append({"off": off, "hl": hl, "type": ct, "ver": ver, "len": ln,
                    "hdr": bytes(buf[off:off + hl]),
                    "body": bytes(buf[off + hl:off + hl + ln])})
    return res, end


class Link(object):
    """client <-> [optional MITM] <-> server.

    ``mitm(direction, index, rec)`` is called once per complete record that
    a side emitted (direction 'c2s' or 's2c', ``rec`` a dict as produced by
    records() with absolute stream offset) and returns the list of byte
    strings to deliver instead (``[rec['hdr'] + rec['body']]`` = identity).
    ``byte_mitm(direction, offset, data)`` (optional) transforms raw chunks.
    """

    def __init__(self, mitm=None, byte_mitm=None, batch_mitm=None):
        # batch_mitm(direction, [records available in this pump]) -> list of
        # byte strings: lets a re-framer merge records of one flight
        self.batch_mitm = batch_mitm
        self.out = {"c": Pipe(), "s": Pipe()}    # written by that side
        self.inp = {"c": Pipe(), "s": Pipe()}    # read by that side
        self.mitm = mitm
        self.byte_mitm = byte_mitm
        self.pending = {"c": bytearray(), "s": bytearray()}
        self.consumed = {"c": 0, "s": 0}
        self.rec_index = {"c": 0, "s": 0}
        self.hold = {"c": False, "s": False}     # stop delivering from side

    def sock(self, side, script=None):
        return MemSock(self.inp[side], self.out[side], name=side,
                       script=script)

    def pump(self):
        """Move bytes from the writers to the readers. True if any moved or
        an EOF was propagated."""
        moved = False
        for src, dst in (("c", "s"), ("s", "c")):
            o = self.out[src]
            if self.hold[src]:
                continue
            if o.q:
                data = o.take(len(o.q))
                direction = src + "2" + dst
                if self.mitm is None and self.batch_mitm is None:
                    if self.byte_mitm is not None:
                        data = self.byte_mitm(direction, self.consumed[src],
                                              data)
                    self.consumed[src] += len(data)
                    if data:
                        self.inp[dst].write(data)
                    moved = True
                else:
                    p = self.pending[src]
                    p += data
                    recs, end = records(p)
                    if self.batch_mitm is not None and recs:
                        for r in recs:
                            r["off"] += self.consumed[src]
                        for chunk in self.batch_mitm(direction, recs):
                            self.inp[dst].write(bytes(chunk))
                        self.rec_index[src] += len(recs)
                        moved = True
                        recs = []
                    for r in recs:
                        r["off"] += self.consumed[src]
                        outl = self.mitm(direction, self.rec_index[src], r)
                        self.rec_index[src] += 1
                        for chunk in outl:
                            self.inp[dst].write(bytes(chunk))
                        moved = True
                    self.consumed[src] += end
                    del p[:end]
            if o.eof and not o.q and not self.inp[dst].eof:
                # flush incomplete trailing bytes verbatim, then EOF
                if self.pending[src]:
                    self.inp[dst].write(bytes(self.pending[src]))
                    del self.pending[src][:]
                self.inp[dst].eof = True
                moved = True
        return moved

    def inject(self, to_side, data):
        """Deliver raw bytes to ``to_side`` as if the peer had sent them."""
        self.inp[to_side].write(bytes(data))

    def wire(self, src):
        """Everything side ``src`` ever wrote."""
        return bytes(self.out[src].log)

    def delivered(self, dst):
        """Everything ever delivered to side ``dst``."""
        return bytes(self.inp[dst].log)


# ---------------------------------------------------------------------------
# blocking transport for the thread based API runs
# ---------------------------------------------------------------------------
import threading


class BlockingPipe(object):
    def __init__(self):
        self.q = bytearray()
        self.eof = False
        self.log = bytearray()
        self.cv = threading.Condition()


class BlockingSock(object):
    """Blocking socket end; ``recv_sizes`` / ``send_sizes`` (cycled) bound
    how many bytes one call moves."""

    def __init__(self, rx, tx, recv_sizes=(), send_sizes=(), timeout=20.0):
        self.rx, self.tx = rx, tx
        self.recv_sizes = [k for k in recv_sizes if k > 0]
        self.send_sizes = [k for k in send_sizes if k > 0]
        self.ri = self.si = 0
        self.timeout = timeout
        self.closed = False

    def recv(self, n):
        if self.recv_sizes:
            n = min(n, self.recv_sizes[self.ri % len(self.recv_sizes)])
            self.ri += 1
        with self.rx.cv:
            end = _time.time() + self.timeout
            while not self.rx.q and not self.rx.eof:
                left = end - _time.time()
                if left <= 0:
                    raise socket.timeout("harness timeout")
                self.rx.cv.wait(left)
            out = bytes(self.rx.q[:n])
            del self.rx.q[:n]
            return out

    def send(self, data):
        k = len(data)
        if self.send_sizes:
            k = min(k, self.send_sizes[self.si % len(self.send_sizes)])
            self.si += 1
        with self.tx.cv:
            self.tx.q += data[:k]
            self.tx.log += data[:k]
            self.tx.cv.notify_all()
        return k

    def sendall(self, data):
        data = bytes(data)
        while data:
            k = self.send(data)
            data = data[k:]

    def close(self):
        self.closed = True
        with self.tx.cv:
            self.tx.eof = True
            self.tx.cv.notify_all()

    def shutdown(self, how):
        with self.tx.cv:
            self.tx.eof = True
            self.tx.cv.notify_all()

    def getsockname(self):
        return ("blocking", 0)

    getpeername = getsockname

    def settimeout(self, v):
        pass

    def gettimeout(self):
        return None

    def setsockopt(self, *a):
        pass

    def fileno(self):
        return -1


import time as _time
