"""E9: coverage-guided campaigns (atheris) as sub-processes."""
import json
import os
import shutil
import subprocess
import sys
import tempfile

from . import ROOT
from .runner import HarnessError


def run_campaigns(prop, seed, runs, nproc, budget, max_len=2048,
                  empty_corpus_procs=0):
    """Start ``nproc`` libFuzzer processes (own corpus directory, -seed
    derived from VERIF_SEED; the last ``empty_corpus_procs`` of them start
    from an empty corpus). Returns (recorded failing cases, stats)."""
    import importlib.util
    if importlib.util.find_spec("atheris") is None:
        raise HarnessError("atheris not importable: stage skipped")
    target = os.path.join(ROOT, "fuzz", "target.py")
    base = tempfile.mkdtemp(prefix="%sfuzz-" % prop.lower())
    procs = []
    try:
        for k in range(nproc):
            wd = os.path.join(base, "w%d" % k)
            os.makedirs(wd)
            env = dict(os.environ, PYTHONHASHSEED="0")
            if k >= nproc - empty_corpus_procs:
                env["VERIF_FUZZ_EMPTY_CORPUS"] = "1"
            procs.append((wd, subprocess.Popen(
                [sys.executable, "-B", target, prop, wd, "-runs=%d" % runs,
                 "-seed=%d" % (1 + (seed * 131 + k) % (2 ** 31 - 2)),
                 "-max_len=%d" % max_len, "-timeout=300",
                 "-artifact_prefix=%s/" % wd,
                 "-max_total_time=%d" % budget, "-print_final_stats=1"],
                stdout=subprocess.DEVNULL, stderr=subprocess.PIPE, env=env)))
        extra, execs, cov, corp, aborted = [], 0, 0, 0, 0
        for wd, pr in procs:
            try:
                _, err = pr.communicate(timeout=budget + 300)
            except subprocess.TimeoutExpired:
                pr.kill()
                _, err = pr.communicate()
            err = err.decode("utf-8", "replace")
            for line in err.splitlines():
                if line.startswith("stat::number_of_executed_units:"):
                    execs += int(line.split()[-1])
                if " cov: " in line:
                    try:
                        cov = max(cov, int(line.split(" cov: ")[1].split()[0]))
                        corp = max(corp, int(line.split(" corp: ")[1].split(
                            "/")[0]))
                    except (IndexError, ValueError):
                        pass
            fj = os.path.join(wd, "findings.json")
            if os.path.exists(fj):
                with open(fj) as f:
                    for sig, case in json.load(f)["findings"].items():
                        extra.append(case)
            # inputs libFuzzer itself gave up on (timeout / crash / oom of
            # the campaign process): judged in-process like any other case,
            # where the CPU watchdog tells a busy loop from a busy machine
            import glob
            import importlib
            mod = importlib.import_module("props." + prop.lower())
            for art in sorted(glob.glob(os.path.join(wd, "timeout-*")) +
                              glob.glob(os.path.join(wd, "crash-*")) +
                              glob.glob(os.path.join(wd, "oom-*"))):
                with open(art, "rb") as f:
                    case = mod.fuzz_case(f.read())
                if case is not None:
                    extra.append(case)
                    aborted += 1
        return extra, {"tool": "atheris/libFuzzer", "processes": nproc,
                       "from_empty_corpus": empty_corpus_procs,
                       "executions": execs, "coverage_edges": cov,
                       "corpus_units": corp,
                       "recorded_failing_inputs": len(extra) - aborted,
                       "inputs_the_fuzzer_gave_up_on": aborted}
    finally:
        shutil.rmtree(base, ignore_errors=True)
