"""Reference record protection (independent sender / receiver).

Written from RFC 6101, 2246, 4346, 5246 (6.2.3), 7366, 5288, 6655, 7905 and
8446 (5.2-5.4).  Not constant time, not fast, no shared code with tlslite.
"""
import struct
import subprocess

from . import aes, aead, kdf
from .mac import record_mac


class RefReject(Exception):
    """The reference receiver refuses the record."""


def des3_cbc(key, iv, data, encrypt):
    if not data:
        return b""
    args = ["openssl", "enc", "-des-ede3-cbc", "-K", bytes(key).hex(),
            "-iv", bytes(iv).hex(), "-nopad"]
    if not encrypt:
        args.append("-d")
    r = subprocess.run(args, input=bytes(data), capture_output=True)
    if r.returncode != 0 or len(r.stdout) != len(data):
        raise RuntimeError("openssl 3des failed: %r" % r.stderr[:200])
    return r.stdout


class RefState(object):
    """One direction of protection."""

    def __init__(self, version, suite, mac_key=b"", key=b"", iv=b"",
                 etm=False):
        self.version = tuple(version)
        self.suite = suite
        self.mac_key = bytes(mac_key)
        self.key = bytes(key)
        self.iv = bytes(iv)
        self.etm = etm and suite.kind == "cbc"
        self.seq = 0
        self.rc4 = aead.RC4(key) if suite.cipher == "rc4" else None
        self.chain_iv = bytes(iv)       # CBC residue for <= TLS 1.0

    def clone(self):
        c = RefState(self.version, self.suite, self.mac_key, self.key,
                     self.iv, self.etm)
        c.seq = self.seq
        c.chain_iv = self.chain_iv
        if self.rc4 is not None:
            c.rc4.s = list(self.rc4.s)
            c.rc4.i, c.rc4.j = self.rc4.i, self.rc4.j
        return c

    # -- block cipher helpers ------------------------------------------------
    def _cbc(self, iv, data, encrypt):
        if self.suite.cipher == "3des":
            return des3_cbc(self.key, iv, data, encrypt)
        if encrypt:
            return aes.cbc_encrypt(self.key, iv, data)
        return aes.cbc_decrypt(self.key, iv, data)

    def _mac(self, ctype, data, seq=None):
        return record_mac(self.suite.mac, self.mac_key,
                          self.seq if seq is None else seq, ctype,
                          self.version, data)

    def overhead_min(self):
        """Smallest possible ciphertext expansion for a record."""
        s = self.suite
        if self.version == (3, 4):
            return 1 + s.tag_len
        if s.kind == "aead":
            return s.explicit_nonce + s.tag_len
        if s.kind == "stream":
            return s.mac_len
        ex = s.block if self.version >= (3, 2) else 0
        return ex + s.mac_len + 1


def protect(st, ctype, pt, pad_len=None, explicit=None, inner_pad=0,
            rec_version=None, outer_type=None):
    """Returns header + body and advances ``st``.

    pad_len: CBC padding length byte (None = minimal); must make the total
    a multiple of the block size.
    explicit: explicit IV (CBC >= TLS 1.1) / explicit nonce (GCM, CCM).
    inner_pad: TLS 1.3 zero padding length.
    """
    pt = bytes(pt)
    s = st.suite
    v = st.version
    hv = rec_version or (v if v < (3, 4) else (3, 3))
    if v == (3, 4):
        inner = pt + bytes([ctype]) + b"\x00" * inner_pad
        ot = 23 if outer_type is None else outer_type
        hdr = bytes([ot, hv[0], hv[1]]) + struct.pack(
            ">H", len(inner) + s.tag_len)
        nonce = _xor_nonce(st.iv, st.seq)
        body = aead.seal(s.cipher, st.key, nonce, inner, hdr, s.tag_len)
        st.seq += 1
        return hdr + body
    if s.kind == "aead":
        aad = struct.pack(">Q", st.seq) + bytes([ctype, v[0], v[1]]) + \
            struct.pack(">H", len(pt))
        if s.explicit_nonce:
            ex = struct.pack(">Q", st.seq) if explicit is None else \
                bytes(explicit)
            nonce = st.iv + ex
        else:
            ex = b""
            nonce = _xor_nonce(st.iv, st.seq)
        body = ex + aead.seal(s.cipher, st.key, nonce, pt, aad, s.tag_len)
    elif s.kind == "stream":
        data = pt + st._mac(ctype, pt)
        body = st.rc4.crypt(data) if st.rc4 is not None else data
    else:
        bs = s.block
        if st.etm:
            unpadded = len(pt)
        else:
            unpadded = len(pt) + s.mac_len
        if pad_len is None:
            pad_len = (bs - 1 - unpadded % bs) % bs
        assert (unpadded + pad_len + 1) % bs == 0, "bad pad_len"
        if v == (3, 0):
            padding = b"\x00" * pad_len + bytes([pad_len])
        else:
            padding = bytes([pad_len]) * (pad_len + 1)
        if v >= (3, 2):
            iv = bytes(explicit) if explicit is not None else \
                bytes((st.seq * 7 + i) & 0xff for i in range(bs))
        else:
            iv = st.chain_iv
        if st.etm:
            enc = st._cbc(iv, pt + padding, True)
            st.chain_iv = enc[-bs:]
            if v >= (3, 2):
                enc = iv + enc
            body = enc + st._mac(ctype, enc)
        else:
            enc = st._cbc(iv, pt + st._mac(ctype, pt) + padding, True)
            st.chain_iv = enc[-bs:]
            body = (iv if v >= (3, 2) else b"") + enc
    st.seq += 1
    return bytes([ctype, hv[0], hv[1]]) + struct.pack(">H", len(body)) + body


def _xor_nonce(iv, seq):
    pad = b"\x00" * (len(iv) - 8) + struct.pack(">Q", seq)
    return bytes(a ^ b for a, b in zip(iv, pad))


def unprotect(st, record, limit=2 ** 14):
    """record = header + body. Returns (content type, plaintext); advances
    ``st`` only on success. Raises RefReject otherwise."""
    record = bytes(record)
    if len(record) < 5:
        raise RefReject("short header")
    ctype = record[0]
    hv = (record[1], record[2])
    ln = struct.unpack(">H", record[3:5])[0]
    body = record[5:]
    if ln != len(body):
        raise RefReject("length mismatch")
    s = st.suite
    v = st.version
    if v == (3, 4):
        if ctype != 23:
            raise RefReject("outer type")
        if hv != (3, 3):
            raise RefReject("outer version")
        if len(body) > limit + 256:
            raise RefReject("overflow")
        nonce = _xor_nonce(st.iv, st.seq)
        inner = aead.open_(s.cipher, st.key, nonce, body, record[:5],
                           s.tag_len)
        if inner is None:
            raise RefReject("aead")
        stripped = inner.rstrip(b"\x00")
        if not stripped:
            raise RefReject("no content type")
        if len(stripped) - 1 > limit:
            raise RefReject("overflow")
        st.seq += 1
        return stripped[-1], stripped[:-1]
    if s.kind == "aead":
        ex = body[:s.explicit_nonce]
        ct = body[s.explicit_nonce:]
        if len(ct) < s.tag_len or len(body) < s.explicit_nonce:
            raise RefReject("short")
        aad = struct.pack(">Q", st.seq) + bytes([ctype, v[0], v[1]]) + \
            struct.pack(">H", len(ct) - s.tag_len)
        if s.explicit_nonce:
            nonce = st.iv + ex
        else:
            nonce = _xor_nonce(st.iv, st.seq)
        pt = aead.open_(s.cipher, st.key, nonce, ct, aad, s.tag_len)
        if pt is None:
            raise RefReject("aead")
    elif s.kind == "stream":
        if st.rc4 is not None:
            trial = st.rc4
            saved = (list(trial.s), trial.i, trial.j)
            data = trial.crypt(body)
        else:
            data = body
        ok = len(data) >= s.mac_len and \
            st._mac(ctype, data[:len(data) - s.mac_len]) == \
            data[len(data) - s.mac_len:]
        if not ok:
            if st.rc4 is not None:
                st.rc4.s, st.rc4.i, st.rc4.j = saved
            raise RefReject("mac")
        pt = data[:len(data) - s.mac_len]
    else:
        bs = s.block
        if st.etm:
            if len(body) < s.mac_len:
                raise RefReject("short")
            enc, macv = body[:-s.mac_len], body[-s.mac_len:]
            if st._mac(ctype, enc) != macv:
                raise RefReject("mac")
            if v >= (3, 2):
                iv, ct = enc[:bs], enc[bs:]
            else:
                iv, ct = st.chain_iv, enc
            if len(ct) == 0 or len(ct) % bs or len(iv) != bs:
                raise RefReject("block length")
            data = st._cbc(iv, ct, False)
            p = data[-1]
            if p + 1 > len(data):
                raise RefReject("pad")
            if v != (3, 0) and any(b != p for b in data[-(p + 1):-1]):
                raise RefReject("pad")
            pt = data[:len(data) - p - 1]
            new_chain = ct[-bs:]
        else:
            if v >= (3, 2):
                iv, ct = body[:bs], body[bs:]
            else:
                iv, ct = st.chain_iv, body
            if len(ct) == 0 or len(ct) % bs or len(iv) != bs:
                raise RefReject("block length")
            data = st._cbc(iv, ct, False)
            p = data[-1]
            if p + 1 + s.mac_len > len(data):
                raise RefReject("pad")
            if v == (3, 0):
                if p >= bs + 1:
                    raise RefReject("pad")
            elif any(b != p for b in data[-(p + 1):-1]):
                raise RefReject("pad")
            pt = data[:len(data) - p - 1 - s.mac_len]
            macv = data[len(pt):len(pt) + s.mac_len]
            if st._mac(ctype, pt) != macv:
                raise RefReject("mac")
            new_chain = ct[-bs:]
        st.chain_iv = new_chain
    if len(pt) > limit:
        raise RefReject("overflow")
    st.seq += 1
    return ctype, pt


def states_from_master(version, suite, master, cr, sr, etm=False):
    """(client write state, server write state) for <= TLS 1.2."""
    version = tuple(version)
    iv_len = suite.fixed_iv
    if suite.kind == "cbc" and version >= (3, 2):
        iv_len_kb = suite.block      # still present in the key block
    else:
        iv_len_kb = iv_len
    n = 2 * (suite.mac_len + suite.key_len + iv_len_kb)
    kb = kdf.key_block(version, suite.prf, master, cr, sr, n)
    cm, sm, ck, sk, civ, siv = kdf.slice_key_block(
        kb, suite.mac_len, suite.key_len, iv_len_kb)
    return (RefState(version, suite, cm, ck, civ, etm),
            RefState(version, suite, sm, sk, siv, etm))


def state_from_secret13(suite, secret):
    key, iv = kdf.tls13_traffic_keys(suite.prf, secret, suite.key_len, 12)
    return RefState((3, 4), suite, b"", key, iv)
