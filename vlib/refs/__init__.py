"""E4: reference implementations written from the specifications."""
