"""RSA references: RSAES-PKCS1-v1_5 decryption with implicit rejection
(draft-irtf-cfrg-rsa-guidance, as described by RSAKey.decrypt's docstring),
EMSA-PKCS1-v1_5 and EMSA-PSS (RFC 8017).  Direct, not constant time."""
import hashlib
import hmac


def i2osp(x, n):
    return x.to_bytes(n, "big")


def _prf(key, label, out_bits):
    out = b""
    i = 0
    while len(out) < out_bits // 8:
        out += hmac.new(key, i2osp(i, 2) + label + i2osp(out_bits, 2),
                        hashlib.sha256).digest()
        i += 1
    return out[:out_bits // 8]


def decrypt_implicit_rejection(n, d, c_bytes):
    """Returns bytes, or None for publicly invalid ciphertexts."""
    k = (n.bit_length() + 7) // 8
    c_bytes = bytes(c_bytes)
    if len(c_bytes) != k:
        return None
    c = int.from_bytes(c_bytes, "big")
    if c >= n:
        return None
    em = i2osp(pow(c, d, n), k)
    key_hash = hashlib.sha256(i2osp(d, k)).digest()
    kdk = hmac.new(key_hash, c_bytes, hashlib.sha256).digest()
    length_randoms = _prf(kdk, b"length", 128 * 2 * 8)
    message_random = _prf(kdk, b"message", k * 8)
    max_len = k - 10
    mask = (1 << max_len.bit_length()) - 1
    synth = 0
    for i in range(0, 256, 2):
        cand = ((length_randoms[i] << 8) | length_randoms[i + 1]) & mask
        if cand < max_len:
            synth = cand
    ok = em[0] == 0 and em[1] == 2 and 0 not in em[2:10]
    sep = em.find(b"\x00", 10)
    if sep < 0:
        ok = False
    if ok:
        return em[sep + 1:]
    return message_random[k - synth:]


def encrypt_em(n, e, em_bytes):
    """Raw public operation on a chosen encoded message."""
    k = (n.bit_length() + 7) // 8
    m = int.from_bytes(em_bytes, "big")
    if m >= n:
        return None
    return i2osp(pow(m, e, n), k)


# ------------------------------------------------------------ signatures ---
DIGEST_INFO = {
    "md5": bytes.fromhex("3020300c06082a864886f70d020505000410"),
    "sha1": bytes.fromhex("3021300906052b0e03021a05000414"),
    "sha224": bytes.fromhex("302d300d06096086480165030402040500041c"),
    "sha256": bytes.fromhex("3031300d060960864801650304020105000420"),
    "sha384": bytes.fromhex("3041300d060960864801650304020205000430"),
    "sha512": bytes.fromhex("3051300d060960864801650304020305000440"),
}


def emsa_pkcs1_v15(hname, digest, k):
    t = DIGEST_INFO[hname] + bytes(digest)
    if k < len(t) + 11:
        raise ValueError("intended encoded message length too short")
    return b"\x00\x01" + b"\xff" * (k - len(t) - 3) + b"\x00" + t


def verify_pkcs1_v15(n, e, hname, digest, sig):
    k = (n.bit_length() + 7) // 8
    if len(sig) != k:
        return False
    s = int.from_bytes(sig, "big")
    if s >= n:
        return False
    em = i2osp(pow(s, e, n), k)
    try:
        return em == emsa_pkcs1_v15(hname, digest, k)
    except ValueError:
        return False


def mgf1(seed, n, hname):
    out = b""
    c = 0
    while len(out) < n:
        out += hashlib.new(hname, seed + i2osp(c, 4)).digest()
        c += 1
    return out[:n]


def verify_pss(n, e, hname, mhash, sig, slen):
    k = (n.bit_length() + 7) // 8
    if len(sig) != k:
        return False
    s = int.from_bytes(sig, "big")
    if s >= n:
        return False
    embits = n.bit_length() - 1
    emlen = (embits + 7) // 8
    m = pow(s, e, n)
    if m.bit_length() > emlen * 8:
        return False
    em = i2osp(m, emlen)
    hlen = hashlib.new(hname).digest_size
    if emlen < hlen + slen + 2:
        return False
    if em[-1] != 0xbc:
        return False
    masked, h = em[:emlen - hlen - 1], em[emlen - hlen - 1:-1]
    zbits = 8 * emlen - embits
    if zbits and masked[0] >> (8 - zbits):
        return False
    dbmask = mgf1(h, emlen - hlen - 1, hname)
    db = bytearray(a ^ b for a, b in zip(masked, dbmask))
    if zbits:
        db[0] &= 0xff >> zbits
    ps_len = emlen - hlen - slen - 2
    if any(db[:ps_len]) or db[ps_len] != 1:
        return False
    salt = bytes(db[ps_len + 1:])
    h2 = hashlib.new(hname, b"\x00" * 8 + bytes(mhash) + salt).digest()
    return h2 == h
