"""AES per FIPS-197, computed tables; ECB block, CBC, CTR."""


def _xtime(a):
    a <<= 1
    if a & 0x100:
        a ^= 0x11b
    return a & 0xff


def _gmul(a, b):
    r = 0
    while b:
        if b & 1:
            r ^= a
        a = _xtime(a)
        b >>= 1
    return r


def _build_sbox():
    # multiplicative inverse in GF(2^8) followed by the affine transform
    inv = [0] * 256
    for x in range(1, 256):
        for y in range(1, 256):
            if _gmul(x, y) == 1:
                inv[x] = y
                break
    sbox = [0] * 256
    for x in range(256):
        b = inv[x]
        r = 0
        for i in range(8):
            bit = ((b >> i) ^ (b >> ((i + 4) % 8)) ^ (b >> ((i + 5) % 8)) ^
                   (b >> ((i + 6) % 8)) ^ (b >> ((i + 7) % 8)) ^
                   (0x63 >> i)) & 1
            r |= bit << i
        sbox[x] = r
    return sbox


SBOX = _build_sbox()
INV_SBOX = [0] * 256
for _i, _v in enumerate(SBOX):
    INV_SBOX[_v] = _i
M2 = [_gmul(x, 2) for x in range(256)]
M3 = [_gmul(x, 3) for x in range(256)]
M9 = [_gmul(x, 9) for x in range(256)]
M11 = [_gmul(x, 11) for x in range(256)]
M13 = [_gmul(x, 13) for x in range(256)]
M14 = [_gmul(x, 14) for x in range(256)]


def expand_key(key):
    key = bytes(key)
    nk = len(key) // 4
    assert nk in (4, 6, 8)
    nr = nk + 6
    w = [list(key[4 * i:4 * i + 4]) for i in range(nk)]
    rcon = 1
    for i in range(nk, 4 * (nr + 1)):
        t = list(w[i - 1])
        if i % nk == 0:
            t = t[1:] + t[:1]
            t = [SBOX[b] for b in t]
            t[0] ^= rcon
            rcon = _xtime(rcon)
        elif nk > 6 and i % nk == 4:
            t = [SBOX[b] for b in t]
        w.append([a ^ b for a, b in zip(w[i - nk], t)])
    rks = []
    for r in range(nr + 1):
        rk = []
        for c in range(4):
            rk += w[4 * r + c]
        rks.append(rk)
    return rks


def _shift_rows(s):
    # state is column-major: s[4*c + r]
    return [s[4 * ((c + r) % 4) + r] for c in range(4) for r in range(4)]


def _inv_shift_rows(s):
    return [s[4 * ((c - r) % 4) + r] for c in range(4) for r in range(4)]


def encrypt_block(rks, block):
    s = [b ^ k for b, k in zip(block, rks[0])]
    nr = len(rks) - 1
    for r in range(1, nr + 1):
        s = [SBOX[b] for b in s]
        s = _shift_rows(s)
        if r != nr:
            t = []
            for c in range(4):
                a0, a1, a2, a3 = s[4 * c:4 * c + 4]
                t += [M2[a0] ^ M3[a1] ^ a2 ^ a3,
                      a0 ^ M2[a1] ^ M3[a2] ^ a3,
                      a0 ^ a1 ^ M2[a2] ^ M3[a3],
                      M3[a0] ^ a1 ^ a2 ^ M2[a3]]
            s = t
        s = [b ^ k for b, k in zip(s, rks[r])]
    return bytes(s)


def decrypt_block(rks, block):
    nr = len(rks) - 1
    s = [b ^ k for b, k in zip(block, rks[nr])]
    for r in range(nr - 1, -1, -1):
        s = _inv_shift_rows(s)
        s = [INV_SBOX[b] for b in s]
        s = [b ^ k for b, k in zip(s, rks[r])]
        if r != 0:
            t = []
            for c in range(4):
                a0, a1, a2, a3 = s[4 * c:4 * c + 4]
                t += [M14[a0] ^ M11[a1] ^ M13[a2] ^ M9[a3],
                      M9[a0] ^ M14[a1] ^ M11[a2] ^ M13[a3],
                      M13[a0] ^ M9[a1] ^ M14[a2] ^ M11[a3],
                      M11[a0] ^ M13[a1] ^ M9[a2] ^ M14[a3]]
            s = t
    return bytes(s)


_ks_cache = {}


def _rks(key):
    key = bytes(key)
    r = _ks_cache.get(key)
    if r is None:
        if len(_ks_cache) > 256:
            _ks_cache.clear()
        r = _ks_cache[key] = expand_key(key)
    return r


def ecb_encrypt(key, block):
    return encrypt_block(_rks(key), bytes(block))


def ecb_decrypt(key, block):
    return decrypt_block(_rks(key), bytes(block))


def cbc_encrypt(key, iv, pt):
    assert len(pt) % 16 == 0
    rks = _rks(key)
    out = b""
    prev = bytes(iv)
    for i in range(0, len(pt), 16):
        blk = bytes(a ^ b for a, b in zip(pt[i:i + 16], prev))
        prev = encrypt_block(rks, blk)
        out += prev
    return out


def cbc_decrypt(key, iv, ct):
    assert len(ct) % 16 == 0
    rks = _rks(key)
    out = b""
    prev = bytes(iv)
    for i in range(0, len(ct), 16):
        blk = bytes(ct[i:i + 16])
        d = decrypt_block(rks, blk)
        out += bytes(a ^ b for a, b in zip(d, prev))
        prev = blk
    return out


def ctr_keystream(key, counter_block, nbytes, inc_bytes=16):
    """Keystream of E(K, ctr), ctr incremented as a big-endian integer over
    its last ``inc_bytes`` bytes (wrapping)."""
    rks = _rks(key)
    ctr = bytes(counter_block)
    out = b""
    while len(out) < nbytes:
        out += encrypt_block(rks, ctr)
        head, tail = ctr[:16 - inc_bytes], ctr[16 - inc_bytes:]
        v = (int.from_bytes(tail, "big") + 1) % (1 << (8 * inc_bytes))
        ctr = head + v.to_bytes(inc_bytes, "big")
    return out[:nbytes]


def ctr_crypt(key, counter_block, data, inc_bytes=16):
    ks = ctr_keystream(key, counter_block, len(data), inc_bytes)
    return bytes(a ^ b for a, b in zip(data, ks))
