"""AES-GCM (SP 800-38D), AES-CCM (SP 800-38C / RFC 3610), ChaCha20 and
Poly1305 and their AEAD (RFC 8439), RC4.  Slow and direct on purpose."""
import struct

from . import aes


# ------------------------------------------------------------------ GCM ---
def _gf128_mul(x, y):
    """Multiplication in GF(2^128) as defined by SP 800-38D 6.3 (bit 0 is
    the most significant bit of the block)."""
    R = 0xe1 << 120
    z = 0
    v = x
    for i in range(127, -1, -1):
        if (y >> i) & 1:
            z ^= v
        if v & 1:
            v = (v >> 1) ^ R
        else:
            v >>= 1
    return z


def ghash(h, aad, ct):
    def blocks(data):
        for i in range(0, len(data), 16):
            b = data[i:i + 16]
            yield b + b"\x00" * (16 - len(b))
    y = 0
    hh = int.from_bytes(h, "big")
    for b in blocks(aad):
        y = _gf128_mul(y ^ int.from_bytes(b, "big"), hh)
    for b in blocks(ct):
        y = _gf128_mul(y ^ int.from_bytes(b, "big"), hh)
    lens = struct.pack(">QQ", len(aad) * 8, len(ct) * 8)
    y = _gf128_mul(y ^ int.from_bytes(lens, "big"), hh)
    return y.to_bytes(16, "big")


def _gcm_j0(key, h, nonce):
    if len(nonce) == 12:
        return bytes(nonce) + b"\x00\x00\x00\x01"
    return ghash(h, b"", bytes(nonce))  # (len field covers |IV| in ct slot)


def gcm_seal(key, nonce, pt, aad, tag_len=16):
    h = aes.ecb_encrypt(key, b"\x00" * 16)
    assert len(nonce) == 12
    j0 = bytes(nonce) + b"\x00\x00\x00\x01"
    ctr1 = j0[:12] + struct.pack(">I", 2)
    ct = aes.ctr_crypt(key, ctr1, bytes(pt), inc_bytes=4)
    s = ghash(h, bytes(aad), ct)
    tag = bytes(a ^ b for a, b in zip(s, aes.ecb_encrypt(key, j0)))
    return ct + tag[:tag_len]


def gcm_open(key, nonce, data, aad, tag_len=16):
    if len(data) < tag_len:
        return None
    ct, tag = bytes(data[:-tag_len]), bytes(data[-tag_len:])
    h = aes.ecb_encrypt(key, b"\x00" * 16)
    j0 = bytes(nonce) + b"\x00\x00\x00\x01"
    s = ghash(h, bytes(aad), ct)
    want = bytes(a ^ b for a, b in zip(s, aes.ecb_encrypt(key, j0)))
    if want[:tag_len] != tag:
        return None
    ctr1 = j0[:12] + struct.pack(">I", 2)
    return aes.ctr_crypt(key, ctr1, ct, inc_bytes=4)


# ------------------------------------------------------------------ CCM ---
def _ccm_tag(key, nonce, pt, aad, tag_len):
    n = len(nonce)
    q = 15 - n
    flags = (0x40 if aad else 0) | (((tag_len - 2) // 2) << 3) | (q - 1)
    b0 = bytes([flags]) + bytes(nonce) + len(pt).to_bytes(q, "big")
    blocks = b0
    if aad:
        la = len(aad)
        if la < 0xff00:
            enc = struct.pack(">H", la)
        elif la < 2 ** 32:
            enc = b"\xff\xfe" + struct.pack(">I", la)
        else:
            enc = b"\xff\xff" + struct.pack(">Q", la)
        a = enc + bytes(aad)
        a += b"\x00" * (-len(a) % 16)
        blocks += a
    p = bytes(pt) + b"\x00" * (-len(pt) % 16)
    blocks += p
    x = b"\x00" * 16
    for i in range(0, len(blocks), 16):
        x = aes.ecb_encrypt(key, bytes(a ^ b for a, b in
                                       zip(x, blocks[i:i + 16])))
    return x[:tag_len]


def _ccm_ctr(nonce, i):
    q = 15 - len(nonce)
    return bytes([q - 1]) + bytes(nonce) + i.to_bytes(q, "big")


def ccm_seal(key, nonce, pt, aad, tag_len=16):
    t = _ccm_tag(key, nonce, pt, aad, tag_len)
    q = 15 - len(nonce)
    s0 = aes.ecb_encrypt(key, _ccm_ctr(nonce, 0))
    ct = aes.ctr_crypt(key, _ccm_ctr(nonce, 1), bytes(pt), inc_bytes=q)
    return ct + bytes(a ^ b for a, b in zip(t, s0))


def ccm_open(key, nonce, data, aad, tag_len=16):
    if len(data) < tag_len:
        return None
    ct, tag = bytes(data[:-tag_len]), bytes(data[-tag_len:])
    q = 15 - len(nonce)
    pt = aes.ctr_crypt(key, _ccm_ctr(nonce, 1), ct, inc_bytes=q)
    s0 = aes.ecb_encrypt(key, _ccm_ctr(nonce, 0))
    t = _ccm_tag(key, nonce, pt, aad, tag_len)
    if bytes(a ^ b for a, b in zip(t, s0)) != tag:
        return None
    return pt


# --------------------------------------------------------------- ChaCha ---
def _rotl(v, c):
    return ((v << c) & 0xffffffff) | (v >> (32 - c))


def _qr(s, a, b, c, d):
    s[a] = (s[a] + s[b]) & 0xffffffff
    s[d] = _rotl(s[d] ^ s[a], 16)
    s[c] = (s[c] + s[d]) & 0xffffffff
    s[b] = _rotl(s[b] ^ s[c], 12)
    s[a] = (s[a] + s[b]) & 0xffffffff
    s[d] = _rotl(s[d] ^ s[a], 8)
    s[c] = (s[c] + s[d]) & 0xffffffff
    s[b] = _rotl(s[b] ^ s[c], 7)


def chacha20_block(key, counter, nonce):
    """RFC 8439 2.3: 32-bit counter, 96-bit nonce."""
    st = list(struct.unpack("<4I", b"expand 32-byte k")) + \
        list(struct.unpack("<8I", bytes(key))) + [counter & 0xffffffff] + \
        list(struct.unpack("<3I", bytes(nonce)))
    w = list(st)
    for _ in range(10):
        _qr(w, 0, 4, 8, 12)
        _qr(w, 1, 5, 9, 13)
        _qr(w, 2, 6, 10, 14)
        _qr(w, 3, 7, 11, 15)
        _qr(w, 0, 5, 10, 15)
        _qr(w, 1, 6, 11, 12)
        _qr(w, 2, 7, 8, 13)
        _qr(w, 3, 4, 9, 14)
    return struct.pack("<16I", *[(a + b) & 0xffffffff
                                 for a, b in zip(w, st)])


def chacha20_crypt(key, counter, nonce, data):
    out = bytearray()
    data = bytes(data)
    for i in range(0, len(data), 64):
        ks = chacha20_block(key, counter + i // 64, nonce)
        out += bytes(a ^ b for a, b in zip(data[i:i + 64], ks))
    return bytes(out)


def poly1305(key, msg):
    r = int.from_bytes(key[:16], "little") & \
        0x0ffffffc0ffffffc0ffffffc0fffffff
    s = int.from_bytes(key[16:32], "little")
    p = (1 << 130) - 5
    acc = 0
    msg = bytes(msg)
    for i in range(0, len(msg), 16):
        blk = msg[i:i + 16] + b"\x01"
        acc = ((acc + int.from_bytes(blk, "little")) * r) % p
    return ((acc + s) & ((1 << 128) - 1)).to_bytes(16, "little")


def _pad16(x):
    return b"\x00" * (-len(x) % 16)


def chacha20poly1305_seal(key, nonce, pt, aad):
    otk = chacha20_block(key, 0, nonce)[:32]
    ct = chacha20_crypt(key, 1, nonce, pt)
    aad = bytes(aad)
    mac_data = aad + _pad16(aad) + ct + _pad16(ct) + \
        struct.pack("<QQ", len(aad), len(ct))
    return ct + poly1305(otk, mac_data)


def chacha20poly1305_open(key, nonce, data, aad):
    if len(data) < 16:
        return None
    ct, tag = bytes(data[:-16]), bytes(data[-16:])
    otk = chacha20_block(key, 0, nonce)[:32]
    aad = bytes(aad)
    mac_data = aad + _pad16(aad) + ct + _pad16(ct) + \
        struct.pack("<QQ", len(aad), len(ct))
    if poly1305(otk, mac_data) != tag:
        return None
    return chacha20_crypt(key, 1, nonce, ct)


# ------------------------------------------------------------------ RC4 ---
class RC4(object):
    def __init__(self, key):
        key = bytes(key)
        s = list(range(256))
        j = 0
        for i in range(256):
            j = (j + s[i] + key[i % len(key)]) & 0xff
            s[i], s[j] = s[j], s[i]
        self.s, self.i, self.j = s, 0, 0

    def crypt(self, data):
        s, i, j = self.s, self.i, self.j
        out = bytearray()
        for b in bytes(data):
            i = (i + 1) & 0xff
            j = (j + s[i]) & 0xff
            s[i], s[j] = s[j], s[i]
            out.append(b ^ s[(s[i] + s[j]) & 0xff])
        self.i, self.j = i, j
        return bytes(out)


def seal(cipher, key, nonce, pt, aad, tag_len=16):
    if cipher == "aesgcm":
        return gcm_seal(key, nonce, pt, aad, tag_len)
    if cipher == "aesccm":
        return ccm_seal(key, nonce, pt, aad, tag_len)
    if cipher == "chacha20poly1305":
        return chacha20poly1305_seal(key, nonce, pt, aad)
    raise ValueError(cipher)


def open_(cipher, key, nonce, data, aad, tag_len=16):
    if cipher == "aesgcm":
        return gcm_open(key, nonce, data, aad, tag_len)
    if cipher == "aesccm":
        return ccm_open(key, nonce, data, aad, tag_len)
    if cipher == "chacha20poly1305":
        return chacha20poly1305_open(key, nonce, data, aad)
    raise ValueError(cipher)
