"""Record MACs: RFC 6101 5.2.3.1 (SSLv3) and RFC 2104 / RFC 5246 6.2.3.1."""
import hashlib
import hmac
import struct

HASHES = {"md5": hashlib.md5, "sha1": hashlib.sha1, "sha": hashlib.sha1,
          "sha256": hashlib.sha256, "sha384": hashlib.sha384}


def ssl3_mac(hname, secret, seq, ctype, data):
    """hash(secret + pad_2 + hash(secret + pad_1 + seq + type + len + data))
    pad_1 = 0x36 * 48 (MD5) or 40 (SHA), pad_2 = 0x5c likewise."""
    h = HASHES[hname]
    n = {"md5": 48, "sha1": 40, "sha": 40}[hname]
    inner = h(bytes(secret) + b"\x36" * n + struct.pack(">Q", seq) +
              bytes([ctype]) + struct.pack(">H", len(data)) +
              bytes(data)).digest()
    return h(bytes(secret) + b"\x5c" * n + inner).digest()


def tls_mac(hname, secret, seq, ctype, version, data):
    msg = struct.pack(">Q", seq) + bytes([ctype, version[0], version[1]]) + \
        struct.pack(">H", len(data)) + bytes(data)
    return hmac.new(bytes(secret), msg, HASHES[hname]).digest()


def record_mac(hname, secret, seq, ctype, version, data):
    if tuple(version) == (3, 0):
        return ssl3_mac(hname, secret, seq, ctype, data)
    return tls_mac(hname, secret, seq, ctype, version, data)
