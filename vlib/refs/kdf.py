"""Key derivation from the specifications: SSLv3 (RFC 6101 6.1/6.2.2),
TLS 1.0/1.1 (RFC 2246 5), TLS 1.2 (RFC 5246 5), EMS (RFC 7627), exporters
(RFC 5705, RFC 8446 7.5), HKDF (RFC 5869) and the TLS 1.3 key schedule
(RFC 8446 7.1-7.3)."""
import hashlib
import hmac
import struct

H = {"md5": hashlib.md5, "sha1": hashlib.sha1, "sha256": hashlib.sha256,
     "sha384": hashlib.sha384, "sha512": hashlib.sha512,
     "sha224": hashlib.sha224}


def ssl3_prf(secret, seed, n):
    out = b""
    i = 0
    secret, seed = bytes(secret), bytes(seed)
    while len(out) < n:
        a = bytes([ord("A") + i]) * (i + 1)
        out += hashlib.md5(secret + hashlib.sha1(a + secret + seed)
                           .digest()).digest()
        i += 1
    return out[:n]


def p_hash(hname, secret, seed, n):
    secret, seed = bytes(secret), bytes(seed)
    out = b""
    a = seed
    while len(out) < n:
        a = hmac.new(secret, a, H[hname]).digest()
        out += hmac.new(secret, a + seed, H[hname]).digest()
    return out[:n]


def tls10_prf(secret, label, seed, n):
    secret = bytes(secret)
    half = (len(secret) + 1) // 2
    s1, s2 = secret[:half], secret[len(secret) - half:]
    a = p_hash("md5", s1, bytes(label) + bytes(seed), n)
    b = p_hash("sha1", s2, bytes(label) + bytes(seed), n)
    return bytes(x ^ y for x, y in zip(a, b))


def tls12_prf(hname, secret, label, seed, n):
    return p_hash(hname, secret, bytes(label) + bytes(seed), n)


def prf(version, prf_hash, secret, label, seed, n):
    version = tuple(version)
    if version in ((3, 1), (3, 2)):
        return tls10_prf(secret, label, seed, n)
    if version == (3, 3):
        return tls12_prf(prf_hash, secret, label, seed, n)
    raise ValueError(version)


def master_secret(version, prf_hash, premaster, cr, sr):
    version = tuple(version)
    if version == (3, 0):
        return ssl3_prf(premaster, bytes(cr) + bytes(sr), 48)
    return prf(version, prf_hash, premaster, b"master secret",
               bytes(cr) + bytes(sr), 48)


def extended_master_secret(version, prf_hash, premaster, session_hash):
    return prf(version, prf_hash, premaster, b"extended master secret",
               session_hash, 48)


def key_block(version, prf_hash, master, cr, sr, n):
    version = tuple(version)
    if version == (3, 0):
        return ssl3_prf(master, bytes(sr) + bytes(cr), n)
    return prf(version, prf_hash, master, b"key expansion",
               bytes(sr) + bytes(cr), n)


def slice_key_block(kb, mac_len, key_len, iv_len):
    """client MAC, server MAC, client key, server key, client IV, server IV"""
    out = []
    off = 0
    for ln in (mac_len, mac_len, key_len, key_len, iv_len, iv_len):
        out.append(kb[off:off + ln])
        off += ln
    return out


def finished_tls(version, prf_hash, master, transcript, is_client):
    """transcript: concatenation of all handshake messages so far."""
    version = tuple(version)
    label = b"client finished" if is_client else b"server finished"
    if version in ((3, 1), (3, 2)):
        hs = hashlib.md5(transcript).digest() + \
            hashlib.sha1(transcript).digest()
    else:
        hs = H[prf_hash](transcript).digest()
    return prf(version, prf_hash, master, label, hs, 12)


def finished_ssl3(master, transcript, is_client):
    sender = b"CLNT" if is_client else b"SRVR"
    master = bytes(master)
    out = b""
    for h, n in ((hashlib.md5, 48), (hashlib.sha1, 40)):
        inner = h(transcript + sender + master + b"\x36" * n).digest()
        out += h(master + b"\x5c" * n + inner).digest()
    return out


def exporter_tls12(version, prf_hash, master, cr, sr, label, length,
                   context=None):
    seed = bytes(cr) + bytes(sr)
    if context is not None:
        seed += struct.pack(">H", len(context)) + bytes(context)
    return prf(version, prf_hash, master, label, seed, length)


# --------------------------------------------------------------- HKDF ---
def hkdf_extract(hname, salt, ikm):
    hl = H[hname]().digest_size
    if not salt:
        salt = b"\x00" * hl
    return hmac.new(bytes(salt), bytes(ikm), H[hname]).digest()


def hkdf_expand(hname, prk, info, n):
    out = b""
    t = b""
    i = 1
    while len(out) < n:
        t = hmac.new(bytes(prk), t + bytes(info) + bytes([i]),
                     H[hname]).digest()
        out += t
        i += 1
    return out[:n]


def expand_label(hname, secret, label, context, n):
    lab = b"tls13 " + bytes(label)
    info = struct.pack(">H", n) + bytes([len(lab)]) + lab + \
        bytes([len(context)]) + bytes(context)
    return hkdf_expand(hname, secret, info, n)


def derive_secret(hname, secret, label, messages):
    return expand_label(hname, secret, label,
                        H[hname](bytes(messages)).digest(),
                        H[hname]().digest_size)


class Tls13Schedule(object):
    """RFC 8446 7.1. ``psk``/``ecdhe`` may be None (zeros)."""

    def __init__(self, hname, psk=None, ecdhe=None):
        self.h = hname
        hl = H[hname]().digest_size
        z = b"\x00" * hl
        self.early = hkdf_extract(hname, z, psk if psk is not None else z)
        d = derive_secret(hname, self.early, b"derived", b"")
        self.handshake = hkdf_extract(hname, d,
                                      ecdhe if ecdhe is not None else z)
        d2 = derive_secret(hname, self.handshake, b"derived", b"")
        self.master = hkdf_extract(hname, d2, z)

    def binder_key(self, external=False):
        return derive_secret(self.h, self.early,
                             b"ext binder" if external else b"res binder",
                             b"")

    def hs_traffic(self, ch_to_sh):
        return (derive_secret(self.h, self.handshake, b"c hs traffic",
                              ch_to_sh),
                derive_secret(self.h, self.handshake, b"s hs traffic",
                              ch_to_sh))

    def app_traffic(self, ch_to_sfin):
        return (derive_secret(self.h, self.master, b"c ap traffic",
                              ch_to_sfin),
                derive_secret(self.h, self.master, b"s ap traffic",
                              ch_to_sfin))

    def exporter_master(self, ch_to_sfin):
        return derive_secret(self.h, self.master, b"exp master", ch_to_sfin)

    def resumption_master(self, ch_to_cfin):
        return derive_secret(self.h, self.master, b"res master", ch_to_cfin)


def tls13_traffic_keys(hname, secret, key_len, iv_len=12):
    return (expand_label(hname, secret, b"key", b"", key_len),
            expand_label(hname, secret, b"iv", b"", iv_len))


def tls13_next_secret(hname, secret):
    return expand_label(hname, secret, b"traffic upd", b"",
                        H[hname]().digest_size)


def tls13_finished(hname, base_secret, transcript_hash):
    fk = expand_label(hname, base_secret, b"finished", b"",
                      H[hname]().digest_size)
    return hmac.new(fk, transcript_hash, H[hname]).digest()


def tls13_exporter(hname, exporter_master, label, context, length):
    d = derive_secret(hname, exporter_master, label, b"")
    return expand_label(hname, d, b"exporter",
                        H[hname](bytes(context)).digest(), length)


def tls13_resumption_psk(hname, resumption_master, ticket_nonce):
    return expand_label(hname, resumption_master, b"resumption",
                        ticket_nonce, H[hname]().digest_size)
