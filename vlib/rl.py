"""RecordLayer-level harness: a tlslite RecordLayer keyed directly (no
handshake) next to the reference states for the same secrets."""
from .wire import Pipe, MemSock
from .refs import record as rr

from tlslite.recordlayer import RecordLayer
from tlslite.messages import Message


class RL(object):
    """One tlslite RecordLayer with in-memory pipes."""

    def __init__(self, version, suite, client, master=None, cr=None, sr=None,
                 cl_secret=None, sr_secret=None, etm=False):
        self.rx = Pipe()
        self.tx = Pipe()
        self.sock = MemSock(self.rx, self.tx, name="rl")
        rl = self.rl = RecordLayer(self.sock)
        rl.client = client
        version = tuple(version)
        if version == (3, 4):
            rl.version = (3, 4)
            rl.tls13record = True
            rl.calcTLS1_3PendingState(suite.id, bytearray(cl_secret),
                                      bytearray(sr_secret), ["python"])
        else:
            rl.version = version
            if etm:
                rl.encryptThenMAC = True
            rl.calcPendingStates(suite.id, bytearray(master), bytearray(cr),
                                 bytearray(sr), ["python"])
        rl.changeWriteState()
        rl.changeReadState()

    def send(self, ctype, data):
        """Protect one record; returns the wire bytes."""
        before = len(self.tx.log)
        for r in self.rl.sendRecord(Message(ctype, bytearray(data))):
            pass
        out = bytes(self.tx.log[before:])
        del self.tx.q[:]
        return out

    def recv(self, wire):
        """Feed exactly these bytes; returns (type, plaintext) or raises
        what RecordLayer.recvRecord raises.  'blocked' is returned if the
        record layer wants more bytes."""
        self.rx.write(bytes(wire))
        for r in self.rl.recvRecord():
            if r in (0, 1):
                return "blocked"
            hdr, parser = r
            return hdr.type, bytes(parser.bytes)


def ref_pair(version, suite, master=None, cr=None, sr=None, cl_secret=None,
             sr_secret=None, etm=False):
    """(client write RefState, server write RefState)"""
    if tuple(version) == (3, 4):
        return (rr.state_from_secret13(suite, cl_secret),
                rr.state_from_secret13(suite, sr_secret))
    return rr.states_from_master(version, suite, master, cr, sr, etm)
