"""E5: a non-conforming but well-keyed peer.

A real TLSConnection whose *instance* gets wrapped send-side methods,
installed by the harness on that one object.  The wrapper sees each outgoing
message before protection and can replace/drop/duplicate/insert it.  The
endpoint under observation is never patched."""
from tlslite.constants import ContentType


class RawMsg(object):
    """Message with arbitrary content type and bytes."""

    def __init__(self, content_type, data):
        self.contentType = content_type
        self.data = bytearray(data)

    def write(self):
        return self.data

    def splitFirstByte(self):
        first = RawMsg(self.contentType, self.data[:1])
        self.data = self.data[1:]
        return first


def split_messages(data):
    """handshake byte string -> list of complete messages (bytes)"""
    out = []
    i = 0
    data = bytes(data)
    while len(data) - i >= 4:
        ln = int.from_bytes(data[i + 1:i + 4], "big")
        out.append(data[i:i + 4 + ln])
        i += 4 + ln
    if i < len(data):
        out.append(data[i:])
    return out


class Deviant(object):
    """Installs ``fn(dev, index, content_type, data) -> None | list of
    (content_type, bytes)`` on a connection.  ``index`` counts handshake
    messages sent by this endpoint (other content types get index -1).
    ``sent`` logs (index, content type, original bytes, replacement)."""

    def __init__(self, conn, fn):
        self.conn = conn
        self.fn = fn
        self.index = 0
        self.seq = 0            # counts every message incl. CCS/alert/data
        self.cur_seq = -1
        self.sent = []
        self.emitted = []       # (content type, bytes) really handed down
        self.applied = False
        self._orig_send = conn._sendMsg
        self._orig_queue = conn._queue_message
        conn._sendMsg = self._send
        conn._queue_message = self._queue

    def _transform(self, msg):
        ct = msg.contentType
        data = bytes(msg.write())
        if ct == ContentType.handshake and type(msg).__name__ != "Message":
            idx = self.index
            self.index += 1
        elif ct == ContentType.handshake:
            idx = None          # coalesced flush: already transformed
        else:
            idx = -1
        if idx is None:
            return None
        self.cur_seq = self.seq
        self.seq += 1
        rep = self.fn(self, idx, ct, data)
        self.sent.append((idx, ct, data, rep))
        if rep is not None:
            self.applied = True
        return rep

    def _send(self, msg, *a, **kw):
        coalesced = type(msg).__name__ == "Message" and \
            msg.contentType == ContentType.handshake
        rep = self._transform(msg)
        if rep is None:
            if not coalesced:
                self.emitted.append((msg.contentType, bytes(msg.write())))
            for r in self._orig_send(msg, *a, **kw):
                yield r
            return
        for item in rep:
            ct, data = item[0], item[1]
            self.emitted.append((ct, bytes(data)))
            # a third element "wire": bytes that appear on the wire only,
            # the sender's own transcript does not cover them
            keep = self.conn._handshake_hash.copy() \
                if len(item) > 2 and item[2] == "wire" else None
            for r in self._orig_send(RawMsg(ct, data), *a, **kw):
                yield r
            if keep is not None:
                self.conn._handshake_hash = keep

    def _queue(self, msg):
        rep = self._transform(msg)
        if rep is None:
            self.emitted.append((msg.contentType, bytes(msg.write())))
            return self._orig_queue(msg)
        for item in rep:
            ct, data = item[0], item[1]
            if ct != msg.contentType:
                continue        # cannot mix content types in one flight
            self.emitted.append((ct, bytes(data)))
            keep = self.conn._handshake_hash.copy() \
                if len(item) > 2 and item[2] == "wire" else None
            self._orig_queue(RawMsg(ct, data))
            if keep is not None:
                self.conn._handshake_hash = keep
