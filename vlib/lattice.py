"""E6: the settings lattice - Hypothesis strategies that *construct*
consistent HandshakeSettings restrictions for a client/server pair."""
from hypothesis import strategies as st

CIPHERS = ["chacha20-poly1305", "aes256gcm", "aes128gcm", "aes256ccm",
           "aes128ccm", "aes256", "aes128", "3des",
           "chacha20-poly1305_draft00", "aes128ccm_8", "aes256ccm_8", "rc4",
           "null"]
MACS = ["sha", "sha256", "sha384", "aead", "md5"]
KX_CERT = ["ecdhe_ecdsa", "rsa", "dhe_rsa", "ecdhe_rsa", "dhe_dsa"]
KX_ALL = KX_CERT + ["srp_sha", "srp_sha_rsa", "ecdh_anon", "dh_anon"]
CURVES = ["x25519", "x448", "secp384r1", "secp256r1", "secp521r1",
          "brainpoolP256r1", "brainpoolP384r1"]
CURVES13 = ["x25519", "x448", "secp384r1", "secp256r1", "secp521r1"]
DHGROUPS = ["ffdhe2048", "ffdhe3072"]
HASHES = ["sha512", "sha384", "sha256", "sha224", "sha1"]
VERSIONS = [(3, 0), (3, 1), (3, 2), (3, 3), (3, 4)]
KEYSIZES = [(1023, 8193), (512, 16384), (2048, 8193), (1023, 2047),
            (1025, 4096), (3072, 8193), (1023, 1024), (2049, 3071)]
SERVER_CREDS = ["rsa", "rsa1024", "rsa3072", "rsapss", "ecdsa", "p384",
                "p521", "ed25519", "ed448", "dsa", "bp256"]
CLIENT_CREDS = [None, None, "c_rsa", "c_ecdsa", "c_ed25519", "c_dsa"]
ALPNS = ["http/1.1", "h2", "spdy/3", "x"]

# key facts about the credential assets (checked out-of-band with openssl)
CRED_INFO = {
    "rsa": ("rsa", 2048), "rsa1024": ("rsa", 1024), "rsa3072": ("rsa", 3072),
    "rsapss": ("rsa-pss", 2048), "ecdsa": ("ecdsa", "secp256r1"),
    "p384": ("ecdsa", "secp384r1"), "p521": ("ecdsa", "secp521r1"),
    "bp256": ("ecdsa", "brainpoolP256r1"),
    "ed25519": ("Ed25519", None), "ed448": ("Ed448", None),
    "dsa": ("dsa", 2048), "c_rsa": ("rsa", 1024),
    "c_ecdsa": ("ecdsa", "secp256r1"), "c_ed25519": ("Ed25519", None),
    "c_dsa": ("dsa", 2048),
}


def subset(elems, min_size=1, full_bias=True):
    """Ordered non-empty sub-list (a permutation of a subset)."""
    base = st.lists(st.sampled_from(elems), min_size=min_size,
                    max_size=len(elems), unique=True)
    if full_bias:
        return st.one_of(st.just(list(elems)), base, base)
    return base


@st.composite
def version_range(draw):
    a = draw(st.sampled_from(VERSIONS))
    b = draw(st.sampled_from(VERSIONS))
    lo, hi = min(a, b), max(a, b)
    if draw(st.integers(0, 3)) == 0:
        lo, hi = (3, 1), (3, 4)
    return [list(lo), list(hi)]


@st.composite
def one_side(draw, role):
    """JSON-able dict of HandshakeSettings attributes."""
    d = {}
    vr = draw(version_range())
    d["minVersion"], d["maxVersion"] = vr
    d["cipherNames"] = draw(subset(CIPHERS))
    d["macNames"] = draw(subset(MACS))
    d["keyExchangeNames"] = draw(subset(KX_ALL))
    curves = draw(subset(CURVES))
    d["eccCurves"] = curves
    d["dhGroups"] = draw(subset(DHGROUPS))
    groups13 = [c for c in curves if c in CURVES13] + d["dhGroups"]
    if role == "client":
        ks = draw(st.lists(st.sampled_from(groups13), max_size=2,
                           unique=True)) if groups13 else []
        # ffdhe key shares are slow to generate in pure python; keep but rare
        d["keyShares"] = ks
    else:
        d["keyShares"] = []
    d["rsaSigHashes"] = draw(subset(HASHES))
    d["ecdsaSigHashes"] = draw(subset(HASHES))
    d["dsaSigHashes"] = draw(subset(HASHES))
    d["rsaSchemes"] = draw(subset(["pss", "pkcs1"]))
    d["more_sig_schemes"] = draw(st.sampled_from(
        [["Ed25519", "Ed448"], ["Ed25519"], ["Ed448"], []]))
    d["minKeySize"], d["maxKeySize"] = draw(st.sampled_from(
        KEYSIZES + [KEYSIZES[0]] * 4))
    d["useEncryptThenMAC"] = draw(st.booleans())
    d["useExtendedMasterSecret"] = draw(st.sampled_from([True, True,
                                                         False]))
    d["requireExtendedMasterSecret"] = d["useExtendedMasterSecret"] and \
        draw(st.sampled_from([False, False, True]))
    d["record_size_limit"] = draw(st.sampled_from(
        [None, 64, 512, 2 ** 14, 2 ** 14 + 1, 2 ** 14 + 1]))
    d["defaultCurve"] = draw(st.sampled_from(["secp256r1", "secp384r1"]))
    return d


def relate(draw, c, s):
    """Make some dimensions of the two sides equal / nested so that most
    pairs are not trivially disjoint."""
    for key in ("cipherNames", "macNames", "keyExchangeNames", "eccCurves",
                "dhGroups", "rsaSigHashes", "ecdsaSigHashes",
                "dsaSigHashes", "rsaSchemes", "more_sig_schemes"):
        r = draw(st.sampled_from(["indep", "equal", "equal", "c_in_s",
                                  "s_in_c"]))
        if r == "equal":
            s[key] = list(c[key])
        elif r == "c_in_s":
            s[key] = list(s[key]) + [x for x in c[key] if x not in s[key]]
        elif r == "s_in_c":
            c[key] = list(c[key]) + [x for x in s[key] if x not in c[key]]
    r = draw(st.sampled_from(["indep", "equal", "overlap"]))
    if r == "equal":
        s["minVersion"], s["maxVersion"] = c["minVersion"], c["maxVersion"]
    elif r == "overlap":
        s["minVersion"] = min(s["minVersion"], c["maxVersion"])
        s["maxVersion"] = max(s["maxVersion"], c["minVersion"],
                              s["minVersion"])
    # keep key shares inside the (possibly changed) group lists
    g13 = [x for x in c["eccCurves"] if x in CURVES13] + c["dhGroups"]
    c["keyShares"] = [k for k in c["keyShares"] if k in g13]


@st.composite
def pair(draw, flavours=("cert", "cert", "cert", "srp", "srp_cert", "anon",
                         "psk")):
    c = draw(one_side("client"))
    s = draw(one_side("server"))
    relate(draw, c, s)
    flavour = draw(st.sampled_from(flavours))
    case = {"c": c, "s": s, "flavour": flavour}
    if flavour in ("cert", "srp_cert"):
        case["cred"] = draw(st.sampled_from(
            SERVER_CREDS + ["rsa", "rsa", "ecdsa"]))
        if flavour == "srp_cert":
            case["cred"] = draw(st.sampled_from(["rsa", "rsa1024",
                                                 "rsa3072"]))
    if flavour == "psk":
        # external PSK (TLS 1.3) next to a certificate the server can fall
        # back to; identities / secrets equal or not
        case["cred"] = draw(st.sampled_from(["rsa", "ecdsa"]))
        # (None: the documented two-element form, the hash is SHA-256)
        case["psk"] = {"hash": draw(st.sampled_from(["sha256", "sha384",
                                                     None])),
                       "c_hash": draw(st.sampled_from(["sha256", None,
                                                       "sha384"])),
                       "same_secret": draw(st.sampled_from([True, True,
                                                            False])),
                       "same_id": draw(st.sampled_from([True, True, False])),
                       "c_modes": draw(st.sampled_from(
                           [["psk_dhe_ke"], ["psk_ke"],
                            ["psk_ke", "psk_dhe_ke"],
                            ["psk_dhe_ke", "psk_ke"]])),
                       "s_modes": draw(st.sampled_from(
                           [["psk_dhe_ke"], ["psk_ke"],
                            ["psk_ke", "psk_dhe_ke"],
                            ["psk_dhe_ke", "psk_ke"]]))}
    if flavour == "cert":
        case["ccred"] = draw(st.sampled_from(CLIENT_CREDS))
        case["reqCert"] = draw(st.booleans())
    # a side's own credential must be usable under its own settings (a
    # caller precondition: do not hand over a key whose type you disabled)
    enable_own_cred(c, case.get("ccred"))
    enable_own_cred(s, case.get("cred"))
    case["c_alpn"] = draw(st.one_of(st.none(), st.lists(
        st.sampled_from(ALPNS), min_size=1, max_size=3, unique=True)))
    case["s_alpn"] = draw(st.one_of(st.none(), st.lists(
        st.sampled_from(ALPNS), min_size=1, max_size=3, unique=True)))
    case["c_npn"] = draw(st.one_of(st.none(), st.none(), st.lists(
        st.sampled_from(ALPNS), min_size=1, max_size=2, unique=True)))
    case["s_npn"] = draw(st.one_of(st.none(), st.none(), st.lists(
        st.sampled_from(ALPNS), min_size=1, max_size=2, unique=True)))
    # (absolute, mixed-case, single-label, IDNA and long names are all valid
    # host names for the library)
    case["sni"] = draw(st.sampled_from([None, None, "example.com",
                                        "a.b.example.org",
                                        "www.example.com.", "A.Example.COM",
                                        "localhost", "xn--bcher-kva.example",
                                        ".".join(["a" * 60] * 4)]))
    case["salt"] = draw(st.integers(0, 3))
    return case


def full_side(role, vmin=(3, 0), vmax=(3, 4)):
    """The widest policy of the lattice (every list complete)."""
    return {"minVersion": list(vmin), "maxVersion": list(vmax),
            "cipherNames": list(CIPHERS), "macNames": list(MACS),
            "keyExchangeNames": list(KX_ALL), "eccCurves": list(CURVES),
            "dhGroups": list(DHGROUPS), "keyShares": [],
            "rsaSigHashes": list(HASHES), "ecdsaSigHashes": list(HASHES),
            "dsaSigHashes": list(HASHES), "rsaSchemes": ["pss", "pkcs1"],
            "more_sig_schemes": ["Ed25519", "Ed448"],
            "minKeySize": 1023, "maxKeySize": 8193,
            "useEncryptThenMAC": True, "useExtendedMasterSecret": True,
            "requireExtendedMasterSecret": False, "record_size_limit": None,
            "defaultCurve": "secp256r1"}


def enable_own_cred(pol, cred):
    if not cred:
        return
    alg, _ = CRED_INFO[cred]
    if alg in ("Ed25519", "Ed448") and alg not in pol["more_sig_schemes"]:
        pol["more_sig_schemes"] = list(pol["more_sig_schemes"]) + [alg]


def to_settings(d):
    """dict -> HandshakeSettings (not validated)."""
    from .scenario import mk_settings
    kw = dict(d)
    kw["minVersion"] = tuple(kw["minVersion"])
    kw["maxVersion"] = tuple(kw["maxVersion"])
    return mk_settings(**kw)


def build_opts(case):
    """(client opts, server opts) for scenario.connect from a pair case."""
    from . import scenario as sc
    cs = to_settings(case["c"])
    ss = to_settings(case["s"])
    client = {"settings": cs}
    server = {"settings": ss}
    fl = case["flavour"]
    if fl == "cert":
        server["cred"] = case["cred"]
        if case.get("ccred"):
            client["cred"] = case["ccred"]
        server["reqCert"] = bool(case.get("reqCert"))
    elif fl == "srp":
        client["mode"] = "srp"
        server["verifierDB"] = sc.srp_db()
    elif fl == "srp_cert":
        client["mode"] = "srp"
        server["verifierDB"] = sc.srp_db()
        server["cred"] = case["cred"]
    elif fl == "anon":
        client["mode"] = "anon"
        server["anon"] = True
    elif fl == "psk":
        k = case["psk"]
        server["cred"] = case["cred"]
        ss.pskConfigs = [(bytearray(b"psk-id-1"), bytearray(b"\x07" * 32),
                          k["hash"])]
        if k["hash"] is None:
            ss.pskConfigs = [ss.pskConfigs[0][:2]]
        cs.psk_modes = list(k.get("c_modes", ["psk_dhe_ke", "psk_ke"]))
        ss.psk_modes = list(k.get("s_modes", ["psk_dhe_ke", "psk_ke"]))
        cs.pskConfigs = [(bytearray(b"psk-id-1" if k["same_id"]
                                    else b"psk-id-2"),
                          bytearray(b"\x07" * 32 if k["same_secret"]
                                    else b"\x08" * 32), k["c_hash"])]
        if k["c_hash"] is None:
            cs.pskConfigs = [cs.pskConfigs[0][:2]]
        if k.get("c_extra_first"):
            # a further PSK the server does not know, offered first (binders
            # of different hashes differ in length)
            cs.pskConfigs = [(bytearray(b"psk-other"), bytearray(b"\x09" * 32),
                              k["c_extra_first"])] + cs.pskConfigs
        if k.get("s_extra_first"):
            ss.pskConfigs = [(bytearray(b"psk-srv-only"),
                              bytearray(b"\x0a" * 32),
                              k["s_extra_first"])] + ss.pskConfigs
        if k.get("no_cert"):
            del server["cred"]
    if case.get("c_alpn") and fl == "cert":
        client["alpn"] = [bytearray(x.encode()) for x in case["c_alpn"]]
    if case.get("s_alpn"):
        server["alpn"] = [bytearray(x.encode()) for x in case["s_alpn"]]
    if case.get("c_npn") and fl == "cert":
        client["nextProtos"] = [bytearray(x.encode()) for x in case["c_npn"]]
    if case.get("s_npn"):
        server["nextProtos"] = [bytearray(x.encode()) for x in case["s_npn"]]
    if case.get("sni"):
        client["serverName"] = case["sni"]
    return client, server
