"""Shared machinery for the tlslite-ng property checks (see DESIGN.md §2)."""
import os
import sys

ROOT = os.path.dirname(os.path.dirname(os.path.abspath(__file__)))
REPO = os.environ.get("VERIF_REPO", "/repo")

if REPO not in sys.path:
    sys.path.insert(0, REPO)
