"""Independent interpretation of the bytes seen on the wire: handshake
message reassembly, hello parsing and a reference receiver that follows a
whole connection (RefView)."""
import struct

from .wire import records
from .iana import SUITES
from .refs import record as rr
from .refs import kdf

HS_NAMES = {0: "hello_request", 1: "client_hello", 2: "server_hello",
            4: "new_session_ticket", 5: "end_of_early_data",
            8: "encrypted_extensions", 11: "certificate",
            12: "server_key_exchange", 13: "certificate_request",
            14: "server_hello_done", 15: "certificate_verify",
            16: "client_key_exchange", 20: "finished",
            22: "certificate_status", 24: "key_update",
            25: "compressed_certificate", 67: "next_protocol",
            254: "message_hash"}

HRR_RANDOM = bytes.fromhex("CF21AD74E59A6111BE1D8C021E65B891"
                           "C2A211167ABB8C5E079E09E2C8A8339C")


def split_hs(data):
    """Split a handshake byte stream into (type, body) list + leftover."""
    out = []
    i = 0
    while len(data) - i >= 4:
        t = data[i]
        ln = int.from_bytes(data[i + 1:i + 4], "big")
        if len(data) - i - 4 < ln:
            break
        out.append((t, bytes(data[i + 4:i + 4 + ln])))
        i += 4 + ln
    return out, bytes(data[i:])


def plaintext_flight(wire):
    """Handshake messages sent in the clear at the start of a direction
    (until the first ChangeCipherSpec or non-handshake record).
    Returns (messages, index of first record not consumed, records)."""
    recs, _ = records(wire)
    buf = b""
    msgs = []
    i = 0
    for i, r in enumerate(recs):
        if r["type"] != 22:
            break
        buf += r["body"]
        got, buf = split_hs(buf)
        msgs += got
        if any(t == 2 for t, _ in got):
            # in TLS 1.3 everything after ServerHello is encrypted; the
            # caller decides from the negotiated version
            pass
    else:
        i = len(recs)
    return msgs, i, recs


def parse_hello(body):
    """Common prefix of ClientHello / ServerHello: version, random."""
    return (body[0], body[1]), bytes(body[2:34])


def parse_server_hello(body):
    ver = (body[0], body[1])
    rnd = bytes(body[2:34])
    sl = body[34]
    sid = bytes(body[35:35 + sl])
    p = 35 + sl
    suite = (body[p] << 8) | body[p + 1]
    comp = body[p + 2]
    exts = {}
    p += 3
    if p + 2 <= len(body):
        el = (body[p] << 8) | body[p + 1]
        p += 2
        end = p + el
        while p + 4 <= end:
            t = (body[p] << 8) | body[p + 1]
            ln = (body[p + 2] << 8) | body[p + 3]
            exts[t] = bytes(body[p + 4:p + 4 + ln])
            p += 4 + ln
    if 43 in exts and len(exts[43]) == 2:
        ver = (exts[43][0], exts[43][1])
    return {"version": ver, "random": rnd, "session_id": sid,
            "suite": suite, "compression": comp, "exts": exts,
            "hrr": rnd == HRR_RANDOM}


def parse_client_hello(body):
    ver = (body[0], body[1])
    rnd = bytes(body[2:34])
    sl = body[34]
    sid = bytes(body[35:35 + sl])
    p = 35 + sl
    cl = (body[p] << 8) | body[p + 1]
    suites = [(body[p + 2 + i] << 8) | body[p + 3 + i]
              for i in range(0, cl, 2)]
    p += 2 + cl
    cm = body[p]
    p += 1 + cm
    exts = {}
    order = []
    if p + 2 <= len(body):
        el = (body[p] << 8) | body[p + 1]
        p += 2
        end = p + el
        while p + 4 <= end:
            t = (body[p] << 8) | body[p + 1]
            ln = (body[p + 2] << 8) | body[p + 3]
            exts[t] = bytes(body[p + 4:p + 4 + ln])
            order.append(t)
            p += 4 + ln
    return {"version": ver, "random": rnd, "session_id": sid,
            "suites": suites, "exts": exts, "ext_order": order}


class RefView(object):
    """Follows both directions of a finished loopback connection with the
    reference receiver.

    For <= TLS 1.2 the keys come from (master secret, randoms read off the
    wire); for TLS 1.3 from the application traffic secrets, the switch
    point being located by trial decryption.  ``plain[side]`` is the list of
    (content type, plaintext, record dict) the reference recovered from what
    ``side`` sent under the final epoch's keys (for <= 1.2 this includes the
    Finished message).
    """

    def __init__(self, pair, suite=None, version=None):
        self.pair = pair
        conn = pair.c
        self.version = tuple(version or conn.version)
        sess = conn.session
        self.suite = suite or SUITES[sess.cipherSuite]
        self.wire = {"c": pair.link.wire("c"), "s": pair.link.wire("s")}
        self.recs = {}
        self.pos = {}
        self.state = {}
        self.plain = {"c": [], "s": []}
        self.errors = []
        self.secret = {}
        cmsgs, ci, crecs = plaintext_flight(self.wire["c"])
        smsgs, si, srecs = plaintext_flight(self.wire["s"])
        self.recs = {"c": crecs, "s": srecs}
        self.c_msgs, self.s_msgs = cmsgs, smsgs
        self.client_hello = parse_client_hello(cmsgs[0][1])
        sh = [b for t, b in smsgs if t == 2]
        self.server_hello = parse_server_hello(sh[-1])
        if self.version == (3, 4):
            self.secret = {"c": bytes(sess.cl_app_secret),
                           "s": bytes(sess.sr_app_secret)}
            # the session keeps the *current* secrets; after key updates
            # the caller passes the initial ones through set_initial_secrets
            for side in "cs":
                self.state[side] = rr.state_from_secret13(
                    self.suite, self.secret[side])
                self.pos[side] = None
        else:
            cr = self.client_hello["random"]
            sr = self.server_hello["random"]
            etm = bool(conn.encryptThenMAC) if hasattr(
                conn, "encryptThenMAC") else bool(sess.encryptThenMAC)
            cst, sst = rr.states_from_master(
                self.version, self.suite, bytes(sess.masterSecret), cr, sr,
                etm)
            self.state = {"c": cst, "s": sst}
            for side in "cs":
                p = None
                for i, r in enumerate(self.recs[side]):
                    if r["type"] == 20:
                        p = i + 1
                        break
                self.pos[side] = p

    def set_initial_secrets(self, cl, sr):
        self.secret = {"c": bytes(cl), "s": bytes(sr)}
        for side in "cs":
            self.state[side] = rr.state_from_secret13(self.suite,
                                                      self.secret[side])
            self.pos[side] = None

    def _locate13(self, side):
        st = self.state[side]
        for i, r in enumerate(self.recs[side]):
            if r["type"] != 23:
                continue
            try:
                rr.unprotect(st.clone(), r["hdr"] + r["body"])
            except rr.RefReject:
                continue
            return i
        return len(self.recs[side])

    def follow(self, side, limit=2 ** 14):
        """Decrypt everything ``side`` sent after the key switch."""
        recs, _ = records(self.pair.link.wire(side))
        self.recs[side] = recs
        if self.pos[side] is None:
            if self.version == (3, 4):
                self.pos[side] = self._locate13(side)
            else:
                self.errors.append("no ChangeCipherSpec from " + side)
                return self.plain[side]
        st = self.state[side]
        hsbuf = b""
        for r in recs[self.pos[side]:]:
            self.pos[side] += 1
            if self.version == (3, 4) and r["type"] == 20:
                continue        # compatibility CCS
            try:
                ct, pt = rr.unprotect(st, r["hdr"] + r["body"], limit)
            except rr.RefReject as e:
                self.errors.append("reference receiver rejects record %d "
                                   "from %s: %s" % (self.pos[side] - 1, side,
                                                    e))
                break
            self.plain[side].append((ct, pt, r))
            if self.version == (3, 4) and ct == 22:
                hsbuf += pt
                msgs, hsbuf = split_hs(hsbuf)
                for t, b in msgs:
                    if t == 24:     # KeyUpdate: sender moves to next keys
                        self.secret[side] = kdf.tls13_next_secret(
                            self.suite.prf, self.secret[side])
                        st = self.state[side] = rr.state_from_secret13(
                            self.suite, self.secret[side])
        return self.plain[side]

    def app_data(self, side):
        return b"".join(pt for ct, pt, r in self.plain[side] if ct == 23)


# ---------------------------------------------------------------------------
# encoders (independent of tlslite.messages) used by MITM rewrites
# ---------------------------------------------------------------------------
def build_exts(exts):
    """exts: list of (type, bytes) -> extensions block incl. 2-byte length,
    or b'' when exts is None."""
    if exts is None:
        return b""
    body = b"".join(struct.pack(">HH", t, len(b)) + bytes(b)
                    for t, b in exts)
    return struct.pack(">H", len(body)) + body


def build_client_hello(version, random, session_id, suites, exts,
                       compression=b"\x00"):
    body = bytes(version) + bytes(random) + bytes([len(session_id)]) + \
        bytes(session_id) + struct.pack(">H", 2 * len(suites)) + \
        b"".join(struct.pack(">H", s) for s in suites) + \
        bytes([len(compression)]) + bytes(compression) + build_exts(exts)
    return b"\x01" + len(body).to_bytes(3, "big") + body


def build_server_hello(version, random, session_id, suite, exts,
                       compression=0):
    body = bytes(version) + bytes(random) + bytes([len(session_id)]) + \
        bytes(session_id) + struct.pack(">H", suite) + bytes([compression]) \
        + build_exts(exts)
    return b"\x02" + len(body).to_bytes(3, "big") + body


def ext_list(parsed):
    """(type, bytes) list in wire order from parse_client_hello output."""
    if "ext_order" in parsed:
        return [(t, parsed["exts"][t]) for t in parsed["ext_order"]]
    return list(parsed["exts"].items())


def record(ctype, version, payload):
    return bytes([ctype, version[0], version[1]]) + \
        struct.pack(">H", len(payload)) + bytes(payload)


def parse_server_hello_exts_ordered(body):
    sl = body[34]
    p = 35 + sl + 3
    out = []
    if p + 2 <= len(body):
        el = (body[p] << 8) | body[p + 1]
        p += 2
        end = p + el
        while p + 4 <= end:
            t = (body[p] << 8) | body[p + 1]
            ln = (body[p + 2] << 8) | body[p + 3]
            out.append((t, bytes(body[p + 4:p + 4 + ln])))
            p += 4 + ln
        return out
    return None
