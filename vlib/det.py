"""E3: determinism shims.

Every random byte tlslite-ng (and python-ecdsa) uses comes from ``os.urandom``
and every clock read is ``time.time()`` through a module attribute ``time``.
Both are replaced from outside; nothing in /repo is modified.
"""
import hashlib
import os
import struct
import threading
import types

_real_urandom = os.urandom


class _Stream(object):
    __slots__ = ("key", "ctr", "buf")

    def __init__(self, key):
        self.key = key
        self.ctr = 0
        self.buf = b""

    def read(self, n):
        while len(self.buf) < n:
            self.buf += hashlib.sha256(
                self.key + struct.pack(">Q", self.ctr)).digest()
            self.ctr += 1
        out, self.buf = self.buf[:n], self.buf[n:]
        return out


class Det(object):
    """Per-endpoint DRBGs and a controllable clock."""

    def __init__(self):
        self._tl = threading.local()
        self.seed = b"unseeded"
        self.streams = {}
        self.current = "main"
        self.now = 1700000000.0
        self.offsets = {}
        self.installed = False

    # ``current`` names the endpoint random/clock reads are attributed to;
    # it is per thread so the blocking-API runs (two threads) stay
    # deterministic as well
    @property
    def current(self):
        return getattr(self._tl, "cur", "main")

    @current.setter
    def current(self, value):
        self._tl.cur = value

    # -- randomness -------------------------------------------------------
    def reseed(self, *parts):
        self.seed = hashlib.sha256(repr(parts).encode()).digest()
        self.streams = {}
        self.current = "main"
        self.now = 1700000000.0
        self.offsets = {}

    def urandom(self, n):
        st = self.streams.get(self.current)
        if st is None:
            st = self.streams[self.current] = _Stream(
                hashlib.sha256(self.seed + repr(self.current).encode())
                .digest())
        return st.read(n)

    # -- clock ------------------------------------------------------------
    def time(self):
        return self.now + self.offsets.get(self.current, 0.0)

    def advance(self, dt, who=None):
        if who is None:
            self.now += dt
        else:
            self.offsets[who] = self.offsets.get(who, 0.0) + dt

    # -- installation -----------------------------------------------------
    def install(self):
        if self.installed:
            return
        import time as _time
        import tlslite.tlsconnection
        import tlslite.tlsrecordlayer
        import tlslite.session
        import tlslite.sessioncache
        os.urandom = self.urandom
        shim = types.SimpleNamespace()
        for k in dir(_time):
            if not k.startswith("__"):
                setattr(shim, k, getattr(_time, k))
        shim.time = self.time
        for mod in (tlslite.tlsconnection, tlslite.tlsrecordlayer,
                    tlslite.session, tlslite.sessioncache):
            if hasattr(mod, "time"):
                mod.time = shim
        self.installed = True


DET = Det()


class as_endpoint(object):
    """Context manager: attribute randomness/clock reads to ``name``."""

    def __init__(self, name):
        self.name = name

    def __enter__(self):
        self.prev = DET.current
        DET.current = self.name

    def __exit__(self, *a):
        DET.current = self.prev
