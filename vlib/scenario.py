"""E6: credentials, settings construction and loopback connection helper."""
import os

from . import ROOT
from .det import DET
from .wire import Link
from .driver import drive

from tlslite.api import (TLSConnection, HandshakeSettings, X509, X509CertChain,
                         parsePEMKey, VerifierDB, SessionCache)

KEYDIR = os.path.join(ROOT, "assets", "keys")

CREDS = {
    # name: (cert file, key file)
    "rsa": ("serverX509Cert.pem", "serverX509Key.pem"),
    "rsa1024": ("rsa1024Cert.pem", "rsa1024Key.pem"),
    "rsa3072": ("rsa3072Cert.pem", "rsa3072Key.pem"),
    # modulus lengths that are not a multiple of 8 bits
    "rsa1031": ("rsa1031Cert.pem", "rsa1031Key.pem"),
    "rsa2047": ("rsa2047Cert.pem", "rsa2047Key.pem"),
    "rsapss": ("serverRSAPSSCert.pem", "serverRSAPSSKey.pem"),
    "rsapss_sig": ("serverRSAPSSSigCert.pem", "serverRSAPSSSigKey.pem"),
    "ecdsa": ("serverECCert.pem", "serverECKey.pem"),
    "p384": ("serverP384ECCert.pem", "serverP384ECKey.pem"),
    "p521": ("serverP521ECCert.pem", "serverP521ECKey.pem"),
    "bp256": ("serverBrainpoolP256r1ECCert.pem",
              "serverBrainpoolP256r1ECKey.pem"),
    "bp384": ("serverBrainpoolP384r1ECCert.pem",
              "serverBrainpoolP384r1ECKey.pem"),
    "bp512": ("serverBrainpoolP512r1ECCert.pem",
              "serverBrainpoolP512r1ECKey.pem"),
    "ed25519": ("serverEd25519Cert.pem", "serverEd25519Key.pem"),
    "ed448": ("serverEd448Cert.pem", "serverEd448Key.pem"),
    "dsa": ("serverDSACert.pem", "serverDSAKey.pem"),
    "c_rsa": ("clientX509Cert.pem", "clientX509Key.pem"),
    "c_ecdsa": ("clientECCert.pem", "clientECKey.pem"),
    "c_ed25519": ("clientEd25519Cert.pem", "clientEd25519Key.pem"),
    "c_dsa": ("clientDSACert.pem", "clientDSAKey.pem"),
    "rsa_b": ("serverRSANonCACert.pem", "serverRSANonCAKey.pem"),
    "ecdsa_b": ("serverECDSANonCACert.pem", "serverECDSANonCAKey.pem"),
}

_cache = {}


def _read(fn):
    with open(os.path.join(KEYDIR, fn)) as f:
        return f.read()


def cred(name):
    """(X509CertChain, private key) for an asset name."""
    if name not in _cache:
        cf, kf = CREDS[name]
        x = X509()
        x.parse(_read(cf))
        chain = X509CertChain([x])
        key = parsePEMKey(_read(kf), private=True,
                          implementations=["python"])
        if hasattr(key, "blinder"):
            # RSA blinding values are created from os.urandom on first use
            # and kept in the key object: create them now, outside any
            # endpoint's random stream, so later runs are reproducible
            prev = DET.current
            DET.current = "keywarm:" + name
            try:
                key._rawPrivateKeyOp(2)
            finally:
                DET.current = prev
        _cache[name] = (chain, key)
    return _cache[name]


def cert_pem(name):
    return os.path.join(KEYDIR, CREDS[name][0])


def key_pem(name):
    return os.path.join(KEYDIR, CREDS[name][1])


def mk_settings(**kw):
    s = HandshakeSettings()
    for k, v in kw.items():
        if not hasattr(s, k):
            raise AttributeError("no such setting: " + k)
        if isinstance(v, list):
            v = list(v)
        setattr(s, k, v)
    return s


VER = {"ssl3": (3, 0), "tls10": (3, 1), "tls11": (3, 2), "tls12": (3, 3),
       "tls13": (3, 4)}
VERNAME = dict((v, k) for k, v in VER.items())

_srp_db = {}


def srp_db(users=(("alice", "wonderland"),), bits=1024):
    """In-memory verifier DB (created deterministically per process)."""
    key = (tuple(users), bits)
    if key not in _srp_db:
        prev = DET.current
        DET.current = "srpdb"
        try:
            db = VerifierDB()
            db.create()
            for u, p in users:
                db[u.encode()] = VerifierDB.makeVerifier(u, p, bits)
        finally:
            DET.current = prev
        _srp_db[key] = db
    return _srp_db[key]


class Pair(object):
    """Result of a loopback handshake attempt."""

    def __init__(self, link, cc, sc, co, so, verdict):
        self.link = link
        self.c = cc
        self.s = sc
        self.co = co
        self.so = so
        self.verdict = verdict

    @property
    def both_ok(self):
        return self.co.ok and self.so.ok

    def conn(self, side):
        return self.c if side == "c" else self.s


def client_gen(cc, c):
    """Build the client handshake generator from a dict of options."""
    c = dict(c)
    mode = c.pop("mode", "cert")
    st = c.pop("settings", None)
    if mode == "cert":
        chain = key = None
        if c.get("cred"):
            chain, key = cred(c["cred"])
        if c.get("certChain") is not None:
            chain, key = c["certChain"], c["privateKey"]
        return cc.handshakeClientCert(
            chain, key, session=c.get("session"), settings=st,
            checker=c.get("checker"), nextProtos=c.get("nextProtos"),
            reqTack=False, serverName=c.get("serverName"),
            alpn=c.get("alpn"), async_=True)
    if mode == "srp":
        return cc.handshakeClientSRP(
            c.get("username", "alice"), c.get("password", "wonderland"),
            session=c.get("session"), settings=st, checker=c.get("checker"),
            reqTack=False, serverName=c.get("serverName"), async_=True)
    if mode == "anon":
        return cc.handshakeClientAnonymous(
            session=c.get("session"), settings=st, checker=c.get("checker"),
            serverName=c.get("serverName"), async_=True)
    raise ValueError(mode)


def server_gen(sc, s):
    s = dict(s)
    chain = key = None
    if s.get("cred"):
        chain, key = cred(s["cred"])
    if s.get("certChain") is not None:
        chain, key = s["certChain"], s["privateKey"]
    return sc.handshakeServerAsync(
        verifierDB=s.get("verifierDB"), certChain=chain, privateKey=key,
        reqCert=s.get("reqCert", False), sessionCache=s.get("sessionCache"),
        settings=s.get("settings"), checker=s.get("checker"),
        reqCAs=s.get("reqCAs"), nextProtos=s.get("nextProtos"),
        anon=s.get("anon", False), alpn=s.get("alpn"), sni=s.get("sni"),
        **({"dc_key": s["dc_key"], "del_cred": s["del_cred"]}
           if s.get("del_cred") is not None else {}))


def connect(client=None, server=None, link=None, mitm=None, byte_mitm=None,
            scripts=None, order=None, max_steps=200000, prepare=None):
    """Run a loopback handshake between two real TLSConnection objects.

    client / server: option dicts (see client_gen / server_gen).
    prepare(cc, sc): optional hook to wrap the endpoints (deviant peer).
    Returns a Pair.
    """
    client = client or {}
    server = server or {"cred": "rsa"}
    if link is None:
        link = Link(mitm=mitm, byte_mitm=byte_mitm)
    scripts = scripts or {}
    cs = link.sock("c", scripts.get("c"))
    ss = link.sock("s", scripts.get("s"))
    cc = TLSConnection(cs)
    sc = TLSConnection(ss)
    if prepare is not None:
        prepare(cc, sc)
    tasks = {"c": client_gen(cc, client), "s": server_gen(sc, server)}
    outs, verdict = drive(tasks, link, order=order, max_steps=max_steps)
    p = Pair(link, cc, sc, outs["c"], outs["s"], verdict)
    p.csock = cs
    p.ssock = ss
    return p


def do_write(pair, side, data, order=None):
    conn = pair.conn(side)
    outs, verdict = drive({side: conn.writeAsync(data)}, pair.link,
                          on_stall="leave")
    return outs[side]


def do_read(pair, side, max=None, min=1):
    """Read; returns Outcome (state 'blocked' if not enough data)."""
    conn = pair.conn(side)
    gen = conn.readAsync(max, min)
    outs, verdict = drive({side: gen}, pair.link, on_stall="leave")
    o = outs[side]
    if o.state == "blocked":
        # blocked at a point where nothing new can arrive; safe to drop the
        # generator only when no partial record was consumed -- callers that
        # need to resume keep their own generator instead of using do_read
        gen.close()
    return o


def do_close(pair, side):
    conn = pair.conn(side)
    outs, verdict = drive({side: conn.closeAsync()}, pair.link,
                          on_stall="leave")
    return outs[side]


def read_all(pair, side, limit=1 << 22):
    """Drain everything currently readable on ``side``. Returns (bytes,
    final Outcome or None)."""
    got = bytearray()
    while len(got) < limit:
        o = do_read(pair, side, max=65536, min=1)
        if o.state == "done" and o.value:
            got += o.value
            continue
        return bytes(got), o
    return bytes(got), None


# ---------------------------------------------------------------------------
# pinning both sides to exactly one (version, suite) through public settings
# ---------------------------------------------------------------------------
def pin(suite, version, etm=True, cred_name=None, c_extra=None, s_extra=None):
    """suite: vlib.iana.Suite. Returns (client opts, server opts)."""
    version = tuple(version)
    kw = dict(minVersion=version, maxVersion=version,
              cipherNames=[suite.cipher_setting],
              macNames=[suite.mac_setting], useEncryptThenMAC=etm)
    if not suite.tls13:
        kw["keyExchangeNames"] = [suite.kx_setting]
    ckw = dict(kw)
    skw = dict(kw)
    ckw.update(c_extra or {})
    skw.update(s_extra or {})
    client = {"settings": mk_settings(**ckw)}
    server = {"settings": mk_settings(**skw)}
    auth = suite.auth
    if suite.tls13:
        server["cred"] = cred_name or "rsa"
    elif suite.kx == "srp":
        client["mode"] = "srp"
        server["verifierDB"] = srp_db()
        if auth == "rsa":
            server["cred"] = cred_name or "rsa"
    elif auth is None:
        client["mode"] = "anon"
        server["anon"] = True
    else:
        server["cred"] = cred_name or {"rsa": "rsa", "ecdsa": "ecdsa",
                                       "dsa": "dsa"}[auth]
    return client, server
