"""IANA TLS cipher-suite registry (typed in, independent of constants.py)
and the meaning of each name.  Cross-checked at self-test time against
``openssl ciphers -V -stdname`` and (names only) CipherSuite.ietfNames."""
import subprocess

REGISTRY = {
    0x0001: "TLS_RSA_WITH_NULL_MD5",
    0x0002: "TLS_RSA_WITH_NULL_SHA",
    0x0004: "TLS_RSA_WITH_RC4_128_MD5",
    0x0005: "TLS_RSA_WITH_RC4_128_SHA",
    0x000A: "TLS_RSA_WITH_3DES_EDE_CBC_SHA",
    0x0013: "TLS_DHE_DSS_WITH_3DES_EDE_CBC_SHA",
    0x0016: "TLS_DHE_RSA_WITH_3DES_EDE_CBC_SHA",
    0x0018: "TLS_DH_anon_WITH_RC4_128_MD5",
    0x001B: "TLS_DH_anon_WITH_3DES_EDE_CBC_SHA",
    0x002F: "TLS_RSA_WITH_AES_128_CBC_SHA",
    0x0032: "TLS_DHE_DSS_WITH_AES_128_CBC_SHA",
    0x0033: "TLS_DHE_RSA_WITH_AES_128_CBC_SHA",
    0x0034: "TLS_DH_anon_WITH_AES_128_CBC_SHA",
    0x0035: "TLS_RSA_WITH_AES_256_CBC_SHA",
    0x0038: "TLS_DHE_DSS_WITH_AES_256_CBC_SHA",
    0x0039: "TLS_DHE_RSA_WITH_AES_256_CBC_SHA",
    0x003A: "TLS_DH_anon_WITH_AES_256_CBC_SHA",
    0x003B: "TLS_RSA_WITH_NULL_SHA256",
    0x003C: "TLS_RSA_WITH_AES_128_CBC_SHA256",
    0x003D: "TLS_RSA_WITH_AES_256_CBC_SHA256",
    0x0040: "TLS_DHE_DSS_WITH_AES_128_CBC_SHA256",
    0x0067: "TLS_DHE_RSA_WITH_AES_128_CBC_SHA256",
    0x006A: "TLS_DHE_DSS_WITH_AES_256_CBC_SHA256",
    0x006B: "TLS_DHE_RSA_WITH_AES_256_CBC_SHA256",
    0x006C: "TLS_DH_anon_WITH_AES_128_CBC_SHA256",
    0x006D: "TLS_DH_anon_WITH_AES_256_CBC_SHA256",
    0x009C: "TLS_RSA_WITH_AES_128_GCM_SHA256",
    0x009D: "TLS_RSA_WITH_AES_256_GCM_SHA384",
    0x009E: "TLS_DHE_RSA_WITH_AES_128_GCM_SHA256",
    0x009F: "TLS_DHE_RSA_WITH_AES_256_GCM_SHA384",
    0x00A2: "TLS_DHE_DSS_WITH_AES_128_GCM_SHA256",
    0x00A3: "TLS_DHE_DSS_WITH_AES_256_GCM_SHA384",
    0x00A6: "TLS_DH_anon_WITH_AES_128_GCM_SHA256",
    0x00A7: "TLS_DH_anon_WITH_AES_256_GCM_SHA384",
    0x1301: "TLS_AES_128_GCM_SHA256",
    0x1302: "TLS_AES_256_GCM_SHA384",
    0x1303: "TLS_CHACHA20_POLY1305_SHA256",
    0x1304: "TLS_AES_128_CCM_SHA256",
    0x1305: "TLS_AES_128_CCM_8_SHA256",
    0xC006: "TLS_ECDHE_ECDSA_WITH_NULL_SHA",
    0xC007: "TLS_ECDHE_ECDSA_WITH_RC4_128_SHA",
    0xC008: "TLS_ECDHE_ECDSA_WITH_3DES_EDE_CBC_SHA",
    0xC009: "TLS_ECDHE_ECDSA_WITH_AES_128_CBC_SHA",
    0xC00A: "TLS_ECDHE_ECDSA_WITH_AES_256_CBC_SHA",
    0xC010: "TLS_ECDHE_RSA_WITH_NULL_SHA",
    0xC011: "TLS_ECDHE_RSA_WITH_RC4_128_SHA",
    0xC012: "TLS_ECDHE_RSA_WITH_3DES_EDE_CBC_SHA",
    0xC013: "TLS_ECDHE_RSA_WITH_AES_128_CBC_SHA",
    0xC014: "TLS_ECDHE_RSA_WITH_AES_256_CBC_SHA",
    0xC015: "TLS_ECDH_anon_WITH_NULL_SHA",
    0xC016: "TLS_ECDH_anon_WITH_RC4_128_SHA",
    0xC017: "TLS_ECDH_anon_WITH_3DES_EDE_CBC_SHA",
    0xC018: "TLS_ECDH_anon_WITH_AES_128_CBC_SHA",
    0xC019: "TLS_ECDH_anon_WITH_AES_256_CBC_SHA",
    0xC01A: "TLS_SRP_SHA_WITH_3DES_EDE_CBC_SHA",
    0xC01B: "TLS_SRP_SHA_RSA_WITH_3DES_EDE_CBC_SHA",
    0xC01C: "TLS_SRP_SHA_DSS_WITH_3DES_EDE_CBC_SHA",
    0xC01D: "TLS_SRP_SHA_WITH_AES_128_CBC_SHA",
    0xC01E: "TLS_SRP_SHA_RSA_WITH_AES_128_CBC_SHA",
    0xC01F: "TLS_SRP_SHA_DSS_WITH_AES_128_CBC_SHA",
    0xC020: "TLS_SRP_SHA_WITH_AES_256_CBC_SHA",
    0xC021: "TLS_SRP_SHA_RSA_WITH_AES_256_CBC_SHA",
    0xC022: "TLS_SRP_SHA_DSS_WITH_AES_256_CBC_SHA",
    0xC023: "TLS_ECDHE_ECDSA_WITH_AES_128_CBC_SHA256",
    0xC024: "TLS_ECDHE_ECDSA_WITH_AES_256_CBC_SHA384",
    0xC027: "TLS_ECDHE_RSA_WITH_AES_128_CBC_SHA256",
    0xC028: "TLS_ECDHE_RSA_WITH_AES_256_CBC_SHA384",
    0xC02B: "TLS_ECDHE_ECDSA_WITH_AES_128_GCM_SHA256",
    0xC02C: "TLS_ECDHE_ECDSA_WITH_AES_256_GCM_SHA384",
    0xC02F: "TLS_ECDHE_RSA_WITH_AES_128_GCM_SHA256",
    0xC030: "TLS_ECDHE_RSA_WITH_AES_256_GCM_SHA384",
    0xC09C: "TLS_RSA_WITH_AES_128_CCM",
    0xC09D: "TLS_RSA_WITH_AES_256_CCM",
    0xC09E: "TLS_DHE_RSA_WITH_AES_128_CCM",
    0xC09F: "TLS_DHE_RSA_WITH_AES_256_CCM",
    0xC0A0: "TLS_RSA_WITH_AES_128_CCM_8",
    0xC0A1: "TLS_RSA_WITH_AES_256_CCM_8",
    0xC0A2: "TLS_DHE_RSA_WITH_AES_128_CCM_8",
    0xC0A3: "TLS_DHE_RSA_WITH_AES_256_CCM_8",
    0xC0AC: "TLS_ECDHE_ECDSA_WITH_AES_128_CCM",
    0xC0AD: "TLS_ECDHE_ECDSA_WITH_AES_256_CCM",
    0xC0AE: "TLS_ECDHE_ECDSA_WITH_AES_128_CCM_8",
    0xC0AF: "TLS_ECDHE_ECDSA_WITH_AES_256_CCM_8",
    0xCCA8: "TLS_ECDHE_RSA_WITH_CHACHA20_POLY1305_SHA256",
    0xCCA9: "TLS_ECDHE_ECDSA_WITH_CHACHA20_POLY1305_SHA256",
    0xCCAA: "TLS_DHE_RSA_WITH_CHACHA20_POLY1305_SHA256",
}

# Not registered with IANA: pre-standard code points of
# draft-agl-tls-chacha20poly1305-00 (different AEAD construction).
DRAFT = {
    0xCCA1: "ECDHE_RSA/chacha20-poly1305_draft00",
    0xCCA2: "ECDHE_ECDSA/chacha20-poly1305_draft00",
    0xCCA3: "DHE_RSA/chacha20-poly1305_draft00",
}

ENC = {
    # name part: (cipher, key bytes, kind, block/iv info, settings name)
    "NULL": ("null", 0, "stream", 0, "null"),
    "RC4_128": ("rc4", 16, "stream", 0, "rc4"),
    "3DES_EDE_CBC": ("3des", 24, "cbc", 8, "3des"),
    "AES_128_CBC": ("aes", 16, "cbc", 16, "aes128"),
    "AES_256_CBC": ("aes", 32, "cbc", 16, "aes256"),
    "AES_128_GCM": ("aesgcm", 16, "aead", 16, "aes128gcm"),
    "AES_256_GCM": ("aesgcm", 32, "aead", 16, "aes256gcm"),
    "AES_128_CCM": ("aesccm", 16, "aead", 16, "aes128ccm"),
    "AES_256_CCM": ("aesccm", 32, "aead", 16, "aes256ccm"),
    "AES_128_CCM_8": ("aesccm", 16, "aead", 8, "aes128ccm_8"),
    "AES_256_CCM_8": ("aesccm", 32, "aead", 8, "aes256ccm_8"),
    "CHACHA20_POLY1305": ("chacha20poly1305", 32, "aead", 16,
                          "chacha20-poly1305"),
}
MACLEN = {"MD5": 16, "SHA": 20, "SHA256": 32, "SHA384": 48}
KX = {
    # name part: (key exchange, server auth key type, settings name)
    "RSA": ("rsa", "rsa", "rsa"),
    "DHE_RSA": ("dhe", "rsa", "dhe_rsa"),
    "DHE_DSS": ("dhe", "dsa", "dhe_dsa"),
    "DH_anon": ("dhe", None, "dh_anon"),
    "ECDHE_RSA": ("ecdhe", "rsa", "ecdhe_rsa"),
    "ECDHE_ECDSA": ("ecdhe", "ecdsa", "ecdhe_ecdsa"),
    "ECDH_anon": ("ecdhe", None, "ecdh_anon"),
    "SRP_SHA": ("srp", None, "srp_sha"),
    "SRP_SHA_RSA": ("srp", "rsa", "srp_sha_rsa"),
    "SRP_SHA_DSS": ("srp", "dsa", None),
}


class Suite(object):
    """Meaning of one registered suite."""

    def __init__(self, id_, name):
        self.id = id_
        self.name = name
        self.draft = False
        if "_WITH_" in name:
            kx, rest = name[4:].split("_WITH_")
            self.tls13 = False
        else:
            kx, rest = None, name[4:]
            self.tls13 = True
        parts = rest.split("_")
        # longest ENC prefix
        enc = None
        for k in range(len(parts), 0, -1):
            cand = "_".join(parts[:k])
            if cand in ENC:
                enc = cand
                tail = parts[k:]
                break
        if enc is None:
            raise ValueError(name)
        (self.cipher, self.key_len, self.kind, aux, self.cipher_setting) = \
            ENC[enc]
        self.enc_name = enc
        hash_part = tail[0] if tail else None
        if self.kind == "aead":
            self.mac = None
            self.mac_len = 0
            self.mac_setting = "aead"
            self.tag_len = aux
            self.block = 0
            self.prf = "sha384" if hash_part == "SHA384" else "sha256"
            # TLS 1.2 AEAD nonce layout
            if self.cipher == "chacha20poly1305":
                self.fixed_iv, self.explicit_nonce = 12, 0
            else:
                self.fixed_iv, self.explicit_nonce = 4, 8
        else:
            self.mac = {"MD5": "md5", "SHA": "sha1", "SHA256": "sha256",
                        "SHA384": "sha384"}[hash_part]
            self.mac_len = MACLEN[hash_part]
            self.mac_setting = {"MD5": "md5", "SHA": "sha",
                                "SHA256": "sha256",
                                "SHA384": "sha384"}[hash_part]
            self.tag_len = 0
            self.block = aux
            self.prf = "sha384" if hash_part == "SHA384" else "sha256"
            self.fixed_iv = aux if self.kind == "cbc" else 0
            self.explicit_nonce = 0
        if self.tls13:
            self.kx, self.auth, self.kx_setting = "tls13", "any", None
            self.fixed_iv, self.explicit_nonce = 12, 0
            self.min_version = (3, 4)
            self.max_version = (3, 4)
        else:
            self.kx, self.auth, self.kx_setting = KX[kx]
            self.kx_name = kx
            self.max_version = (3, 3)
            if self.kind == "aead" or hash_part in ("SHA256", "SHA384"):
                self.min_version = (3, 3)
            else:
                self.min_version = (3, 0)
            # ECC (RFC 4492) and SRP (RFC 5054) suites are specified for
            # TLS; whether they may run over SSLv3 is not stated: 'either'
            self.ssl3_unspecified = self.kx in ("ecdhe", "srp") or \
                self.cipher == "aes"

    def defined_in(self, version):
        """True / False / None (unspecified by the RFCs)."""
        version = tuple(version)
        if self.tls13:
            return version == (3, 4)
        if version == (3, 4):
            return False
        if version < self.min_version:
            return False
        if version == (3, 0) and self.ssl3_unspecified:
            return None
        return True

    def __repr__(self):
        return "<Suite %04x %s>" % (self.id, self.name)


SUITES = dict((i, Suite(i, n)) for i, n in REGISTRY.items())


def draft_suite(id_):
    base = {0xCCA1: 0xCCA8, 0xCCA2: 0xCCA9, 0xCCA3: 0xCCAA}[id_]
    s = Suite(id_, REGISTRY[base])
    s.draft = True
    s.name = DRAFT[id_]
    s.cipher = "chacha20poly1305_draft00"
    s.cipher_setting = "chacha20-poly1305_draft00"
    s.fixed_iv, s.explicit_nonce = 0, 8
    return s


for _i in DRAFT:
    SUITES[_i] = draft_suite(_i)


def norm(name):
    return name.upper()


def selftest():
    """Cross-check the typed-in table. Raises on disagreement."""
    from tlslite.constants import CipherSuite
    names = CipherSuite.ietfNames
    for i, n in REGISTRY.items():
        if i in names and norm(names[i]) != norm(n):
            raise AssertionError("ietfNames disagrees for %04x: %s vs %s" %
                                 (i, names[i], n))
    try:
        out = subprocess.run(
            ["openssl", "ciphers", "-V", "-stdname",
             "ALL:COMPLEMENTOFALL:@SECLEVEL=0"], capture_output=True,
            text=True, timeout=20).stdout
    except Exception:
        return 0
    n_checked = 0
    for line in out.splitlines():
        p = line.split()
        if len(p) < 6 or "," not in p[0]:
            continue
        a, b = p[0].split(",")
        i = int(a, 16) * 256 + int(b, 16)
        if i not in REGISTRY:
            continue
        if norm(p[2]) != norm(REGISTRY[i]):
            raise AssertionError("openssl disagrees for %04x" % i)
        s = SUITES[i]
        fields = dict(f.split("=", 1) for f in p[5:] if "=" in f)
        enc = fields.get("Enc", "")
        mac = fields.get("Mac", "")
        # Enc=AESGCM(256) / AES(128) / CHACHA20/POLY1305(256) / None
        bits = s.key_len * 8
        if s.cipher != "null" and "(%d)" % bits not in enc:
            raise AssertionError("key size mismatch %04x %s" % (i, enc))
        want_mac = {"md5": "MD5", "sha1": "SHA1", "sha256": "SHA256",
                    "sha384": "SHA384", None: "AEAD"}[s.mac]
        if mac != want_mac:
            raise AssertionError("mac mismatch %04x %s" % (i, mac))
        n_checked += 1
    return n_checked
