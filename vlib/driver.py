"""E2: cooperative single-thread scheduler for tlslite-ng async generators."""
from .det import DET


class Outcome(object):
    """How one driven operation ended."""
    __slots__ = ("state", "value", "exc", "steps")

    def __init__(self):
        self.state = "running"   # done | exc | blocked | running | budget
        self.value = None
        self.exc = None
        self.steps = 0

    def __repr__(self):
        if self.state == "exc":
            return "<exc %s>" % describe_exc(self.exc)
        if self.state == "done":
            v = self.value
            if isinstance(v, (bytes, bytearray)):
                v = "%d bytes" % len(v)
            return "<done %s>" % (v,)
        return "<%s>" % self.state

    @property
    def ok(self):
        return self.state == "done"


def describe_exc(e):
    """Stable, JSON-able description of an exception."""
    if e is None:
        return None
    name = type(e).__name__
    desc = getattr(e, "description", None)
    if desc is not None:
        try:
            from tlslite.constants import AlertDescription
            desc = AlertDescription.toStr(desc)
        except Exception:
            pass
        return "%s(%s)" % (name, desc)
    return name


def exc_site(e):
    """Innermost traceback frame inside tlslite, as 'module:function'."""
    tb = e.__traceback__
    site = None
    while tb is not None:
        fn = tb.tb_frame.f_code.co_filename
        if "/tlslite/" in fn:
            site = "%s:%s" % (fn.rsplit("/tlslite/", 1)[1],
                              tb.tb_frame.f_code.co_name)
        tb = tb.tb_next
    return site


def drive(tasks, link=None, max_steps=200000, on_stall="eof", order=None,
          spin_limit=2000):
    """Run generators to completion, round robin.

    tasks: dict name -> generator (tlslite async generators yield 0 = want
    read, 1 = want write; a read generator's last yielded non-int value is
    its result).
    on_stall: 'eof'  - when every live task waits for input that will never
                       come, deliver EOF to all and let them fail;
              'leave' - return with those tasks in state 'blocked'.
    order: optional iterable of names giving the interleaving (cycled);
    default is round robin in dict order.
    Returns dict name -> Outcome and the verdict string
    ('ok' | 'stalled' | 'budget' | 'spin').
    """
    outs = dict((n, Outcome()) for n in tasks)
    live = dict(tasks)
    waiting = {}                 # name -> True if last yield was 0 on empty
    verdict = "ok"
    steps = 0
    names = list(tasks)
    sched = list(order) if order else None
    si = 0
    spin = dict((n, 0) for n in tasks)
    stalled_once = False
    while live:
        if sched:
            name = sched[si % len(sched)]
            si += 1
            if name not in live:
                if all(s not in live for s in sched):
                    sched = None
                continue
        else:
            name = names[steps % len(names)]
            if name not in live:
                steps += 1
                if steps > max_steps * 4:
                    break
                continue
        steps += 1
        if steps > max_steps:
            verdict = "budget"
            for n in live:
                outs[n].state = "budget"
            break
        gen = live[name]
        DET.current = name
        before = _io_mark(link)
        try:
            r = next(gen)
        except StopIteration as si_:
            o = outs[name]
            if o.state != "done":
                o.state = "done"
                if o.value is None:
                    o.value = si_.value
            del live[name]
            waiting.pop(name, None)
            if link is not None:
                link.pump()
            continue
        except BaseException as e:     # noqa - recorded, judged by caller
            if isinstance(e, (KeyboardInterrupt, SystemExit, MemoryError)) \
                    or type(e).__name__ == "CaseHang":
                raise
            outs[name].state = "exc"
            outs[name].exc = e
            del live[name]
            waiting.pop(name, None)
            if link is not None:
                link.pump()
            continue
        finally:
            DET.current = "main"
        outs[name].steps += 1
        moved = link.pump() if link is not None else False
        after = _io_mark(link)
        if r in (0, 1) and isinstance(r, int):
            progressed = moved or (after != before)
            if progressed:
                waiting.clear()
                spin[name] = 0
            else:
                # only a read can be starved for good; a refused write is
                # simply retried (the spin limit bounds a socket that never
                # accepts anything)
                if r == 0:
                    waiting[name] = True
                if r == 0 and link is not None and \
                        not _input_pending(link, [name]):
                    # nothing to read yet: idle, not spinning
                    pass
                else:
                    spin[name] += 1
                if spin[name] > spin_limit * 10:
                    verdict = "spin"
                    for n in live:
                        outs[n].state = "blocked"
                    break
        else:
            # a result value (readAsync yields the data last)
            outs[name].value = r
            outs[name].state = "done"
            # let the generator finish on the next step
            waiting.clear()
            spin[name] = 0
        if live and all(n in waiting for n in live):
            # nobody can make progress
            if link is not None and _input_pending(link, live):
                # someone has unread input but still reports blocked:
                # give it spin_limit more steps before calling it a spin
                # (count only the tasks that do have input waiting: a task
                # starved by a slow peer accumulates idle steps legitimately)
                if max(spin[n] for n in live
                       if _input_pending(link, [n])) > spin_limit:
                    verdict = "spin"
                    for n in live:
                        outs[n].state = "blocked"
                    break
                continue
            if on_stall == "leave" or link is None or stalled_once:
                for n in live:
                    if outs[n].state == "running":
                        outs[n].state = "blocked"
                if verdict == "ok" and not stalled_once:
                    verdict = "stalled" if on_stall != "leave" else "ok"
                break
            stalled_once = True
            verdict = "stalled"
            for side in ("c", "s"):
                link.out[side].eof = True
            link.pump()
            waiting.clear()
    for n, g in list(live.items()):
        if outs[n].state in ("blocked", "budget"):
            continue
    return outs, verdict


def _io_mark(link):
    if link is None:
        return None
    return (len(link.out["c"].log), len(link.out["s"].log),
            len(link.inp["c"].q), len(link.inp["s"].q),
            link.inp["c"].eof, link.inp["s"].eof)


def _input_pending(link, live):
    for n in live:
        side = n[0]
        if side in link.inp and (link.inp[side].q or link.inp[side].eof):
            return True
    return False


def run1(gen, link=None, name="c", **kw):
    """Drive a single generator."""
    outs, verdict = drive({name: gen}, link, **kw)
    return outs[name], verdict
