"""E7: OpenSSL (stdlib ``ssl`` on MemoryBIOs) as an independent endpoint."""
import ssl
import subprocess

from .wire import Link

TLSV = {(3, 1): ssl.TLSVersion.TLSv1, (3, 2): ssl.TLSVersion.TLSv1_1,
        (3, 3): ssl.TLSVersion.TLSv1_2, (3, 4): ssl.TLSVersion.TLSv1_3}
VNAME = {"TLSv1": (3, 1), "TLSv1.1": (3, 2), "TLSv1.2": (3, 3),
         "TLSv1.3": (3, 4)}

_names = None


def suite_names():
    """id -> OpenSSL name, and reverse, from the openssl CLI."""
    global _names
    if _names is None:
        out = subprocess.run(
            ["openssl", "ciphers", "-V", "ALL:COMPLEMENTOFALL:@SECLEVEL=0"],
            capture_output=True, text=True, timeout=20).stdout
        fwd, rev = {}, {}
        for line in out.splitlines():
            p = line.split()
            if len(p) < 3 or "," not in p[0]:
                continue
            a, b = p[0].split(",")
            i = int(a, 16) * 256 + int(b, 16)
            fwd[i] = p[2]
            rev[p[2]] = i
        _names = (fwd, rev)
    return _names


def make_ctx(role, minv, maxv, cipher=None, cert=None, key=None,
             curve=None, alpn=None, verify_ca=None, require_client=False,
             tickets=True):
    ctx = ssl.SSLContext(ssl.PROTOCOL_TLS_SERVER if role == "s"
                         else ssl.PROTOCOL_TLS_CLIENT)
    ctx.check_hostname = False
    ctx.verify_mode = ssl.CERT_NONE
    ctx.minimum_version = TLSV[minv]
    ctx.maximum_version = TLSV[maxv]
    ctx.set_ciphers((cipher + ":" if cipher else "ALL:COMPLEMENTOFALL:") +
                    "@SECLEVEL=0")
    if cert:
        ctx.load_cert_chain(cert, key)
    if role == "s":
        # (the stdlib server offers no DHE suite without parameters)
        import os
        from . import ROOT
        ctx.load_dh_params(os.path.join(ROOT, "assets", "dh_ffdhe2048.pem"))
    if curve:
        ctx.set_ecdh_curve(curve)
    if alpn:
        ctx.set_alpn_protocols(alpn)
    if verify_ca:
        ctx.load_verify_locations(cafile=verify_ca)
        ctx.verify_mode = ssl.CERT_REQUIRED if require_client \
            else ssl.CERT_OPTIONAL
    if not tickets:
        ctx.options |= ssl.OP_NO_TICKET
    return ctx


class OsslEnd(object):
    """One OpenSSL endpoint bridged onto a Link side."""

    def __init__(self, ctx, side, link, session=None):
        self.side = side
        self.link = link
        self.inb = ssl.MemoryBIO()
        self.outb = ssl.MemoryBIO()
        kw = {}
        if session is not None:
            kw["session"] = session
        self.obj = ctx.wrap_bio(self.inb, self.outb,
                                server_side=(side == "s"), **kw)
        self.done = False
        self.error = None

    def _pump_in(self):
        q = self.link.inp[self.side]
        moved = False
        if q.q:
            self.inb.write(bytes(q.q))
            del q.q[:]
            moved = True
        if q.eof and not getattr(self, "_eof", False):
            self.inb.write_eof()
            self._eof = True
            moved = True
        return moved

    def _pump_out(self):
        data = self.outb.read()
        if data:
            self.link.out[self.side].write(data)
            self.link.pump()
            return True
        return False

    def handshake_step(self):
        """Returns True if progress was made."""
        if self.done or self.error:
            return False
        moved = self._pump_in()
        try:
            self.obj.do_handshake()
            self.done = True
            moved = True
        except ssl.SSLWantReadError:
            pass
        except (ssl.SSLError, OSError) as e:
            self.error = e
            moved = True
        if self._pump_out():
            moved = True
        return moved

    def write(self, data):
        self.obj.write(data)
        self._pump_out()

    def read_available(self):
        """Everything currently readable; returns (bytes, error or None)."""
        got = bytearray()
        self._pump_in()
        while True:
            try:
                d = self.obj.read(65536)
                if not d:
                    return bytes(got), "eof"
                got += d
            except ssl.SSLWantReadError:
                self._pump_out()
                return bytes(got), None
            except (ssl.SSLError, OSError) as e:
                self._pump_out()
                return bytes(got), e

    def close(self):
        try:
            self.obj.unwrap()
        except (ssl.SSLError, OSError):
            pass
        self._pump_out()


def run_handshake(tls_gen, ossl, link, name, max_steps=20000):
    """Drive a tlslite generator against an OpenSSL end. Returns
    (tlslite outcome: None | exception, ossl.done / ossl.error)."""
    from .det import DET
    exc = None
    finished = False
    idle = 0
    for _ in range(max_steps):
        progressed = False
        if not finished:
            before = (len(link.out["c"].log), len(link.out["s"].log),
                      len(link.inp["c"].q), len(link.inp["s"].q))
            DET.current = name
            try:
                next(tls_gen)
            except StopIteration:
                finished = True
                progressed = True
            except Exception as e:      # noqa - outcome under test
                exc = e
                finished = True
                progressed = True
            finally:
                DET.current = "main"
            link.pump()
            after = (len(link.out["c"].log), len(link.out["s"].log),
                     len(link.inp["c"].q), len(link.inp["s"].q))
            if after != before:
                progressed = True
        if ossl.handshake_step():
            progressed = True
        if finished and (ossl.done or ossl.error):
            break
        if finished and exc is not None:
            # let OpenSSL see the alert / EOF
            link.out["c" if name == "c" else "s"].eof = True
            link.pump()
        if progressed:
            idle = 0
        else:
            idle += 1
            if idle > 50:
                break
    return exc, finished


def ossl_pair(cctx, sctx, session=None, max_steps=2000):
    """OpenSSL <-> OpenSSL over a Link (the empirical 'both support it')."""
    link = Link()
    c = OsslEnd(cctx, "c", link, session=session)
    s = OsslEnd(sctx, "s", link)
    idle = 0
    for _ in range(max_steps):
        a = c.handshake_step()
        b = s.handshake_step()
        if (c.done or c.error) and (s.done or s.error):
            break
        if not (a or b):
            idle += 1
            if idle > 20:
                break
        else:
            idle = 0
    return c, s, link
