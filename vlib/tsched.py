"""E8: deterministic thread scheduler.

Worker threads run under ``sys.settrace``; at every *line* event in the
targeted source files the running thread parks and the controller picks the
next runnable thread from a generated schedule.  Locks of the object under
test are replaced by cooperative locks that report 'blocked' to the
controller instead of blocking the OS thread, so lock hand-over order is
schedule-controlled too and the harness cannot deadlock."""
import sys
import threading


class Abort(BaseException):
    pass


class CoopLock(object):
    """Drop-in for threading.Lock under the scheduler."""

    def __init__(self, sched):
        self.sched = sched
        self.owner = None

    def acquire(self, blocking=True, timeout=-1):
        me = self.sched.current_tid()
        if me is None:
            # outside scheduled threads (setup code): plain semantics
            self.owner = "main"
            return True
        if not blocking and self.owner is not None:
            return False
        while self.owner is not None:
            self.sched.block_on(me, self)
        self.owner = me
        self.sched.lock_events.append(("acq", me))
        return True

    def release(self):
        self.owner = None
        self.sched.lock_events.append(("rel", self.sched.current_tid()))
        self.sched.wake_waiters(self)

    def locked(self):
        return self.owner is not None

    def __enter__(self):
        self.acquire()
        return self

    def __exit__(self, *a):
        self.release()


class Sched(object):
    """Runs callables as threads under a schedule.

    schedule: list of ints; at each preemption point the next element e
    decides: 0 = keep running the current thread (if runnable), k > 0 =
    switch to the k-th other runnable thread (cyclic).  When exhausted the
    current thread keeps running (round robin on block/finish)."""

    def __init__(self, files, schedule, max_points=20000):
        self.files = tuple(files)
        self.schedule = list(schedule)
        self.si = 0
        self.max_points = max_points
        self.points = 0
        self.switches = 0
        self.cv = threading.Condition()
        self.state = {}          # tid -> running/ready/blocked/done
        self.waiting_for = {}    # tid -> lock
        self.turn = None
        self.tids = {}
        self.results = {}
        self.errors = {}
        self.lock_events = []
        self.trace_log = []
        self.aborted = False
        self.in_critical_preempt = 0
        self._locks = []

    def new_lock(self):
        """A cooperative lock created by the code under test itself (see
        ThreadingShim): known to the scheduler from its creation."""
        lock = CoopLock(self)
        self._locks.append(lock)
        return lock

    # -- worker side ---------------------------------------------------------
    def current_tid(self):
        return self.tids.get(threading.get_ident())

    def _tracer(self, frame, event, arg):
        if event == "call":
            fn = frame.f_code.co_filename
            if fn.endswith(self.files):
                return self._local
            return None
        return None

    def _local(self, frame, event, arg):
        if event == "line":
            tid = self.current_tid()
            if tid is not None:
                self.preempt_point(tid, frame)
        return self._local

    def preempt_point(self, tid, frame=None):
        with self.cv:
            if self.aborted:
                raise Abort()
            self.points += 1
            if self.points > self.max_points:
                self.aborted = True
                self.cv.notify_all()
                raise Abort()
            self.state[tid] = "ready"
            self._pick(tid, frame)
            while self.turn != tid and not self.aborted:
                self.cv.wait(10)
            if self.aborted:
                raise Abort()
            self.state[tid] = "running"

    def block_on(self, tid, lock):
        with self.cv:
            self.state[tid] = "blocked"
            self.waiting_for[tid] = lock
            self._pick(tid, None, forced=True)
            while self.turn != tid and not self.aborted:
                self.cv.wait(10)
            if self.aborted:
                raise Abort()
            self.state[tid] = "running"

    def wake_waiters(self, lock):
        with self.cv:
            for t, l in list(self.waiting_for.items()):
                if l is lock:
                    del self.waiting_for[t]
                    self.state[t] = "ready"

    def _runnable(self):
        return sorted(t for t, s in self.state.items() if s == "ready")

    def _pick(self, cur, frame, forced=False):
        """choose who runs next (cv held)"""
        run = self._runnable()
        if not run:
            if all(s in ("done", "blocked") for s in self.state.values()) \
                    and any(s == "blocked" for s in self.state.values()):
                # deadlock of the code under test
                self.aborted = True
                self.errors["deadlock"] = True
            self.turn = None
            self.cv.notify_all()
            return
        choice = 0
        if self.si < len(self.schedule):
            choice = self.schedule[self.si]
            self.si += 1
        if cur in run and not forced and choice == 0:
            nxt = cur
        else:
            others = [t for t in run if t != cur] or run
            nxt = others[(choice - 1) % len(others)] if choice else others[0]
        if nxt != cur and not forced:
            self.switches += 1
            if any(l.owner == cur for l in self._locks):
                self.in_critical_preempt += 1
        self.turn = nxt
        self.cv.notify_all()

    # -- controller ------------------------------------------------------------
    def run(self, jobs, locks=()):
        """jobs: list of callables. Returns (results, errors)."""
        self._locks.extend(locks)
        threads = []

        def worker(tid, fn):
            self.tids[threading.get_ident()] = tid
            sys.settrace(self._tracer)
            try:
                with self.cv:
                    while self.turn != tid and not self.aborted:
                        self.cv.wait(10)
                if not self.aborted:
                    self.state[tid] = "running"
                    self.results[tid] = fn()
            except Abort:
                pass
            except BaseException as e:      # noqa - judged by caller
                self.errors[tid] = e
            finally:
                sys.settrace(None)
                with self.cv:
                    self.state[tid] = "done"
                    self._pick(tid, None, forced=True)
        for i, fn in enumerate(jobs):
            self.state[i] = "ready"
        for i, fn in enumerate(jobs):
            t = threading.Thread(target=worker, args=(i, fn))
            t.daemon = True
            threads.append(t)
            t.start()
        with self.cv:
            first = 0
            if self.si < len(self.schedule):
                first = self.schedule[self.si] % len(jobs)
                self.si += 1
            self.turn = first
            self.cv.notify_all()
        for t in threads:
            t.join(30)
        if any(t.is_alive() for t in threads):
            with self.cv:
                self.aborted = True
                self.cv.notify_all()
            for t in threads:
                t.join(5)
            self.errors["hang"] = True
        return self.results, self.errors


class ThreadingShim(object):
    """Stands in for the ``threading`` module inside one module under test:
    every lock that module creates - in a constructor or lazily, at first
    use - is a cooperative lock of the scheduler."""

    def __init__(self, sched):
        self._sched = sched

    def Lock(self):
        return self._sched.new_lock()

    RLock = Lock

    def __getattr__(self, name):
        return getattr(threading, name)
