"""Runner: sharding, Hypothesis driving, collect-then-shrink, evidence,
known findings.  See DESIGN.md §3."""
import collections
import fnmatch
import hashlib
import importlib
import json
import multiprocessing
import os
import sys
import time
import traceback

from . import ROOT, REPO

NSHARDS = int(os.environ.get("VERIF_SHARDS", "16"))


class HarnessError(Exception):
    pass


class BaselineBroken(Exception):
    """An honest scenario that always works on a correct tree failed.  No
    property about what endpoints do can hold then; reported as a violation
    (never happens on the unchanged tree)."""

    def __init__(self, what, detail=""):
        Exception.__init__(self, what)
        self.what = what
        self.detail = detail


class R(object):
    """Verdict of one case."""
    __slots__ = ("ok", "nt", "sig", "detail", "labels", "key", "incon")

    def __init__(self, ok, nt=True, sig=None, detail=None, labels=(),
                 key=None, incon=False):
        self.ok = ok
        self.nt = nt
        self.sig = sig
        self.detail = detail
        self.labels = list(labels)
        self.key = key
        self.incon = incon


def good(nt=True, labels=(), key=None):
    return R(True, nt, None, None, labels, key)


def bad(sig, detail=None, nt=True, labels=(), key=None):
    return R(False, nt, sig, detail, labels, key)


def inconclusive(why, labels=()):
    return R(True, False, None, why, list(labels) + ["inconclusive:" + why],
             None, True)


def canon(x):
    return json.dumps(x, sort_keys=True, separators=(",", ":"), default=_dflt)


def _dflt(o):
    if isinstance(o, (bytes, bytearray)):
        return bytes(o).hex()
    if isinstance(o, (set, frozenset, tuple)):
        return sorted(o) if not isinstance(o, tuple) else list(o)
    return repr(o)


def chash(x):
    return hashlib.blake2b(canon(x).encode(), digest_size=8).hexdigest()


def crash_sig(e):
    """Signature for an unexpected exception: type @ innermost tlslite frame,
    or None when no tlslite frame is on the traceback (harness bug)."""
    tb = e.__traceback__
    site = None
    last_file = None
    while tb is not None:
        fn = tb.tb_frame.f_code.co_filename
        last_file = fn
        if "/tlslite/" in fn:
            site = "%s:%s" % (fn.rsplit("/tlslite/", 1)[1],
                              tb.tb_frame.f_code.co_name)
        tb = tb.tb_next
    if site is None:
        return None
    return "crash:%s@%s" % (type(e).__name__, site)


class CaseHang(BaseException):
    """Raised by the CPU-time watchdog inside a case."""


CASE_CPU_LIMIT = float(os.environ.get("VERIF_CASE_CPU", "150"))


def _on_cpu_alarm(signum, frame):
    raise CaseHang()


def run_check(mod, case):
    """check(case) with uncaught-exception classification and a watchdog on
    the *CPU time* of the case (user time of this process, so machine load
    does not matter): a case that normally needs a fraction of a second and
    burns CASE_CPU_LIMIT seconds is a busy loop in the code under test - the
    driver can only interrupt generators that yield."""
    import signal
    import threading
    armed = False
    if threading.current_thread() is threading.main_thread():
        try:
            signal.signal(signal.SIGVTALRM, _on_cpu_alarm)
            signal.setitimer(signal.ITIMER_VIRTUAL,
                             getattr(mod, "CASE_CPU_LIMIT", CASE_CPU_LIMIT))
            armed = True
        except (ValueError, OSError, AttributeError):
            armed = False
    try:
        return _run_check(mod, case)
    except CaseHang as e:
        site = crash_sig(e) or "crash:CaseHang@harness"
        return bad("busy-loop:" + site.split("@", 1)[1],
                   "the case used more than %.0f s of CPU time; stack when "
                   "interrupted:\n%s" % (
                       getattr(mod, "CASE_CPU_LIMIT", CASE_CPU_LIMIT),
                       "".join(traceback.format_exception(
                           type(e), e, e.__traceback__))[-1500:]))
    finally:
        if armed:
            signal.setitimer(signal.ITIMER_VIRTUAL, 0)


def _run_check(mod, case):
    try:
        r = mod.check(case)
    except BaselineBroken as e:
        return bad("honest-baseline-fails:" + e.what, e.detail)
    except HarnessError:
        raise
    except (KeyboardInterrupt, SystemExit, MemoryError, CaseHang):
        raise
    except BaseException as e:
        sig = crash_sig(e)
        if sig is None:
            raise
        return bad(sig, "".join(traceback.format_exception(
            type(e), e, e.__traceback__))[-1500:])
    if r is None:
        r = good()
    return r


def load(prop):
    return importlib.import_module("props." + prop.lower())


class Acc(object):
    """Per-shard accumulator."""

    def __init__(self):
        self.evals = 0
        self.nt = set()
        self.labels = collections.Counter()
        self.samples = []
        self.fail = {}          # sig -> dict(count, case, detail, origin)
        self.incon = 0
        self.skipped = 0

    def add(self, case, r, origin):
        self.evals += 1
        for lb in r.labels:
            self.labels[lb] += 1
        if r.incon:
            self.incon += 1
        if r.nt:
            h = chash(r.key if r.key is not None else case)
            if h not in self.nt:
                self.nt.add(h)
                if len(self.samples) < 3:
                    self.samples.append(case)
        if not r.ok:
            f = self.fail.get(r.sig)
            if f is None:
                self.fail[r.sig] = {"count": 1, "case": case,
                                    "detail": r.detail, "origin": origin}
            else:
                f["count"] += 1
                if len(canon(case)) < len(canon(f["case"])):
                    f["case"] = case
                    f["detail"] = r.detail
                    f["origin"] = origin

    def dump(self):
        return {"evals": self.evals, "nt": sorted(self.nt),
                "labels": dict(self.labels), "samples": self.samples,
                "fail": self.fail, "incon": self.incon,
                "skipped": self.skipped}


def _hyp_settings(n, shrink):
    from hypothesis import settings, HealthCheck, Phase
    phases = [Phase.generate]
    if shrink:
        phases.append(Phase.shrink)
    return settings(max_examples=n, database=None, deadline=None,
                    derandomize=False, report_multiple_bugs=False,
                    suppress_health_check=list(HealthCheck),
                    phases=phases)


def shard_seed(seed, shard):
    return int.from_bytes(hashlib.sha256(
        b"%d/%d" % (seed, shard)).digest()[:6], "big")


def _worker(args):
    prop, tier, seed, shard, nshards = args
    try:
        return _worker_inner(prop, tier, seed, shard, nshards)
    except BaseException as e:          # noqa
        return {"harness_error": "".join(traceback.format_exception(
            type(e), e, e.__traceback__))}


def _worker_inner(prop, tier, seed, shard, nshards):
    os.environ["VERIF_SHARD"] = str(shard)
    mod = load(prop)
    if hasattr(mod, "init"):
        mod.init(tier, seed)
    acc = Acc()
    t0 = time.time()
    max_wall = getattr(mod, "MAX_WALL", {"quick": 240, "thorough": 3000})[tier]
    # 1. explicit / enumerated cases
    if hasattr(mod, "explicit"):
        try:
            for i, case in enumerate(mod.explicit(tier, seed)):
                if i % nshards != shard:
                    continue
                if time.time() - t0 > max_wall:
                    acc.skipped += 1
                    continue
                acc.add(case, run_check(mod, case), ["explicit", i])
        except BaselineBroken as e:
            acc.add({"baseline": e.what},
                    bad("honest-baseline-fails:" + e.what, e.detail),
                    ["explicit", -1])
    # 2. generated cases
    strat = mod.strategy(tier) if hasattr(mod, "strategy") else None
    if strat is not None:
        total = mod.budget(tier)
        n = total // nshards + (1 if shard < total % nshards else 0)
        if n > 0:
            from hypothesis import given, seed as hseed
            cnt = [0]

            @hseed(shard_seed(seed, shard))
            @_hyp_settings(n, False)
            @given(strat)
            def t(case):
                cnt[0] += 1
                if time.time() - t0 > max_wall:
                    acc.skipped += 1
                    return
                acc.add(case, run_check(mod, case), ["hyp", shard])
            t()
    d = acc.dump()
    d["wall"] = time.time() - t0
    return d


def _shrink_worker(args):
    """Second pass: same seed, raise on the target signature, let Hypothesis
    shrink inside a time box."""
    prop, tier, seed, shard, nshards, sig, box = args
    try:
        mod = load(prop)
        if hasattr(mod, "init"):
            mod.init(tier, seed)
        strat = mod.strategy(tier)
        total = mod.budget(tier)
        n = total // nshards + (1 if shard < total % nshards else 0)
        from hypothesis import given, seed as hseed
        best = [None]
        t0 = time.time()

        @hseed(shard_seed(seed, shard))
        @_hyp_settings(n, True)
        @given(strat)
        def t(case):
            if best[0] is not None and time.time() - t0 > box:
                return
            r = run_check(mod, case)
            if not r.ok and r.sig == sig:
                if best[0] is None or \
                        len(canon(case)) <= len(canon(best[0][0])):
                    best[0] = (case, r.detail)
                raise AssertionError(sig)
        try:
            t()
        except BaseException:       # noqa - Flaky/AssertionError expected
            pass
        return best[0]
    except BaseException:           # noqa
        return None


def load_findings():
    p = os.path.join(ROOT, "known_findings.json")
    if not os.path.exists(p):
        return []
    with open(p) as f:
        return json.load(f).get("findings", [])


def match_finding(findings, prop, sig):
    for f in findings:
        if f.get("property") != prop or f.get("status") != "open":
            continue
        pat = f.get("signature", "")
        if sig == pat or fnmatch.fnmatchcase(sig or "", pat):
            return f
    return None


def write_replay(prop, sig, case, detail, seed, tier):
    d = os.path.join(os.environ.get("VERIF_OUT", ROOT), "replays", prop)
    os.makedirs(d, exist_ok=True)
    path = os.path.join(d, chash([sig, case]) + ".json")
    with open(path, "w") as f:
        json.dump({"property": prop, "signature": sig, "case": case,
                   "observed": detail, "seed": seed, "tier": tier}, f,
                  indent=1, default=_dflt)
    return path


def write_evidence(prop, mod, tier, seed, cov, wall, violations, extra=None):
    ev = {"property_id": prop, "tier": tier, "seed": seed,
          "level": mod.LEVEL, "coverage": cov,
          "assumptions": list(getattr(mod, "ASSUMPTIONS", [])),
          "wall_s": round(wall, 2), "violations": violations}
    if extra:
        ev.update(extra)
    # (VERIF_OUT is only set by the sensitivity scripts, which run against a
    # scratch copy of the library and must not touch the committed evidence)
    d = os.path.join(os.environ.get("VERIF_OUT", ROOT), "evidence")
    os.makedirs(d, exist_ok=True)
    with open(os.path.join(d, prop + ".json"), "w") as f:
        json.dump(ev, f, indent=1, default=_dflt)


def replay(prop, path):
    mod = load(prop)
    with open(path) as f:
        rep = json.load(f)
    if hasattr(mod, "init"):
        mod.init(rep.get("tier", "quick"), rep.get("seed", 1))
    r = run_check(mod, rep["case"])
    if r.ok:
        print("replay: property holds on this case")
        return 0
    kf = match_finding(load_findings(), prop, r.sig)
    if kf is not None:
        print("KNOWN-FINDING: property=%s %s" % (prop, kf["what_fails"]))
        return 0
    print("signature:", r.sig)
    print("detail:", r.detail)
    print("VIOLATION property=%s replay=%s" % (prop, os.path.abspath(path)))
    return 1


def main(prop, tier, seed=None, nshards=None):
    t0 = time.time()
    if seed is None:
        seed = int(os.environ.get("VERIF_SEED", "1"))
    nshards = nshards or NSHARDS
    mod = load(prop)
    if hasattr(mod, "selftest"):
        try:
            mod.selftest()
        except BaseException as e:      # noqa
            traceback.print_exc()
            print("HARNESS-ERROR property=%s self-test failed: %r" % (prop, e))
            return 2
    ns = getattr(mod, "SHARDS", {}).get(tier, nshards)
    ctx = multiprocessing.get_context("fork")
    jobs = [(prop, tier, seed, k, ns) for k in range(ns)]
    if ns == 1:
        results = [_worker(jobs[0])]
    else:
        with ctx.Pool(min(ns, NSHARDS)) as pool:
            results = pool.map(_worker, jobs, chunksize=1)
    herr = [r["harness_error"] for r in results if "harness_error" in r]
    if herr:
        print(herr[0])
        print("HARNESS-ERROR property=%s worker failed" % prop)
        return 2
    fuzz_stats = None
    if hasattr(mod, "fuzz_stage"):
        # coverage-guided stage (atheris in sub-processes): it returns the
        # inputs it recorded as failing; they are re-judged here like any
        # other case, so a finding never depends on the fuzzer to replay
        try:
            if hasattr(mod, "init"):
                mod.init(tier, seed)
            extra, fuzz_stats = mod.fuzz_stage(tier, seed)
            acc = Acc()
            for case in extra:
                acc.add(case, run_check(mod, case), ["fuzz", 0])
            d = acc.dump()
            d["wall"] = 0
            results.append(d)
        except HarnessError as e:
            fuzz_stats = {"skipped": str(e)}
    evals = sum(r["evals"] for r in results)
    nt = set()
    labels = collections.Counter()
    samples = []
    fails = {}
    incon = skipped = 0
    for k, r in enumerate(results):
        nt.update(r["nt"])
        labels.update(r["labels"])
        for s in r["samples"]:
            if len(samples) < 6:
                samples.append(s)
        incon += r["incon"]
        skipped += r["skipped"]
        for sig, f in r["fail"].items():
            g = fails.get(sig)
            if g is None:
                fails[sig] = dict(f)
            else:
                g["count"] += f["count"]
                if len(canon(f["case"])) < len(canon(g["case"])):
                    g.update(case=f["case"], detail=f["detail"],
                             origin=f["origin"])
    findings = load_findings()
    violations = []
    known = []
    for sig in sorted(fails):
        f = fails[sig]
        kf = match_finding(findings, prop, sig)
        if kf is not None:
            known.append((kf, f))
        else:
            violations.append((sig, f))
    # shrink the unlisted ones that came from Hypothesis
    box = 45 if tier == "quick" else 300
    todo = [(sig, f) for sig, f in violations if f["origin"][0] == "hyp"][:4]
    if todo and not os.environ.get("VERIF_NO_SHRINK"):
        with ctx.Pool(min(len(todo), NSHARDS)) as pool:
            res = pool.map(_shrink_worker,
                           [(prop, tier, seed, f["origin"][1], ns, sig, box)
                            for sig, f in todo], chunksize=1)
        for (sig, f), b in zip(todo, res):
            if b is not None and len(canon(b[0])) <= len(canon(f["case"])):
                f["case"], f["detail"] = b[0], b[1]
                f["shrunk"] = True
    printed = set()
    for kf, f in known:
        if kf["signature"] not in printed:
            printed.add(kf["signature"])
            print("KNOWN-FINDING: property=%s %s" % (prop, kf["what_fails"]))
    vio_out = []
    for sig, f in violations:
        path = write_replay(prop, sig, f["case"], f["detail"], seed, tier)
        vio_out.append({"signature": sig, "count": f["count"],
                        "replay": path})
        print("  signature: %s  (x%d)" % (sig, f["count"]))
        if f["detail"]:
            print("  detail: %s" % str(f["detail"])[:600])
        print("VIOLATION property=%s replay=%s" % (prop, path))
    if not samples and fails:
        samples = [f["case"] for f in fails.values()][:3]
    cov = {"evaluations": evals, "distinct_nontrivial": len(nt),
           "rule": mod.RULE, "samples": samples,
           "distribution": dict(labels.most_common(200)),
           "inconclusive": incon, "skipped_after_time_budget": skipped,
           "known_findings_hit": [
               {"signature": kf["signature"], "count": f["count"]}
               for kf, f in known],
           "violations": vio_out, "shards": ns}
    if hasattr(mod, "exhaustive") and mod.exhaustive(tier) and not skipped:
        cov["exhaustive"] = True
    if hasattr(mod, "extra_coverage"):
        cov.update(mod.extra_coverage(tier))
    if fuzz_stats is not None:
        cov["coverage_guided"] = fuzz_stats
    wall = time.time() - t0
    write_evidence(prop, mod, tier, seed, cov, wall, len(violations))
    print("%s %s seed=%d: %d cases, %d distinct non-trivial, %d known, "
          "%d violations, %.1fs" % (prop, tier, seed, evals, len(nt),
                                    len(known), len(violations), wall))
    return 1 if violations else 0
