#!/bin/bash
# usage: seed_matrix.sh [outdir]  -- every seeded change x every check (quick tier), in scratch worktrees
out=${1:-/tmp/seedmatrix}; mkdir -p $out
cd ${VERIF_HOME:-/verif}
for d in seeded/C*-m*; do
  s=$(basename $d)
  for id in C01 C02 C03 C04 C05 C06 C07 C08 C09 C10 C11 C12 C13 C14 C15 C16 C17 C18 C19 C20; do
    echo "$s $id"
  done
done | xargs -P ${PAR:-3} -L1 sh -c 'r=$(SHOW=2 tools/seed_run.sh seeded/$0 $1 2>&1 | grep -v KNOWN-FINDING | head -3 | tr "\n" " "); echo "$0 $1 :: $r" >> '$out'/results.txt'
echo done >> $out/results.txt
