#!/bin/bash
# usage: seed_verify.sh <dir with patch.diff demo.py>   (confirm a seeded change in a scratch worktree)
# prints: apply=ok tests=<summary> demo_mut=<rc> demo_clean=<rc>
d=$(readlink -f "$1"); wt=/tmp/vwt-$$
git -C /repo worktree add --detach -q $wt HEAD || exit 2
cd $wt
rc_clean=$( /venv/bin/python $d/demo.py >/tmp/vwt-$$.clean 2>&1; echo $?)
if git apply $d/patch.diff 2>/tmp/vwt-$$.err; then ap=ok; else ap=FAIL; fi
tests=$(/venv/bin/python -m pytest -q -p no:cacheprovider --timeout=900 -x 2>&1 | tail -1)
rc_mut=$( timeout 300 /venv/bin/python $d/demo.py >/tmp/vwt-$$.mut 2>&1; echo $?)
echo "apply=$ap tests=[$tests] demo_clean=$rc_clean demo_mut=$rc_mut"
echo "  clean: $(tail -1 /tmp/vwt-$$.clean | cut -c1-200)"
echo "  mut:   $(grep -m1 FAIL /tmp/vwt-$$.mut | cut -c1-300)"
cd /; git -C /repo worktree remove --force $wt; rm -f /tmp/vwt-$$.*
