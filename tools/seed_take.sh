#!/bin/bash
# usage: seed_take.sh <src root, e.g. /tmp/seed4> <Cxx> <tag, e.g. r4>
# confirms every <src>/<Cxx>/mN in a scratch worktree, stores the confirmed
# ones as seeded/<Cxx>-<tag>mN and runs the property's own check against each
src=$1; id=$2; tag=$3
cd ${VERIF_HOME:-/verif}
for m in $src/$id/m[0-9]; do
  [ -f $m/patch.diff ] || continue
  n=$(basename $m)
  v=$(tools/seed_verify.sh $m); v=$(echo "$v" | head -1)
  echo "$id-$tag$n verify: $v"
  case "$v" in
    apply=ok*passed*demo_clean=0\ demo_mut=1*) ;;
    *) echo "$id-$tag$n NOT CONFIRMED"; continue;;
  esac
  dst=seeded/$id-$tag$n; mkdir -p $dst
  cp $m/patch.diff $m/meta.json $dst/; cp $m/demo.py $dst/demo.py
  r=$(SHOW=2 tools/seed_run.sh $dst $id 2>&1 | grep -v KNOWN-FINDING | head -3 | tr "\n" " ")
  echo "$id-$tag$n own: $r"
done
