"""Regenerates MANIFEST.json from the table below (kept valid at all times)."""
import json
import os
import sys

ROOT = os.path.dirname(os.path.dirname(os.path.abspath(__file__)))

# id: (category, technique, text, note, design_ref)
CHECKS = {
 "C01": ("exploration",
         "property-based testing (Hypothesis histories + enumerated suite x version x EtM triples), FIFO model + reference receiver oracle",
         "Two real TLSConnection endpoints complete a pinned handshake for every negotiable (suite, version, EtM) triple; a generated history of writes, reads and "
         "record-size changes is compared with a FIFO model, and every record on the wire is re-opened by an independent reference receiver (vlib/refs) that also "
         "checks the per-record plaintext length against the limit in force (user recordSize, RFC 8449 negotiated limit, TLS 1.3 padding); histories may end with the writer closing while data is undelivered and the reader asking for more than is left; payloads handed over as bytearray must be unchanged afterwards, and a user padding callback must be honoured on the wire within the peer's limit.",
         "in-memory transport; reference ciphers/KDFs validated against OpenSSL CLI and RFC vectors; two dead suites (0x40, 0x6A) cannot be negotiated at all and are outside the domain",
         "DESIGN.md §4 C01"),
 "C02": ("fault_enumeration",
         "fault enumeration + property-based testing: attacker transformations on captured record streams, prefix-acceptance model, reference sender for insider malformations",
         "For every (suite, version, EtM) triple the honest sender's records are captured and one attacker transformation is applied (bit flips at header/IV/body/tag positions, truncation, "
         "extension, splice, replay, swap, drop-then-continue, reflection, cross-connection, forged plaintext alert/CCS, unknown content type, empty record); the receiver must return exactly the "
         "data of the honest prefix and reject the first deviating record with a fatal alert seen by the peer, closed and non-resumable. A directly keyed RecordLayer is also fed by the reference "
         "sender: every legal padding/inner padding is accepted bit-exactly, insider malformations (good MAC bad padding, bit flip behind maximal padding, correct MAC over a ciphertext too short for IV/padding/MAC, SSLv3 padding beyond one block, zero-only TLS 1.3 inner plaintext, wrong outer type, overflow) raise the documented exceptions; the same with both sequence-number counters started at 2^16-1 .. 2^63-1 (records on both sides of 2^32). "
         "During the handshake an unprotected alert/handshake/data record is spliced in at every position of the protected flight and must never be acted upon; undecryptable records are skipped only within the 0-RTT budget and never after a protected record was read.",
         "in-memory transport; incomplete trailing records are 'blocked' (C17); reference sender validated in C09 self-test",
         "DESIGN.md §4 C02"),
 "C03": ("exploration",
         "property-based testing over a constructed settings lattice; oracle = view-vector equality + independent policy-containment model",
         "Pairs of HandshakeSettings restrictions (versions, ciphers, MACs, key exchanges, groups, signature lists, key-size windows, EtM/EMS, record_size_limit) x flavour (11 server key types, SRP, SRP+cert, anon) "
         "x client auth x ALPN/NPN/SNI are constructed with drawn relations (equal/nested/independent); completed handshakes must yield identical view vectors (version, suite, secrets, exporter output, EMS, EtM, ALPN/NPN, SNI, chains, SRP user) "
         "and every negotiated parameter (incl. EMS / EtM flags for version ranges ending in SSLv3, PSK modes) must lie in both raw policies per an independent model using the IANA table - also on a second connection that offers the first one's session after one side's policy was narrowed; failed handshakes must fail with an alert on at least one side and never one-sidedly complete.",
         "own credential type enabled in own settings (caller precondition); settings.versions never set directly; private _send/_recv_record_limit attributes read for the record-limit agreement",
         "DESIGN.md §4 C03"),
 "C04": ("fault_enumeration",
         "fault enumeration with an on-path MITM (byte positions of every record x XOR masks, record drop/duplicate/swap, semantic hello rewrites) compared with the honest run of the same seed",
         "12 base scenarios (version-range negotiation with RSA/ECDSA, DHE, SRP, anonymous, client auth + ALPN + SNI, HelloRetryRequest, session-id / ticket / PSK resumption) are each attacked with one action: XOR at byte positions of any record of any flight "
         "(thorough: every position x 3 masks on plaintext flights), record drop/duplicate/swap, 9 ClientHello and 8 ServerHello rewrites (version lowering, removal of versions/suites/groups/signature algorithms/extensions, sentinel edits, SCSV). Never may both endpoints complete "
         "with different view vectors or with negotiated parameters different from the honest run; a downgraded ServerHello carrying the sentinel must stop the client at once; FALLBACK_SCSV is checked over all 25 version pairs.",
         "attacker without keys; protected records are only flipped/dropped/duplicated/swapped",
         "DESIGN.md §4 C04"),
 "C05": ("fault_enumeration",
         "fault enumeration site x corruption through a well-keyed deviant peer (real endpoint, wrapped send methods, substituted keys, re-signed proofs) with positive controls",
         "Every proof-of-possession site (ServerKeyExchange signature for RSA/ECDSA/EdDSA/DSA in TLS 1.0-1.2, client CertificateVerify, TLS 1.3 server/client CertificateVerify, post-handshake authentication, Finished, SRP proof, external PSK binder, Checker) "
         "is combined with each corruption (bit flip, proof by another key of the same type, proof replayed from another handshake, valid proof re-signed with a scheme the verifier did not offer, garbage, wrong password / unknown user / A mod N = 0, wrong PSK, flipped or re-attributed binder, wrong fingerprint); "
         "degenerate signature values (DSA/ECDSA (1,0),(0,1),(q,.); RSA 0,1,n-1,n; zero EdDSA), an SRP attacker using the premaster that A = 0 mod N forces, a wrong Finished closing an otherwise valid post-handshake authentication, and a client identity carried in a declined ticket followed by a handshake without certificate or by an external PSK in the same hello; "
         "the verifier must fail with an alert and never complete with the identity attributed. Positive controls (honest run; valid re-signed proof with an offered scheme) make the negatives non-vacuous.",
         "omitted proof messages are C06; the deviant uses tlslite helper functions only as a signing/encoding convenience",
         "DESIGN.md §4 C05"),
 "C06": ("fault_enumeration",
         "fault enumeration over message traces: every single skip/duplicate/swap/insert/replace deviation of 12 honest handshake flavours replayed by a well-keyed deviant peer, judged by an independent order-legality model; drawn deviation pairs",
         "For each (flavour, deviant side) the honest trace (handshake messages + ChangeCipherSpec) is replayed with one deviation - all positions x {skip, duplicate, swap} and x {insert, replace} with a 14-message pool (incl. a zero-length application-data record), plus append(T) after completion, a key-changing message sharing its record with (the first bytes of) another message, and a stray handshake fragment in front of any message (inside and outside the sender's transcript) - the deviant's transcript "
         "following what it really sends (so Finished would verify if the victim swallowed the deviation). A type-level legality model classifies the sequence the honest endpoint receives; illegal or truncated handshake parts must never complete, "
         "the abort alert must be on the wire (victim with closeSocket off); late illegal messages must kill the connection on the next read; post-handshake ClientHello/HelloRequest/ServerHello/Finished/CCS must never start a second handshake; handshake calls on an open connection must raise ValueError.",
         "order only: content validity of same-typed replacements is C04/C05; stalls count as not completed",
         "DESIGN.md §4 C06"),
 "C07": ("exploration",
         "differential interoperability testing against OpenSSL (stdlib ssl on memory BIOs) over an enumerated (role, version, suite, key) matrix plus Hypothesis-drawn options",
         "For every (tlslite role, TLS 1.0-1.3, suite in tlslite ∩ OpenSSL, server key type) and drawn options (group, client authentication, ALPN lists, resumption, HelloRetryRequest, OpenSSL default padded hello, payload sizes) the configuration is first shown to work OpenSSL<->OpenSSL (a tlslite<->tlslite failure of a matrix entry is a violation); "
         "then tlslite-client<->OpenSSL-server and OpenSSL-client<->tlslite-server must complete, report the same version, cipher suite, ALPN protocol and session reuse, authenticate the client when asked, and carry multi-record payloads intact in both directions; a second connection attempts resumption (also after the client widened its suite list); HelloRetryRequest is swept over OpenSSL hello sizes around its padding thresholds.",
         "OpenSSL randomness not seedable (configuration is the replay unit); SSLv3, SRP, external PSK, a negotiated record_size_limit (OpenSSL 3.0 ignores the extension; only that half is exercised), heartbeat, anon and TLS 1.3 CCM suites are outside what the stdlib API reaches",
         "DESIGN.md §4 C07"),
 "C08": ("exploration",
         "structure-aware mutation fuzzing through a well-keyed deviant peer + Hypothesis byte-level targets + coverage-guided fuzzing (atheris/libFuzzer) of the three raw-byte targets; oracle = exception-type / alert / closed / non-resumable / no-spin / bounded-memory clauses",
         "Every handshake message of 12 honest handshake flavours (SSLv3..TLS 1.3, RSA/DHE/ECDHE/anon/SRP, client auth, HRR, tickets, ALPN/NPN/SNI) is mutated before protection by a deviant peer (byte flips, truncation/extension with "
         "length fix-up, 1/2/3-byte field edits at any offset, zero/empty bodies, huge declared lengths, type changes, vector edge values, extension-level edits of hello messages), so encrypted phases are reached; the messages of a post-handshake authentication travel through read() and are mutated the same way; raw byte strings hit the "
         "server first flight, the client after its hello and an established connection. The victim must return or raise a TLS/socket exception, have sent a fatal alert for locally detected violations, be closed and non-resumable (flag and Session.valid()), never spin, and stay within a memory bound.",
         "work bounded by a deterministic scheduler step budget; memory measured with tracemalloc in thorough tier and for huge-length cases; timing blow-ups inside C routines are out of reach",
         "DESIGN.md §4 C08"),
 "C09": ("exploration",
         "property-based differential testing (Hypothesis) against independent reference implementations validated with the openssl CLI",
         "Every shipped pure-Python primitive and derivation function (AES-CBC/CTR, GCM, CCM/CCM-8, ChaCha20, Poly1305, ChaCha20-Poly1305, two- and three-key 3DES, RC4, HMAC, SSLv3/TLS1.0/TLS1.2 PRFs, "
         "HKDF-Expand-Label/Derive-Secret, calc_key/calcMasterSecret/calcFinished, key-block slicing, TLS 1.3 traffic keys and key update) is compared with references written from the "
         "standards over generated keys/nonces/AAD/labels/lengths/chunkings; AEAD open() is attacked with exhaustive single-bit flips on a short message plus drawn mutations; seal()/open() must leave the caller's buffers untouched.",
         "references (vlib/refs) are validated at every run against FIPS/RFC vectors and the openssl CLI (selftest; failure = exit 2); functional equality only",
         "DESIGN.md §4 C09"),
 "C10": ("exploration",
         "property-based testing with independent verifiers (reference RSA verifier, openssl CLI), constructed non-canonical encodings, and fault injection into the victim's key object",
         "Sign->verify round trips for RSA (PKCS#1 v1.5, PSS), ECDSA, EdDSA, DSA keys are cross-checked with an independent verifier (DSA: a FIPS 186-4 reference in both directions, digests with a leading zero octet); the negative space covers bit flips, other hash/scheme/key, RSA encodings constructed with the private key "
         "(11 non-canonical variants), (r, s) edge values and DER malformations, non-canonical EdDSA S; FFDH/ECDH/X25519/X448 parties must agree and refuse 7+10 classes of invalid peer shares incl. the known low-order Montgomery points; "
         "a FaultyKey wrapper corrupts the signature at every signing site of 13 handshake flavours and nothing signed may reach the wire.",
         "ECDSA digests are truncated to the curve size as every call site does; a mutated signature accepted by the independent verifier is not counted as forgery",
         "DESIGN.md §4 C10"),
 "C11": ("exploration",
         "differential property-based testing against a reference implicit-rejection decryption + wire-level metamorphic comparison through a deviant client",
         "Ciphertexts are built from chosen encoded messages (valid ones and 14 defect classes incl. every separator position, wrong version bytes, wrong lengths, publicly invalid inputs) and RSAKey.decrypt must equal the reference "
         "implicit-rejection function of (key, ciphertext), return None only for publicly invalid input and be deterministic; in RSA key-exchange handshakes (SSLv3..TLS 1.2) a deviant client substitutes each class and the server's "
         "observable behaviour (records emitted, alert, exception, bytes consumed) must equal the control with a well-formed encryption of another random premaster.",
         "functional equivalence only - timing is not measured; reference written from the construction the decrypt docstring describes",
         "DESIGN.md §4 C11"),
 "C12": ("exploration",
         "property-based testing (Hypothesis + enumerated grids) against a direct executable specification",
         "ct_check_cbc_mac_and_pad is compared with a direct RFC specification of MtE CBC bodies on enumerated grids "
         "(every padding length 0..255, every body length 0..330 in thorough, every MAC x version pair, 13 corruption classes) "
         "plus Hypothesis-drawn cases; both directions (accepts all well-formed, rejects every single-byte corruption); arguments stay untouched and a second call answers the same; the call site is exercised through a directly keyed RecordLayer, also beyond sequence number 2^32.",
         "functional behaviour only, no timing; reference MACs are stdlib hmac/hashlib; SSLv3 pad==block size counted as either",
         "DESIGN.md §4 C12"),
 "C13": ("exploration",
         "model-based stateful property testing: generated operation histories interpreted against real endpoints and a reference eligibility model",
         "Histories of full handshakes (TLS 1.0/1.2/1.3; session cache and/or ticket keys; EMS/EtM/SNI/client-certificate options), closes (clean, fatal, abrupt, lost close_notify), clock movements on either side, ticket-key rotations, cache fills, server-chosen ticket_age_add values, ticket/id tampering (bit flip, truncation, garbage, foreign server, random id) "
         "and resume attempts with unchanged or changed offers are run against two real endpoints; 'resumed' is judged from the client flag and from the wire; a three-valued reference model decides eligibility: resumed only if eligible, forged/altered/expired/foreign/unknown never resume and never break the connection (full handshake completes), "
         "inconsistent offers never resume, resumed connections carry the original suite, EMS, EtM, server name and client identity, and a full handshake after a declined offer records only the identity presented in it.",
         "boundary ages and RFC-permitted alternatives are 'either'",
         "DESIGN.md §4 C13"),
 "C14": ("exploration",
         "metamorphic property-based testing: scripted sockets / API paths / record re-framing vs the baseline run of the same seed (byte-identical wire, same outcomes)",
         "14 scenarios (handshake flavours incl. failing negotiations, client auth, HRR, SRP, tickets/NPN, followed by writes, exact reads, KeyUpdate, close) are replayed under generated schedules of per-call recv/send sizes with would-blocks and endpoint interleavings, "
         "through AsyncStateMachine, and through the blocking API in two threads; thanks to per-endpoint DRBGs the wire bytes of both directions, view vectors, delivered data and exception classes must equal the unconstrained baseline. "
         "A failed first send with the peer's alert pending must be reported alike under every receive schedule. An on-path re-framer splits plaintext handshake records at arbitrary points / one byte per record, and the sender's own fragmentation is varied (every recordSize 4..299, every record_size_limit 64..259): outcomes must not change. Extreme schedules (1 byte per call, would-block before every call) are enumerated per scenario.",
         "sendall() modelled as blocking-complete; wire byte-identity depends on the DRBG shim",
         "DESIGN.md §4 C14"),
 "C15": ("exploration",
         "property-based round-trip and framing-perturbation testing over harvested and create()-generated encodings, model-based testing of the codec layer, coverage-guided fuzzing (atheris/libFuzzer) of the message and extension parsers with the same oracle",
         "Well-formed encodings come from every handshake message sent in 16 real handshake flavours (harvested before protection, so encrypted-phase messages are included) and from create() with "
         "Hypothesis-drawn arguments for 18 message and 27 extension shapes. write(parse(b)) must equal b; every strict prefix, a byte appended inside or outside the outer length, and +-1 at every byte "
         "offset must raise a decode error or be itself well-formed (byte-identical re-encoding); oversize fields must make write() raise ValueError. Record headers, alerts, CCS, heartbeat, session-ticket payloads and SSLv2 messages are round-tripped at value level; "
         "inner lengths reaching beyond their vector must be DecodeError; sequences of Parser calls are compared with a reference reader; re-used objects must write like fresh ones; delegated credentials are a codec of their own; empty vectors have known-answer encodings; libFuzzer campaigns (selector byte + bytes) record every input the oracle rejects and the check re-judges them in-process.",
         "message dispatch by type byte is out of scope (C06); NextProtocol padding content is opaque; record-layer framing is C14/C08",
         "DESIGN.md §4 C15"),
 "C16": ("exploration",
         "model-based stateful property testing of post-handshake traffic with a reference receiver following every key generation; adversarial control messages from a well-keyed sender",
         "Histories of writes/reads, KeyUpdate (requested or not, either side, crossing), post-handshake authentication requests, heartbeat requests and one final adversarial message (19 kinds, also while an authentication request is pending) run on an established or ticket-resumed TLS 1.3 (and TLS 1.2) pair: "
         "the FIFO model holds after every step, heartbeat callbacks get exactly the request payloads, the server-side client chain changes only through a completed authentication and every context is consumed, both ends end with equal traffic secrets, and the reference receiver - rolling its secrets at every KeyUpdate it sees on the wire - "
         "opens every record of both directions and ends at the same generation; adversarial messages must be answered with a fatal alert (RFC 6520 drop-silently cases must leave the data stream intact). read(max, 0) pump calls never return more than max, and an endpoint that sends control traffic and data, closes and disappears before the peer reads still gets its data and close delivered.",
         "reference receiver validated in C09; adversarial sender is a real endpoint using _sendMsg with raw bytes",
         "DESIGN.md §4 C16"),
 "C17": ("fault_enumeration",
         "fault enumeration by stream offset on scripted sockets (EOF / ECONNRESET / EPIPE at every record boundary and header/body split of every flight, both endpoints, both directions) plus enumerated closure events in the data phase",
         "For 12 handshake flavours a fault-free run records both byte streams; the scripted socket then delivers/accepts exactly up to offset o and faults, for o over every record boundary, +1..+5, middle and last byte of every record x fault kind x endpoint x direction. "
         "The interrupted call must raise a socket/abrupt-close error (or the peer's queued alert), the connection be closed, no handshake reported complete, the session absent or non-resumable; the peer may complete only if it held the victim's complete last flight. "
         "Data phase: close_notify / warning / fatal alert / EOF / ECONNRESET / EOF inside a record after k data records x closeSocket x ignoreAbruptClose: orderly close (close_notify at any alert level) gives empty reads, closed-connection error on write and a resumable session; truncation is never a clean end; fatal alerts surface with their description; close() waiting for the peer's close_notify with peer traffic in flight and a courtesy close_notify hitting a dead transport stay orderly. The peer aborting the handshake with an unprotected fatal alert at every record position where that is possible must surface as exactly that remote alert.",
         "sendall() is blocking-complete; TLS 1.3 'complete last flight' is located with the reference receiver (first record under application keys)",
         "DESIGN.md §4 C17"),
 "C18": ("exploration",
         "model-based property testing of sequential histories + schedule-controlled concurrency (settrace scheduler with cooperative locks, generated and bounded-exhaustive schedules) + stress",
         "Sequential SessionCache histories (set/get/advance-clock/invalidate, small id alphabets so ids repeat, maxEntries 1..6, small maxAge) are compared step by step with a dictionary-with-ages model, and every history of 6 (thorough 7) steps over an 8-operation alphabet is enumerated; 2-3 threads x <= 3 operations on one SessionCache, VerifierDB or Python_RSAKey run under a "
         "scheduler that owns every line-level preemption point and every lock the objects create (also lazily, on a key that is fresh in every case): results must be explainable by a program-order-respecting sequential order, RSA private operations must equal pow(m, d, n); results and a quiescent read-back must be linearizable (real-time order from a logical clock); every placement of one switch over the whole run and of two switches in the first 40 (thorough 80) points is enumerated for fixed programs; "
         "free-running stress runs check invariants only.",
         "line-level preemption under the GIL; boundary cases age == maxAge and exactly maxEntries-1 newer stores are 'either'",
         "DESIGN.md §4 C18"),
 "C19": ("exploration",
         "property-based testing: snapshot purity/idempotence checks, enumerated out-of-domain values, and an under-approximating compatibility model vs real loopback handshakes",
         "validate() is run on lattice-constructed settings with a deep snapshot before/after (also when it raises; the same snapshot comparison brackets every handshake), validate(validate(s)) is compared field-wise, results may name only loaded back-ends; every documented field is set to "
         "out-of-domain values (35 fields, 6 cross-field combinations) and must raise ValueError; settings pairs for which an independent under-approximating model finds a witness (highest common version, suite, group, signature scheme, key size) "
         "every listed suite pinned on both sides, and endpoints sharing an external PSK (two- or three-element configuration form, with or without a server certificate), a PSK mode, a suite of the PSK's hash and a group must complete a handshake.",
         "the compatibility model never counts unclassifiable pairs against the code; two listed-but-dead suites (0x40, 0x6A) are an open known finding",
         "DESIGN.md §4 C19"),
 "C20": ("exploration",
         "exhaustive enumeration of (suite, version, role) with an IANA-table oracle, reference receiver and reference PRF; MITM rewriting for undefined pairs",
         "Every suite id the library lists x every version is enumerated: defined pairs are negotiated between pinned endpoints and their records re-opened by a reference "
         "receiver keyed with the REGISTERED cipher/key size/MAC/tag/PRF (any mismatch makes authentication fail), the master secret is recomputed from the observed premaster secret (DHE also over a 1032-bit group, so odd-length secrets occur) and Finished from it with the registered PRF, key-exchange "
         "messages and certificate presence are checked on the wire, accessor names compared with the table (TLS 1.3: also after KeyUpdate in both directions); single cipher/MAC names between all-version endpoints and sessions re-offered to a server capped at a lower version must announce registered pairs; exported keying material must be the PRF-of-the-suite value; undefined pairs are attacked from both roles and must be refused.",
         "IANA table typed in and cross-checked against openssl ciphers -stdname; 'defined in version' only where RFCs are explicit; the premaster secret is observed by a harness-side wrapper around tlsconnection.calc_key (arguments pass through unchanged)",
         "DESIGN.md §4 C20"),
}

NOT_BUILT = "check not built yet in this round (design in DESIGN.md §4); not claimed"


def main():
    props = [json.loads(l)["id"] for l in open(os.path.join(ROOT, "properties.jsonl"))]
    checks = []
    for pid in props:
        if pid not in CHECKS:
            continue
        cat, tech, text, note, ref = CHECKS[pid]
        checks.append({
            "property_id": pid,
            "quick_cmd": "./check %s quick" % pid,
            "thorough_cmd": "./check %s thorough" % pid,
            "evidence_file": "evidence/%s.json" % pid,
            "replay_cmd_template": "./check %s quick --replay {path}" % pid,
            "engine": "pbt",
            "level_claimed": {"category": cat, "text": text, "design_ref": ref},
            "level_note": note,
            "technique": tech,
        })
    man = {
        "version": 1,
        "setup_cmd": "./setup.sh",
        "hooks": {
            "guard": "TLSLITE_NG_VERIF",
            "enable": "no source hooks are needed: checks import /repo's working tree directly (PYTHONPATH=/repo) and observe through public API, in-memory sockets and module-attribute shims installed from outside",
            "baseline_off_cmd": "cd /repo && /venv/bin/python -m pytest -ra -q -p no:cacheprovider --timeout=900 --continue-on-collection-errors",
            "source_commits": [],
            "add_only": True,
        },
        "engines": [
            {"name": "pbt", "path": "run.py", "serves_properties": sorted(CHECKS),
             "kind_free_text": "Hypothesis strategies + enumerated grids sharded over 16 processes; in-memory two-endpoint wire with MITM, deterministic DRBG/clock shims, reference implementations written from the RFCs, collect-then-shrink, replay files"},
        ],
        "checks": checks,
        "notes": "Exit codes: 0 held (KNOWN-FINDING lines possible), 1 VIOLATION, 2 harness error (never a violation). VERIF_SEED selects the seed (default 1).",
        "not_applicable": [{"property_id": p, "reason": NOT_BUILT} for p in props if p not in CHECKS],
    }
    with open(os.path.join(ROOT, "MANIFEST.json"), "w") as f:
        json.dump(man, f, indent=1)
    try:
        import jsonschema
        jsonschema.validate(man, json.load(open("/root/.vp/MANIFEST.schema.json")))
        print("MANIFEST valid:", len(checks), "checks")
    except ImportError:
        print("written (jsonschema not available)")


if __name__ == "__main__":
    main()
