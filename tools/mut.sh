#!/bin/sh
# usage: tools/mut.sh '<sed expr>' <file under /repo> <ID> [tier]
# applies a sed mutation to /repo, runs the check, reverts. For sensitivity checks.
expr="$1"; file="$2"; id="$3"; tier="${4:-quick}"
cd /repo || exit 2
sed -i "$expr" "$file"
if git diff --quiet; then echo "MUTATION DID NOT APPLY"; exit 2; fi
git diff | grep '^[+-]' | grep -v '^+++\|^---' | head -6
cd /verif && VERIF_NO_SHRINK=${VERIF_NO_SHRINK:-1} ./check "$id" "$tier" 2>&1 | grep -v conda | grep -E "VIOLATION|signature|HARNESS|cases," | head -8
cd /repo && git checkout -- .
