#!/bin/bash
# usage: seed_own.sh [outdir]  -- every seeded change against the check of its own property (quick tier)
out=${1:-/tmp/seedown}; mkdir -p $out
cd ${VERIF_HOME:-/verif}
for d in seeded/C*-*m*; do
  s=$(basename $d); echo "$s ${s%%-*}"
done | xargs -P ${PAR:-3} -L1 sh -c 'r=$(SHOW=2 tools/seed_run.sh seeded/$0 $1 2>&1 | grep -v KNOWN-FINDING | head -3 | tr "\n" " "); echo "$0 $1 :: $r" >> '$out'/results.txt'
echo done >> $out/results.txt
