#!/bin/bash
# usage: seed_take_area.sh <src root, e.g. /tmp/seed6> <Axx> <tag, e.g. r6>
# file-centric rounds: the property is named in each meta.json; confirmed
# changes are stored as seeded/<Cxx>-<tag><Axx>m<N> and run against the
# check of that property (and of the ones listed under "also")
src=$1; area=$2; tag=$3
cd ${VERIF_HOME:-/verif}
for m in $src/$area/m[0-9]; do
  [ -f $m/patch.diff ] || continue
  n=$(basename $m)
  prop=$(python3 -c "import json,sys; print(json.load(open('$m/meta.json'))['property'])")
  also=$(python3 -c "import json,sys; print(' '.join(x for x in json.load(open('$m/meta.json')).get('also',[]) if x.startswith('C')))")
  v=$(tools/seed_verify.sh $m); v=$(echo "$v" | head -1)
  echo "$prop-$tag$area$n verify: $v"
  case "$v" in
    apply=ok*passed*demo_clean=0\ demo_mut=1*) ;;
    *) echo "$prop-$tag$area$n NOT CONFIRMED"; continue;;
  esac
  dst=seeded/$prop-$tag$area$n; mkdir -p $dst
  cp $m/patch.diff $m/meta.json $dst/; cp $m/demo.py $dst/demo.py
  r=$(SHOW=2 tools/seed_run.sh $dst $prop 2>&1 | grep -v KNOWN-FINDING | head -3 | tr "\n" " ")
  echo "$prop-$tag$area$n own: $r"
  case "$r" in rc=1*) ;; *)
    for a in $also; do
      r2=$(SHOW=1 tools/seed_run.sh $dst $a 2>&1 | grep -v KNOWN-FINDING | head -2 | tr "\n" " ")
      echo "$prop-$tag$area$n also $a: $r2"
    done;;
  esac
done
