#!/bin/bash
# usage: seed_run.sh <dir with patch.diff> <ID> [tier]
# Runs check <ID> against a scratch worktree of /repo carrying the seeded
# change (VERIF_REPO), with evidence/replays diverted to a scratch dir, so it
# can run in parallel with other work.  (Equivalent to: git -C /repo apply;
# ./check; git -C /repo checkout -- .  -- use SEED_INPLACE=1 for exactly that.)
d=$(readlink -f "$1"); id=$2; tier=${3:-quick}
out=/tmp/seedout-$$; mkdir -p $out
if [ -n "$SEED_INPLACE" ]; then
  [ -n "$(git -C /repo status --porcelain)" ] && { echo "/repo dirty"; exit 2; }
  git -C /repo apply $d/patch.diff || exit 2
  wt=/repo
else
  wt=/tmp/swt-$$
  git -C /repo worktree add --detach -q $wt HEAD || exit 2
  git -C $wt apply $d/patch.diff || { git -C /repo worktree remove --force $wt; exit 2; }
fi
cd ${VERIF_HOME:-/verif}
VERIF_REPO=$wt VERIF_OUT=$out VERIF_NO_SHRINK=${VERIF_NO_SHRINK-1} ./check $id $tier > $out/log 2>&1; rc=$?
if [ -n "$SEED_INPLACE" ]; then git -C /repo checkout -- .; else git -C /repo worktree remove --force $wt; fi
echo "rc=$rc violations=$(grep -c '^VIOLATION' $out/log)"
grep -E "^  signature:" $out/log | sort | uniq -c | sort -rn | head -${SHOW:-5}
tail -1 $out/log
rm -rf $out
