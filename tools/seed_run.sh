#!/bin/bash
# usage: seed_run.sh <dir with patch.diff> <ID> [tier] : apply to /repo, run the check, restore
d=$(readlink -f "$1"); id=$2; tier=${3:-quick}
[ -n "$(git -C /repo status --porcelain)" ] && { echo "/repo dirty"; exit 2; }
git -C /repo apply $d/patch.diff || exit 2
cd /verif
VERIF_NO_SHRINK=${VERIF_NO_SHRINK-1} ./check $id $tier > /tmp/seedrun.$$ 2>&1; rc=$?
git -C /repo checkout -- .
echo "rc=$rc $(grep -c '^VIOLATION' /tmp/seedrun.$$) violation lines"
grep -E "^  signature:" /tmp/seedrun.$$ | sort | uniq -c | sort -rn | head -${SHOW:-6}
tail -1 /tmp/seedrun.$$
rm -f /tmp/seedrun.$$
