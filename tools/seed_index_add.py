#!/usr/bin/env python3
"""Add one row to seeded/INDEX.md without re-running the whole matrix.
usage: seed_index_add.py <seed dir name> <own: caught|missed> <signature> [other checks, comma separated]"""
import json
import os
import re
import sys

ROOT = os.path.dirname(os.path.dirname(os.path.abspath(__file__)))
seed, state, sig = sys.argv[1:4]
others = sys.argv[4] if len(sys.argv) > 4 else "-"
meta = json.load(open(os.path.join(ROOT, "seeded", seed, "meta.json")))


def cell(x):
    return str(x).replace("|", "/").replace("\n", " ")[:230]


row = "| %s | %s | %s | %s | %s |" % (
    seed, cell(meta.get("summary", "")), cell(meta.get("needs_to_manifest", "")),
    ("**caught** `%s`" % sig) if state == "caught" else "missed", others)
p = os.path.join(ROOT, "seeded", "INDEX.md")
lines = open(p).read().split("\n")
rows = [i for i, l in enumerate(lines) if l.startswith("| C")]
lines = [l for l in lines if not l.startswith("| %s |" % seed)]
rows = [i for i, l in enumerate(lines) if l.startswith("| C")]
pos = next((i for i in rows if lines[i].split(" ")[1] > seed), rows[-1] + 1)
lines.insert(pos, row)
for i, l in enumerate(lines):
    m = re.match(r"(\d+) seeded changes; (\d+) caught by their own check, "
                 r"(\d+) by at least one check\.", l)
    if m:
        t, o, a = map(int, m.groups())
        lines[i] = ("%d seeded changes; %d caught by their own check, %d by "
                    "at least one check." % (
                        t + 1, o + (state == "caught"),
                        a + (state == "caught" or others != "-")))
open(p, "w").write("\n".join(lines))
print(row[:160])
