#!/usr/bin/env python3
"""Write seeded/INDEX.md from the output of tools/seed_matrix.sh.
usage: seed_index.py <results.txt>"""
import json
import os
import re
import sys

ROOT = os.path.dirname(os.path.dirname(os.path.abspath(__file__)))
res = {}
for line in open(sys.argv[1]):
    m = re.match(r"(C\d\d-\w+) (C\d\d) :: rc=(\d+) violations=(\d+)(.*)", line)
    if not m:
        continue
    seed, chk, rc, nv, rest = m.groups()
    sig = re.search(r"signature: (\S+)", rest)
    res.setdefault(seed, {})[chk] = (int(rc), sig.group(1) if sig else "")
STATUS = {
    "C06-r2m1": "not a violation (RFC-legal, DESIGN 9.5)",
    "C06-r2m3": "not a violation (RFC-legal, DESIGN 9.5)",
    "C06-r5m1": "not a violation (RFC-legal, DESIGN 9.5)",
    "C06-r5m3": "not a violation (RFC-legal, DESIGN 9.5)",
    "C19-r5m2": "outside the domain (undocumented `versions` list with a "
                "hole, DESIGN 9.5)",
    "C03-r3m3": "neutralised by fix 6a82118 (was detected before it)",
    "C08-r4m3": "neutralised by fix bf3373d (was detected before it)",
}
out = ["# Seeded changes x checks (quick tier)", "",
       "Written by tools/seed_index.py from a run of tools/seed_own.sh "
       "(every seeded change against the check of its own property, in a "
       "scratch worktree carrying the change) plus the cross runs that were "
       "made for changes their own check does not report. `own` = the check "
       "of the property the change was written against; the last column "
       "lists other checks known to report it (not a complete matrix: "
       "that takes about 15 hours).", "",
       "| seed | what it breaks | needs | own check | also caught by |",
       "|---|---|---|---|---|"]
tot = own = anyc = 0
for seed in sorted(os.listdir(os.path.join(ROOT, "seeded"))):
    d = os.path.join(ROOT, "seeded", seed)
    if not os.path.isdir(d):
        continue
    meta = json.load(open(os.path.join(d, "meta.json")))
    r = res.get(seed, {})
    prop = seed.split("-")[0]
    o = r.get(prop)
    others = sorted(c for c, (rc, s) in r.items() if rc == 1 and c != prop)
    tot += 1
    own += bool(o and o[0] == 1)
    anyc += bool((o and o[0] == 1) or others)

    def cell(x):
        return str(x).replace("|", "/").replace("\n", " ")[:230]
    out.append("| %s | %s | %s | %s | %s |" % (
        seed, cell(meta.get("summary", "")),
        cell(meta.get("needs_to_manifest", "")),
        ("**caught** `%s`" % o[1]) if o and o[0] == 1 else
        (STATUS.get(seed) or ("missed" if o else "not run")),
        ", ".join(others) or "-"))
out += ["", "%d seeded changes; %d caught by their own check, %d by at "
        "least one check." % (tot, own, anyc), ""]
open(os.path.join(ROOT, "seeded", "INDEX.md"), "w").write("\n".join(out))
print(out[-2])
