"""tools/show.py <replay.json> : print a replay compactly (pair cases side by side)"""
import json, sys
d = json.load(open(sys.argv[1]))
c = d["case"]
print("SIG", d["signature"])
print("OBS", (d.get("observed") or "")[:600])
if isinstance(c, dict) and "c" in c and "s" in c:
    print({k: c[k] for k in c if k not in ("c", "s")})
    for k in sorted(c["c"]):
        print("  %-28s %s | %s" % (k, c["c"][k], c["s"].get(k)))
else:
    print(json.dumps(c)[:1500])
