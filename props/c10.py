"""C10 - signatures and key agreement are sound, strict and never emitted
when faulty."""
import copy
import hashlib
import os
import subprocess
import tempfile

from hypothesis import strategies as st

from vlib.runner import good, bad, HarnessError, BaselineBroken
from vlib.det import DET
from vlib import scenario as sc
from vlib.refs import rsa as rrsa
from vlib.wire import records
from vlib.driver import describe_exc

from tlslite.errors import (TLSIllegalParameterException, TLSDecodeError,
                            TLSLocalAlert, BaseTLSException)
from tlslite.keyexchange import FFDHKeyExchange, ECDHKeyExchange
from tlslite.constants import GroupName
from tlslite.mathtls import goodGroupParameters

ID = "C10"
LEVEL = "exploration"
RULE = ("cases: (a) sign->verify round trips over key type x scheme x hash "
        "x salt x message, (b) the same signature checked by an independent "
        "verifier (reference RSA verifier, openssl CLI for ECDSA/EdDSA/DSA), "
        "(c) negative space - bit flips of signature/message, other hash/"
        "scheme/key, RSA encodings constructed with the private key (short "
        "padding, garbage after DigestInfo, wrong block type, non-FF "
        "padding, missing NULL, leading zero octet, s >= n, PSS trailer/"
        "top-bits/DB-padding/salt-length), ECDSA/DSA r,s in {0, n, n+r}, "
        "non-minimal / trailing DER, EdDSA non-canonical S, (d) key "
        "agreement equality for FFDHE groups, custom DH params, NIST/"
        "brainpool curves, X25519/X448 and refusal of invalid peer shares, "
        "(e) fault injection: the victim's key returns a wrong signature "
        "(or a CRT fault) at every signing site of 10 handshake flavours "
        "and nothing signed may reach the wire. non-trivial = negative "
        "cases whose mutated object keeps the right length/range, fault "
        "cases that fired; distinct = hash(case)")
ASSUMPTIONS = [
    "a mutated signature that the independent verifier accepts is not a "
    "forgery (ECDSA (r, n-s), SHA-1 DigestInfo with/without NULL)",
    "verify() may signal rejection by returning False or by raising a "
    "tlslite exception; other exception types are violations",
]
RSA_KEYS = ["rsa1024", "rsa", "rsa3072", "rsapss", "rsa1031", "rsa2047"]
EC_KEYS = ["ecdsa", "p384", "p521", "bp256"]
ED_KEYS = ["ed25519", "ed448"]
HASHES = ["sha1", "sha224", "sha256", "sha384", "sha512"]


def init(tier, seed):
    DET.install()


def prg(tag, n):
    out = bytearray()
    i = 0
    while len(out) < n:
        out += hashlib.sha256(("%s|%d" % (tag, i)).encode()).digest()
        i += 1
    return bytes(out[:n])


def key(name):
    return sc.cred(name)[1]


_pub = {}


def pub_pem(name):
    """PEM public key file extracted from the asset certificate."""
    if name not in _pub:
        out = subprocess.run(["openssl", "x509", "-pubkey", "-noout", "-in",
                              sc.cert_pem(name)], capture_output=True,
                             timeout=30).stdout
        # one file per key (named by content) shared by all shards and runs,
        # recreated on demand: nothing accumulates in the temp directory
        d = os.path.join(tempfile.gettempdir(), "verif-c10-%d" % os.getuid())
        os.makedirs(d, exist_ok=True)
        path = os.path.join(d, "%s-%s.pem" % (
            name, hashlib.sha256(out).hexdigest()[:16]))
        if not os.path.exists(path):
            fd, tmp = tempfile.mkstemp(dir=d)
            os.write(fd, out)
            os.close(fd)
            os.rename(tmp, path)
        _pub[name] = path
    return _pub[name]


def ossl_verify(name, hname, msg, sig):
    """True/False by the openssl CLI (None if it cannot decide)."""
    with tempfile.NamedTemporaryFile(prefix="c10sig", delete=False) as f:
        f.write(bytes(sig))
        sp = f.name
    with tempfile.NamedTemporaryFile(prefix="c10msg", delete=False) as f:
        f.write(bytes(msg))
        mp = f.name
    try:
        if name in ED_KEYS or name == "c_ed25519":
            r = subprocess.run(["openssl", "pkeyutl", "-verify", "-pubin",
                                "-inkey", pub_pem(name), "-rawin", "-in",
                                mp, "-sigfile", sp], capture_output=True,
                               timeout=30)
        else:
            r = subprocess.run(["openssl", "dgst", "-" + hname, "-verify",
                                pub_pem(name), "-signature", sp, mp],
                               capture_output=True, timeout=30)
        out = r.stdout + r.stderr
        if b"Verified OK" in out or b"Signature Verified Successfully" in out:
            return True
        if b"Verification failure" in out or b"Verification Failure" in out \
                or b"Signature Verification Failure" in out or \
                b"Error" in out or b"error" in out:
            return False
        return None
    finally:
        os.unlink(sp)
        os.unlink(mp)


def safe_verify(fn, *a, **kw):
    """(result, violation signature or None)"""
    try:
        return bool(fn(*a, **kw)), None
    except BaseTLSException:
        return False, None
    except Exception as e:      # noqa
        from vlib.driver import exc_site
        return False, "verify-raises:%s@%s" % (type(e).__name__, exc_site(e))


def check(case):
    return globals()["do_" + case["f"]](case)


# ------------------------------------------------------------------ RSA ---
def do_rsa_sig(case):
    name, scheme, h = case["key"], case["scheme"], case["hash"]
    k = key(name)
    labels = ["rsa_sig", "key=" + name, scheme, "mut=" + case["mut"]]
    if name == "rsapss" and scheme == "pkcs1":
        return good(nt=False, labels=labels)
    msg = prg("m%d" % case["s"], case["n"])
    hl = hashlib.new(h).digest_size
    slen = {"hash": hl, "zero": 0, "short": 7}[case["salt"]]
    kbytes = (k.n.bit_length() + 7) // 8
    if scheme == "pss" and (k.n.bit_length() - 1 + 7) // 8 < hl + slen + 2:
        return good(nt=False, labels=labels + ["key-too-small"])
    sig = k.hashAndSign(bytearray(msg), scheme.upper(), h, slen)
    digest = hashlib.new(h, msg).digest()
    ok, sigv = safe_verify(k.hashAndVerify, sig, bytearray(msg),
                           scheme.upper(), h, slen)
    if not ok:
        return bad("own-signature-rejected:rsa-" + scheme, sigv or "",
                   labels=labels)
    if scheme == "pkcs1":
        ref = rrsa.verify_pkcs1_v15(k.n, k.e, h, digest, bytes(sig))
    else:
        ref = rrsa.verify_pss(k.n, k.e, h, digest, bytes(sig), slen)
    if not ref:
        return bad("independent-verifier-rejects:rsa-" + scheme,
                   "key %s hash %s salt %d" % (name, h, slen), labels=labels)
    m = case["mut"]
    if m == "none":
        return good(nt=False, labels=labels)
    sig2, msg2, h2, scheme2, slen2, k2 = bytearray(sig), msg, h, scheme, \
        slen, k
    if m == "sig_bit":
        sig2[case["pos"] % len(sig2)] ^= 1 << (case["pos"] % 8)
    elif m == "msg_bit":
        mm = bytearray(msg or b"\x00")
        mm[case["pos"] % len(mm)] ^= 1 << (case["pos"] % 8)
        msg2 = bytes(mm)
        if msg2 == msg:
            return good(nt=False, labels=labels)
    elif m == "other_hash":
        h2 = HASHES[(HASHES.index(h) + 1 + case["pos"] % 4) % 5]
        if scheme == "pss":
            slen2 = slen
    elif m == "other_scheme":
        scheme2 = "pss" if scheme == "pkcs1" else "pkcs1"
    elif m == "other_key":
        other = [x for x in RSA_KEYS if x != name and
                 key(x).n.bit_length() == k.n.bit_length()]
        if not other:
            return good(nt=False, labels=labels)
        k2 = key(other[0])
    elif m == "salt_len":
        if scheme != "pss":
            return good(nt=False, labels=labels)
        slen2 = slen + 1
    elif m == "plus_n":
        v = int.from_bytes(sig, "big") + k.n
        if v.bit_length() > 8 * len(sig):
            sig2 = bytearray(v.to_bytes(len(sig) + 1, "big"))
        else:
            sig2 = bytearray(v.to_bytes(len(sig), "big"))
    elif m == "lead_zero":
        sig2 = bytearray(b"\x00") + sig2
    elif m == "truncate":
        sig2 = sig2[:-1]
    else:
        raise HarnessError(m)
    if scheme2 == "pkcs1" and k2.key_type == "rsa-pss":
        ref = False
    elif scheme2 == "pkcs1":
        d2 = hashlib.new(h2, msg2).digest()
        ref = rrsa.verify_pkcs1_v15(k2.n, k2.e, h2, d2, bytes(sig2))
    else:
        d2 = hashlib.new(h2, msg2).digest()
        ref = rrsa.verify_pss(k2.n, k2.e, h2, d2, bytes(sig2), slen2)
    ok, sigv = safe_verify(k2.hashAndVerify, sig2, bytearray(msg2),
                           scheme2.upper(), h2, slen2)
    if sigv:
        return bad(sigv, "mutation %s" % m, labels=labels)
    if ok and not ref:
        return bad("forgery-accepted:rsa-%s:%s" % (scheme, m),
                   "key %s hash %s" % (name, h), labels=labels)
    return good(labels=labels)


def do_rsa_noncanon(case):
    name, h = case["key"], case["hash"]
    k = key(name)
    n, d, e = k.n, k.d, k.e
    kb = (n.bit_length() + 7) // 8
    msg = prg("nc%d" % case["s"], 20)
    digest = hashlib.new(h, msg).digest()
    v = case["variant"]
    labels = ["rsa_noncanon", "key=" + name, "v=" + v]
    scheme = "pkcs1"
    slen = 0
    try:
        em_good = rrsa.emsa_pkcs1_v15(h, digest, kb)
    except ValueError:
        return good(nt=False, labels=labels)
    t = rrsa.DIGEST_INFO[h] + digest
    if v == "short_ps":
        # 7 bytes of 0xFF, then the rest filled with garbage after the hash
        em = b"\x00\x01" + b"\xff" * 7 + b"\x00" + t + \
            prg("g", kb - 10 - len(t))
    elif v == "garbage_after":
        g = 1 + case["pos"] % 8
        em = b"\x00\x01" + b"\xff" * (kb - len(t) - 3 - g) + b"\x00" + t + \
            prg("g2", g)
    elif v == "block_type":
        em = b"\x00" + bytes([[0, 2, 0xff][case["pos"] % 3]]) + em_good[2:]
    elif v == "non_ff":
        b = bytearray(em_good)
        b[2 + case["pos"] % (kb - len(t) - 3)] = 0xfe
        em = bytes(b)
    elif v == "missing_null":
        di = rrsa.DIGEST_INFO[h]
        # drop the NULL parameters: adjust the two SEQUENCE lengths
        di2 = bytearray(di)
        idx = di2.find(b"\x05\x00")
        del di2[idx:idx + 2]
        di2[1] -= 2
        di2[3] -= 2
        t2 = bytes(di2) + digest
        em = b"\x00\x01" + b"\xff" * (kb - len(t2) - 3) + b"\x00" + t2
        if h == "sha1":
            labels.append("documented-exception")
    elif v == "first_byte":
        em = b"\x01" + em_good[1:]
    elif v == "no_separator":
        em = b"\x00\x01" + b"\xff" * (kb - len(t) - 2) + t
    elif v.startswith("pss_"):
        scheme = "pss"
        hl = len(digest)
        slen = hl
        embits = n.bit_length() - 1
        emlen = (embits + 7) // 8
        if emlen < 2 * hl + 2:
            return good(nt=False, labels=labels)
        salt = prg("salt", slen)
        H = hashlib.new(h, b"\x00" * 8 + digest + salt).digest()
        ps = b"\x00" * (emlen - slen - hl - 2)
        db = bytearray(ps + b"\x01" + salt)
        trailer = 0xbc
        if v == "pss_db_pad":
            if not ps:
                return good(nt=False, labels=labels)
            db[case["pos"] % len(ps)] = 1
        elif v == "pss_no_01":
            db[len(ps)] = 2
        elif v == "pss_trailer":
            trailer = [0xbb, 0xcc, 0x00][case["pos"] % 3]
        mask = rrsa.mgf1(H, len(db), h)
        masked = bytearray(a ^ b for a, b in zip(db, mask))
        zbits = 8 * emlen - embits
        if v == "pss_top_bits":
            if not zbits:
                return good(nt=False, labels=labels)
            # one of the 8*emLen - emBits leftmost bits, all of which must
            # be zero (RFC 8017 9.1.2 step 6)
            masked[0] &= 0xff >> zbits
            masked[0] |= 0x80 >> (case["pos"] % zbits)
        elif zbits:
            masked[0] &= 0xff >> zbits
        em = bytes(masked) + H + bytes([trailer])
        em = b"\x00" * (kb - len(em)) + em
    else:
        raise HarnessError(v)
    if len(em) != kb:
        return good(nt=False, labels=labels + ["geometry"])
    m = int.from_bytes(em, "big")
    if m >= n:
        return good(nt=False, labels=labels + ["em>=n"])
    sig = pow(m, d, n).to_bytes(kb, "big")
    if scheme == "pkcs1":
        ref = rrsa.verify_pkcs1_v15(n, e, h, digest, sig)
    else:
        ref = rrsa.verify_pss(n, e, h, digest, sig, slen)
    if ref:
        raise HarnessError("reference accepts non-canonical encoding " + v)
    if name == "rsapss" and scheme == "pkcs1":
        return good(nt=False, labels=labels)
    ok, sigv = safe_verify(k.hashAndVerify, bytearray(sig), bytearray(msg),
                           scheme.upper(), h, slen)
    if sigv:
        return bad(sigv, v, labels=labels)
    if ok:
        if v == "missing_null" and h == "sha1":
            return good(labels=labels + ["accepted-documented"])
        return bad("non-canonical-accepted:" + v,
                   "key %s hash %s" % (name, h), labels=labels)
    return good(labels=labels)


# ---------------------------------------------------------------- ECDSA ---
def der_int(x):
    b = x.to_bytes((x.bit_length() + 8) // 8 or 1, "big")
    return b"\x02" + bytes([len(b)]) + b


def der_seq(body):
    if len(body) < 128:
        return b"\x30" + bytes([len(body)]) + body
    return b"\x30\x81" + bytes([len(body)]) + body


def der_parse_sig(sig):
    sig = bytes(sig)
    assert sig[0] == 0x30
    p = 2 if sig[1] < 128 else 2 + (sig[1] & 0x7f)
    assert sig[p] == 2
    lr = sig[p + 1]
    r = int.from_bytes(sig[p + 2:p + 2 + lr], "big")
    p += 2 + lr
    ls = sig[p + 1]
    s = int.from_bytes(sig[p + 2:p + 2 + ls], "big")
    return r, s


def dsa_like_negative(case, sig, order, labels, verify, kind):
    """Shared negative space for (r, s) signatures."""
    m = case["mut"]
    r, s = der_parse_sig(sig)
    if m == "sig_bit":
        b = bytearray(sig)
        b[case["pos"] % len(b)] ^= 1 << (case["pos"] % 8)
        sig2 = bytes(b)
    elif m == "r_zero":
        sig2 = der_seq(der_int(0) + der_int(s))
    elif m == "s_zero":
        sig2 = der_seq(der_int(r) + der_int(0))
    elif m == "r1_s0":
        # (s = 0 makes w = 0 and the recomputed value 1: a fixed forgery
        # unless the range check is strict)
        sig2 = der_seq(der_int(1) + der_int(0))
    elif m == "r0_s0":
        sig2 = der_seq(der_int(0) + der_int(0))
    elif m == "r1_sq":
        sig2 = der_seq(der_int(1) + der_int(order))
    elif m == "r_order":
        sig2 = der_seq(der_int(order) + der_int(s))
    elif m == "s_order":
        sig2 = der_seq(der_int(r) + der_int(order))
    elif m == "r_plus_order":
        sig2 = der_seq(der_int(r + order) + der_int(s))
    elif m == "s_plus_order":
        sig2 = der_seq(der_int(r) + der_int(s + order))
    elif m == "trailing":
        sig2 = bytes(sig) + b"\x00"
    elif m == "trailing_inside":
        body = der_int(r) + der_int(s) + b"\x05\x00"
        sig2 = der_seq(body)
    elif m == "long_form":
        body = der_int(r) + der_int(s)
        if len(body) >= 128:
            return None
        sig2 = b"\x30\x81" + bytes([len(body)]) + body
    elif m == "pad_int":
        ri = b"\x02" + bytes([len(der_int(r)) - 2 + 1]) + b"\x00" + \
            der_int(r)[2:]
        sig2 = der_seq(ri + der_int(s))
    elif m == "empty":
        sig2 = b""
    elif m == "truncate":
        sig2 = bytes(sig)[:-1 - case["pos"] % 5]
    else:
        raise HarnessError(m)
    return sig2


EC_MAXHASH = {"ecdsa": 32, "bp256": 32, "p384": 48, "p521": 64}


def do_ecdsa_sig(case):
    name, h = case["key"], case["hash"]
    k = key(name)
    labels = ["ecdsa_sig", "key=" + name, "mut=" + case["mut"]]
    # caller precondition (every call site truncates to the curve size):
    # the digest is not longer than the curve order
    if hashlib.new(h).digest_size > EC_MAXHASH[name]:
        h = {32: "sha256", 48: "sha384", 64: "sha512"}[EC_MAXHASH[name]]
    msg = prg("e%d" % case["s"], case["n"])
    sig = k.hashAndSign(bytearray(msg), hAlg=h)
    ok, sigv = safe_verify(k.hashAndVerify, sig, bytearray(msg), hAlg=h)
    if not ok:
        return bad("own-signature-rejected:ecdsa", sigv or "", labels=labels)
    if case["mut"] == "none":
        if case.get("ossl"):
            r = ossl_verify(name, h, msg, sig)
            if r is False:
                return bad("independent-verifier-rejects:ecdsa",
                           "%s %s" % (name, h), labels=labels)
            labels.append("openssl=%r" % r)
        return good(nt=False, labels=labels)
    if case["mut"] in ("msg_bit", "other_hash", "other_key"):
        msg2, h2, k2 = msg, h, k
        if case["mut"] == "msg_bit":
            mm = bytearray(msg or b"\x00")
            mm[case["pos"] % len(mm)] ^= 1 << (case["pos"] % 8)
            msg2 = bytes(mm)
            if msg2 == msg:
                return good(nt=False, labels=labels)
        elif case["mut"] == "other_hash":
            h2 = HASHES[(HASHES.index(h) + 1 + case["pos"] % 4) % 5]
            if hashlib.new(h2).digest_size > EC_MAXHASH[name]:
                h2 = "sha1" if h != "sha1" else "sha224"
        else:
            oname = [x for x in EC_KEYS if x != name][case["pos"] % 3]
            if hashlib.new(h).digest_size > EC_MAXHASH[oname]:
                return good(nt=False, labels=labels)
            k2 = key(oname)
        ok, sigv = safe_verify(k2.hashAndVerify, sig, bytearray(msg2),
                               hAlg=h2)
        if sigv:
            return bad(sigv, case["mut"], labels=labels)
        if ok:
            return bad("forgery-accepted:ecdsa:" + case["mut"], name,
                       labels=labels)
        return good(labels=labels)
    order = k.public_key.curve.order
    sig2 = dsa_like_negative(case, sig, order, labels, None, "ecdsa")
    if sig2 is None or sig2 == bytes(sig):
        return good(nt=False, labels=labels)
    ok, sigv = safe_verify(k.hashAndVerify, bytearray(sig2), bytearray(msg),
                           hAlg=h)
    if sigv:
        return bad(sigv, case["mut"], labels=labels)
    if ok:
        # valid by the scheme's mathematics? ask the independent verifier
        r = ossl_verify(name, h, msg, sig2)
        if r is True:
            return good(labels=labels + ["also-valid-for-openssl"])
        return bad("forgery-accepted:ecdsa:" + case["mut"],
                   "%s %s openssl=%r" % (name, h, r), labels=labels)
    return good(labels=labels)


def ref_dsa_z(k, digest):
    """FIPS 186-4, 4.6: the leftmost min(N, outlen) bits of the hash."""
    n = k.q.bit_length()
    z = int.from_bytes(digest, "big")
    if len(digest) * 8 > n:
        z >>= len(digest) * 8 - n
    return z


def ref_dsa_verify(k, digest, sig):
    from ecdsa.der import remove_sequence, remove_integer
    body, rest = remove_sequence(bytes(sig))
    r, body = remove_integer(body)
    s_, body = remove_integer(body)
    if rest or body or not (0 < r < k.q and 0 < s_ < k.q):
        return False
    w = pow(s_, -1, k.q)
    z = ref_dsa_z(k, digest)
    v = (pow(k.g, z * w % k.q, k.p) * pow(k.public_key, r * w % k.q, k.p)
         % k.p) % k.q
    return v == r


def ref_dsa_sign(k, digest, nonce):
    from ecdsa.der import encode_sequence, encode_integer
    r = pow(k.g, nonce, k.p) % k.q
    s_ = pow(nonce, -1, k.q) * (ref_dsa_z(k, digest) +
                                k.private_key * r) % k.q
    return encode_sequence(encode_integer(r), encode_integer(s_))


def do_dsa_sig(case):
    k = key("dsa")
    h = case["hash"]
    labels = ["dsa_sig", "mut=" + case["mut"]]
    msg = prg("d%d" % case["s"], case["n"])
    if case.get("lead0"):
        # a message whose digest starts with a zero octet (the integer is
        # shorter than the hash then)
        for j in range(100000):
            msg = prg("d%d/%d" % (case["s"], j), case["n"] or 1)
            if hashlib.new(h, msg).digest()[0] == 0:
                break
        labels.append("digest-leading-zero")
    DET.reseed("C10dsa", case["s"])
    sig = k.hashAndSign(bytearray(msg), h)
    ok, sigv = safe_verify(k.hashAndVerify, sig, bytearray(msg), h)
    if not ok:
        return bad("own-signature-rejected:dsa", sigv or "", labels=labels)
    if case["mut"] == "none":
        # both directions against the FIPS 186-4 computation
        digest = hashlib.new(h, msg).digest()
        if not ref_dsa_verify(k, digest, sig):
            return bad("independent-verifier-rejects:dsa:ref",
                       "%s, digest %s..." % (h, digest[:2].hex()),
                       labels=labels)
        nonce = 2 + int.from_bytes(prg("k%d" % case["s"], 40), "big") % (
            k.q - 3)
        ok2, sigv2 = safe_verify(k.hashAndVerify, bytearray(ref_dsa_sign(
            k, digest, nonce)), bytearray(msg), h)
        if not ok2:
            return bad("valid-signature-rejected:dsa",
                       "%s, digest %s...; %s" % (h, digest[:2].hex(),
                                                 sigv2 or ""), labels=labels)
        if case.get("ossl"):
            r = ossl_verify("dsa", h, msg, sig)
            if r is False:
                return bad("independent-verifier-rejects:dsa", h,
                           labels=labels)
            labels.append("openssl=%r" % r)
        return good(nt=False, labels=labels)
    if case["mut"] == "msg_bit":
        mm = bytearray(msg or b"\x00")
        mm[case["pos"] % len(mm)] ^= 1 << (case["pos"] % 8)
        if bytes(mm) == msg:
            return good(nt=False, labels=labels)
        ok, sigv = safe_verify(k.hashAndVerify, sig, mm, h)
        sig2 = sig
    elif case["mut"] in ("other_hash", "other_key"):
        return good(nt=False, labels=labels)
    else:
        sig2 = dsa_like_negative(case, sig, k.q, labels, None, "dsa")
        if sig2 is None or sig2 == bytes(sig):
            return good(nt=False, labels=labels)
        ok, sigv = safe_verify(k.hashAndVerify, bytearray(sig2),
                               bytearray(msg), h)
    if sigv:
        return bad(sigv + ":dsa", case["mut"], labels=labels)
    if ok:
        r = ossl_verify("dsa", h, msg, sig2)
        if r is True:
            return good(labels=labels + ["also-valid-for-openssl"])
        return bad("forgery-accepted:dsa:" + case["mut"], "openssl=%r" % r,
                   labels=labels)
    return good(labels=labels)


ED_L = {"ed25519": 2 ** 252 + 27742317777372353535851937790883648493,
        "ed448": 2 ** 446 -
        13818066809895115352007386748515426880336692474882178609894547503885}


def do_eddsa_sig(case):
    name = case["key"]
    k = key(name)
    labels = ["eddsa_sig", "key=" + name, "mut=" + case["mut"]]
    msg = prg("ed%d" % case["s"], case["n"])
    sig = k.hashAndSign(bytearray(msg))
    ok, sigv = safe_verify(k.hashAndVerify, sig, bytearray(msg))
    if not ok:
        return bad("own-signature-rejected:eddsa", sigv or "", labels=labels)
    m = case["mut"]
    if m == "none":
        if case.get("ossl"):
            r = ossl_verify(name, None, msg, sig)
            if r is False:
                return bad("independent-verifier-rejects:eddsa", name,
                           labels=labels)
            labels.append("openssl=%r" % r)
        return good(nt=False, labels=labels)
    sig2, msg2, k2 = bytearray(sig), bytearray(msg), k
    half = len(sig) // 2
    if m == "sig_bit":
        sig2[case["pos"] % len(sig2)] ^= 1 << (case["pos"] % 8)
    elif m == "msg_bit":
        if not msg2:
            msg2 = bytearray(b"\x00")
        else:
            msg2[case["pos"] % len(msg2)] ^= 1 << (case["pos"] % 8)
    elif m == "s_plus_order":
        s = int.from_bytes(sig[half:], "little") + ED_L[name]
        if s.bit_length() > 8 * half:
            return good(nt=False, labels=labels)
        sig2 = bytearray(sig[:half]) + bytearray(s.to_bytes(half, "little"))
    elif m == "truncate":
        sig2 = sig2[:-1]
    elif m == "trailing":
        sig2 = sig2 + b"\x00"
    elif m == "empty":
        sig2 = bytearray()
    elif m == "other_key":
        return good(nt=False, labels=labels)
    else:
        return good(nt=False, labels=labels)
    ok, sigv = safe_verify(k2.hashAndVerify, sig2, msg2)
    if sigv:
        return bad(sigv + ":eddsa", m, labels=labels)
    if ok:
        return bad("forgery-accepted:eddsa:" + m, name, labels=labels)
    return good(labels=labels)


# -------------------------------------------------------- key agreement ---
def do_ffdh(case):
    g = case["group"]
    labels = ["ffdh", "group=" + str(g), "bad=" + str(case.get("bad"))]
    ver = tuple(case["ver"])
    DET.reseed("C10ffdh", case["s"])
    if g == "custom":
        gen, prime = goodGroupParameters[case["s"] % 3]
        mk = lambda: FFDHKeyExchange(None, ver, gen, prime)     # noqa
    else:
        gid = getattr(GroupName, g)
        mk = lambda: FFDHKeyExchange(gid, ver)      # noqa
    a, b = mk(), mk()
    xa, xb = a.get_random_private_key(), b.get_random_private_key()
    ya, yb = a.calc_public_value(xa), b.calc_public_value(xb)
    if case.get("bad") is None:
        sa, sb = a.calc_shared_key(xa, yb), b.calc_shared_key(xb, ya)
        if bytes(sa) != bytes(sb):
            return bad("secrets-differ:ffdh", str(g), labels=labels)
        p = a.prime
        yb_i = yb if isinstance(yb, int) else int.from_bytes(yb, "big")
        want = pow(yb_i, xa, p)
        if int.from_bytes(sa, "big") != want:
            return bad("secret-wrong:ffdh", str(g), labels=labels)
        if case.get("lead0"):
            # a peer value for which Z starts with a zero byte (found by
            # search): TLS <= 1.2 strips leading zero bytes of Z (RFC 5246
            # 8.1.2), TLS 1.3 keeps Z as long as the prime (RFC 8446 7.4.1)
            nb = (p.bit_length() + 7) // 8
            for k in range(2, 4000):
                yk = pow(a.generator, k, p)
                z = pow(yk, xa, p)
                if z.bit_length() <= 8 * (nb - 1):
                    break
            else:
                return good(nt=False, labels=labels + ["no-lead0-found"])
            share = yk if ver < (3, 4) else bytearray(yk.to_bytes(nb, "big"))
            sz = bytes(a.calc_shared_key(xa, share))
            wantb = z.to_bytes(nb, "big") if ver >= (3, 4) else \
                z.to_bytes((z.bit_length() + 7) // 8, "big")
            if sz != wantb:
                return bad("secret-encoding:ffdh:%s" % (
                    "tls13" if ver >= (3, 4) else "tls12-"),
                    "Z has %d significant bytes, prime %d: got %d bytes" % (
                        (z.bit_length() + 7) // 8, nb, len(sz)),
                    labels=labels)
            return good(labels=labels + ["lead0"])
        return good(nt=False, labels=labels)
    p = a.prime
    if case["bad"] in ("long", "short"):
        # RFC 8446 4.2.8.1: the share is exactly as long as the prime
        if ver < (3, 4):
            return good(nt=False, labels=labels)
        nb = (p.bit_length() + 7) // 8
        yb_i = yb if isinstance(yb, int) else int.from_bytes(yb, "big")
        if case["bad"] == "long":
            share = bytearray(b"\x00" + yb_i.to_bytes(nb, "big"))
        else:
            share = bytearray((yb_i >> 8).to_bytes(nb - 1, "big"))
        try:
            a.calc_shared_key(xa, share)
        except (TLSIllegalParameterException, TLSDecodeError):
            return good(labels=labels)
        except Exception as e:      # noqa
            return bad("invalid-share-raises-%s:ffdh" % type(e).__name__,
                       case["bad"], labels=labels)
        return bad("invalid-share-accepted:ffdh:" + case["bad"], str(g),
                   labels=labels)
    val = {"zero": 0, "one": 1, "pm1": p - 1, "p": p, "pp1": p + 1,
           "2p": 2 * p, "neg": p + 5}[case["bad"]]
    if ver >= (3, 4):
        nb = (p.bit_length() + 7) // 8
        if val.bit_length() > 8 * nb:
            share = val.to_bytes(nb + 1, "big")
        else:
            share = val.to_bytes(nb, "big")
        share = bytearray(share)
    else:
        share = val
    try:
        s = a.calc_shared_key(xa, share)
    except (TLSIllegalParameterException, TLSDecodeError):
        return good(labels=labels)
    except Exception as e:      # noqa
        return bad("invalid-share-raises-%s:ffdh" % type(e).__name__,
                   case["bad"], labels=labels)
    return bad("invalid-share-accepted:ffdh:" + case["bad"], str(g),
               labels=labels)


X25519_LOW = [
    "0000000000000000000000000000000000000000000000000000000000000000",
    "0100000000000000000000000000000000000000000000000000000000000000",
    "e0eb7a7c3b41b8ae1656e3faf19fc46ada098deb9c32b1fd866205165f49b800",
    "5f9c95bca3508c24b1d0b1559c83ef5b04445cc4581c8e86d8224eddd09f1157",
    "ecffffffffffffffffffffffffffffffffffffffffffffffffffffffffffff7f",
    "edffffffffffffffffffffffffffffffffffffffffffffffffffffffffffff7f",
    "eeffffffffffffffffffffffffffffffffffffffffffffffffffffffffffff7f",
]


def ref_montgomery(k, u, bits):
    """RFC 7748 section 5, X25519 (bits=255) / X448 (bits=448)."""
    if bits == 255:
        p, a24 = 2 ** 255 - 19, 121665
        kb = bytearray(k)
        kb[0] &= 248
        kb[31] &= 127
        kb[31] |= 64
        ub = bytearray(u)
        ub[31] &= 127
    else:
        p, a24 = 2 ** 448 - 2 ** 224 - 1, 39081
        kb = bytearray(k)
        kb[0] &= 252
        kb[55] |= 128
        ub = bytearray(u)
    kn = int.from_bytes(kb, "little")
    x1 = int.from_bytes(ub, "little") % p
    x2, z2, x3, z3, swap = 1, 0, x1, 1, 0
    for t in reversed(range(bits if bits == 255 else 448)):
        kt = (kn >> t) & 1
        swap ^= kt
        if swap:
            x2, x3, z2, z3 = x3, x2, z3, z2
        swap = kt
        A, B = (x2 + z2) % p, (x2 - z2) % p
        AA, BB = A * A % p, B * B % p
        E = (AA - BB) % p
        C, D = (x3 + z3) % p, (x3 - z3) % p
        DA, CB = D * A % p, C * B % p
        x3 = (DA + CB) ** 2 % p
        z3 = x1 * (DA - CB) ** 2 % p
        x2 = AA * BB % p
        z2 = E * (AA + a24 * E) % p
    if swap:
        x2, x3, z2, z3 = x3, x2, z3, z2
    return (x2 * pow(z2, p - 2, p) % p).to_bytes(len(kb), "little")


def ref_curve(g):
    """the curve a group name denotes (RFC 8422 / 7027 / 8734), straight
    from python-ecdsa's table - not through tlslite's own name mapping"""
    import ecdsa
    return {"secp256r1": ecdsa.NIST256p, "secp384r1": ecdsa.NIST384p,
            "secp521r1": ecdsa.NIST521p, "secp256k1": ecdsa.SECP256k1,
            "brainpoolP256r1": ecdsa.BRAINPOOLP256r1,
            "brainpoolP384r1": ecdsa.BRAINPOOLP384r1,
            "brainpoolP512r1": ecdsa.BRAINPOOLP512r1,
            "brainpoolP256r1tls13": ecdsa.BRAINPOOLP256r1,
            "brainpoolP384r1tls13": ecdsa.BRAINPOOLP384r1,
            "brainpoolP512r1tls13": ecdsa.BRAINPOOLP512r1}[g]


def ecdh_against_reference(g, xa, ya, xb, yb, sa, labels):
    """public values and shared secret of party a against the definition of
    the named group"""
    if g in ("x25519", "x448"):
        bits = 255 if g == "x25519" else 448
        base = (9).to_bytes(32, "little") if bits == 255 else \
            (5).to_bytes(56, "little")
        if bytes(ya) != ref_montgomery(bytes(xa), base, bits):
            return bad("public-value-differs-from-reference:" + g, "",
                       labels=labels)
        if bytes(sa) != ref_montgomery(bytes(xa), bytes(yb), bits):
            return bad("shared-secret-differs-from-reference:" + g, "",
                       labels=labels)
        return None
    from ecdsa.ellipticcurve import Point
    cur = ref_curve(g)
    n = cur.baselen
    for who, y in (("a", ya), ("b", yb)):
        y = bytes(y)
        if len(y) != 1 + 2 * n or y[0] != 4:
            return bad("public-value-not-a-point-of-the-group:" + g,
                       "%d bytes, first %02x; the group's points take %d" % (
                           len(y), y[0] if y else 0, 1 + 2 * n),
                       labels=labels)
        px, py = int.from_bytes(y[1:1 + n], "big"), \
            int.from_bytes(y[1 + n:], "big")
        if not cur.curve.contains_point(px, py):
            return bad("public-value-not-a-point-of-the-group:" + g,
                       "not on the curve", labels=labels)
    pb = Point(cur.curve, int.from_bytes(bytes(yb)[1:1 + n], "big"),
               int.from_bytes(bytes(yb)[1 + n:], "big"))
    # (the private value is a python-ecdsa SigningKey or a plain number)
    ka = xa.privkey.secret_multiplier if hasattr(xa, "privkey") else int(xa)
    want = (pb * ka).x().to_bytes(n, "big")
    if bytes(sa) != want:
        return bad("shared-secret-differs-from-reference:" + g, "",
                   labels=labels)
    return None


def do_ecdh(case):
    g = case["group"]
    gid = getattr(GroupName, g)
    ver = tuple(case["ver"])
    labels = ["ecdh", "group=" + g, "bad=" + str(case.get("bad"))]
    DET.reseed("C10ecdh", case["s"])
    a, b = ECDHKeyExchange(gid, ver), ECDHKeyExchange(gid, ver)
    xa, xb = a.get_random_private_key(), b.get_random_private_key()
    ya, yb = a.calc_public_value(xa), b.calc_public_value(xb)
    badk = case.get("bad")
    if badk is None:
        sa, sb = a.calc_shared_key(xa, yb), b.calc_shared_key(xb, ya)
        if bytes(sa) != bytes(sb):
            return bad("secrets-differ:ecdh:" + g, "", labels=labels)
        r = ecdh_against_reference(g, xa, ya, xb, yb, sa, labels)
        if r:
            return r
        return good(labels=labels)
    yb = bytearray(yb)
    is_x = g in ("x25519", "x448")
    if badk == "zero":
        share = bytearray(len(yb))
    elif badk == "short":
        share = yb[:-1]
    elif badk == "long":
        share = yb + b"\x00"
    elif badk == "empty":
        share = bytearray()
    elif badk == "low_order":
        if g != "x25519":
            return good(nt=False, labels=labels)
        share = bytearray.fromhex(X25519_LOW[case["s"] % len(X25519_LOW)])
    elif badk == "off_curve":
        if is_x:
            return good(nt=False, labels=labels)
        share = bytearray(yb)
        share[-1] ^= 1
    elif badk == "infinity":
        if is_x:
            return good(nt=False, labels=labels)
        share = bytearray(b"\x00")
    elif badk == "compressed":
        if is_x:
            return good(nt=False, labels=labels)
        n = (len(yb) - 1) // 2
        share = bytearray([2 + (yb[-1] & 1)]) + yb[1:1 + n]
    elif badk == "bad_prefix":
        if is_x:
            return good(nt=False, labels=labels)
        share = bytearray([5]) + yb[1:]
    else:
        raise HarnessError(badk)
    try:
        s = a.calc_shared_key(xa, share)
    except (TLSIllegalParameterException, TLSDecodeError):
        return good(labels=labels)
    except Exception as e:      # noqa
        from vlib.driver import exc_site
        return bad("invalid-share-raises-%s@%s" % (type(e).__name__,
                                                   exc_site(e)),
                   "%s %s" % (g, badk), labels=labels)
    return bad("invalid-share-accepted:ecdh:%s:%s" % (
        "x" if is_x else "nist", badk), g, labels=labels)


# ------------------------------------------------------ fault injection ---
class FaultyKey(object):
    """Delegates to a real key; signing operations return corrupted output
    (models a computation fault); verification is honest."""

    def __init__(self, real, mode):
        object.__setattr__(self, "_real", real)
        object.__setattr__(self, "_mode", mode)
        object.__setattr__(self, "fired", 0)
        object.__setattr__(self, "armed", True)

    def __getattr__(self, name):
        return getattr(self._real, name)

    def __len__(self):
        return len(self._real)

    def _corrupt(self, sig):
        if not self.armed:
            return sig
        object.__setattr__(self, "fired", self.fired + 1)
        b = bytearray(sig)
        if self._mode == "flip_last":
            b[-1] ^= 0x01
        elif self._mode == "flip_mid":
            b[len(b) // 2] ^= 0x10
        elif self._mode == "zero":
            b = bytearray(len(b))
        return b

    def sign(self, *a, **kw):
        return self._corrupt(self._real.sign(*a, **kw))

    def hashAndSign(self, *a, **kw):
        return self._corrupt(self._real.hashAndSign(*a, **kw))


FAULT_FLAVOURS = {
    "tls10-dhe-rsa": dict(v="tls10", kx=["dhe_rsa"], cred="rsa", who="s"),
    "tls12-ecdhe-rsa": dict(v="tls12", kx=["ecdhe_rsa"], cred="rsa",
                            who="s"),
    "tls12-ecdhe-ecdsa": dict(v="tls12", kx=["ecdhe_ecdsa"], cred="ecdsa",
                              who="s"),
    "tls12-dhe-dsa": dict(v="tls12", kx=["dhe_dsa"], cred="dsa", who="s"),
    "tls12-ed25519": dict(v="tls12", kx=["ecdhe_ecdsa"], cred="ed25519",
                          who="s"),
    "tls13-rsa": dict(v="tls13", cred="rsa", who="s"),
    "tls13-ecdsa": dict(v="tls13", cred="p384", who="s"),
    "tls13-ed448": dict(v="tls13", cred="ed448", who="s"),
    "tls12-client-rsa": dict(v="tls12", kx=["ecdhe_rsa"], cred="rsa",
                             ccred="c_rsa", who="c"),
    "tls12-client-ecdsa": dict(v="tls12", kx=["ecdhe_rsa"], cred="rsa",
                               ccred="c_ecdsa", who="c"),
    "tls13-client-rsa": dict(v="tls13", cred="rsa", ccred="c_rsa", who="c"),
    "tls13-client-ed25519": dict(v="tls13", cred="rsa", ccred="c_ed25519",
                                 who="c"),
    "tls11-client-rsa": dict(v="tls11", kx=["rsa"], cred="rsa",
                             ccred="c_rsa", who="c"),
    # the fault strikes during post-handshake authentication
    "tls13-pha-rsa": dict(v="tls13", cred="rsa", ccred="c_rsa", who="c",
                          pha=True),
    "tls13-pha-ecdsa": dict(v="tls13", cred="rsa", ccred="c_ecdsa", who="c",
                            pha=True),
    "tls13-pha-ed25519": dict(v="tls13", cred="rsa", ccred="c_ed25519",
                              who="c", pha=True),
}


def do_fault(case):
    f = FAULT_FLAVOURS[case["fl"]]
    labels = ["fault", "fl=" + case["fl"], "mode=" + case["mode"]]
    v = sc.VER[f["v"]]
    kw = dict(minVersion=v, maxVersion=v)
    if "kx" in f:
        kw["keyExchangeNames"] = f["kx"]
    client = {"settings": sc.mk_settings(**kw)}
    server = {"settings": sc.mk_settings(**kw)}
    chain, skey = sc.cred(f["cred"])
    server["certChain"], server["privateKey"] = chain, skey
    fk = None
    if f["who"] == "s":
        fk = FaultyKey(skey, case["mode"])
        server["privateKey"] = fk
    if f.get("ccred"):
        cchain, ckey = sc.cred(f["ccred"])
        server["reqCert"] = not f.get("pha")
        client["certChain"], client["privateKey"] = cchain, ckey
        if f["who"] == "c":
            fk = FaultyKey(ckey, case["mode"])
            client["privateKey"] = fk
    DET.reseed("C10fault", case["fl"], case["mode"])
    if f.get("pha"):
        object.__setattr__(fk, "armed", False)
    p = sc.connect(client, server)
    if f.get("pha"):
        if not p.both_ok:
            raise BaselineBroken("pha-base-handshake", "%r %r" % (p.co, p.so))
        object.__setattr__(fk, "armed", True)
        from vlib.driver import drive
        outs, _ = drive({"s": p.s.request_post_handshake_auth()}, p.link,
                        on_stall="leave")
        if not outs["s"].ok:
            raise BaselineBroken("pha-request", repr(outs["s"]))
        oc = sc.do_read(p, "c", 10, 0)
        os_ = sc.do_read(p, "s", 10, 0)
        if not fk.fired:
            return good(nt=False, labels=labels + ["fault-site-not-reached"])
        labels.append("victim=" + (describe_exc(oc.exc) if oc.exc
                                   else oc.state))
        if oc.state != "exc":
            return bad("faulty-signature-not-noticed:" + case["fl"],
                       "client read gave %r after its post-handshake "
                       "signature was corrupted" % (oc,), labels=labels)
        d = describe_exc(os_.exc) if os_.exc else ""
        if "decrypt_error" in d or "TLSDecryptionFailed" in d or \
                p.s.session.clientCertChain is not None:
            return bad("faulty-signature-on-wire:tls13:" + case["fl"],
                       "the server received the corrupted CertificateVerify: "
                       "%s" % d, labels=labels)
        if not isinstance(oc.exc, (BaseTLSException, OSError)):
            return bad("fault-unrelated-exception:%s" % type(
                oc.exc).__name__, repr(oc.exc), labels=labels)
        return good(labels=labels)
    if not fk.fired:
        return good(nt=False, labels=labels + ["fault-site-not-reached"])
    vic, peer = (p.s, p.c) if f["who"] == "s" else (p.c, p.s)
    vout, pout = (p.so, p.co) if f["who"] == "s" else (p.co, p.so)
    labels.append("victim=" + (describe_exc(vout.exc) if vout.exc
                               else vout.state))
    if vout.ok:
        return bad("faulty-signature-handshake-completes:" + case["fl"],
                   "victim completed although its signature was corrupted",
                   labels=labels)
    if pout.ok:
        return bad("peer-completes-after-fault:" + case["fl"], "",
                   labels=labels)
    # nothing signed may have left the victim: after the fault the victim
    # may only have sent an alert
    side = f["who"]
    recs, _ = records(p.link.wire(side))
    if f["who"] == "s" and v < (3, 4):
        # plaintext flight: there must be no ServerKeyExchange
        from vlib.tap import plaintext_flight
        msgs, _, _ = plaintext_flight(p.link.wire("s"))
        if any(t == 12 for t, _ in msgs):
            return bad("faulty-signature-on-wire:ske:" + case["fl"],
                       "ServerKeyExchange was sent", labels=labels)
    elif f["who"] == "c" and v < (3, 4):
        from vlib.tap import plaintext_flight
        msgs, _, _ = plaintext_flight(p.link.wire("c"))
        if any(t == 15 for t, _ in msgs):
            return bad("faulty-signature-on-wire:cv:" + case["fl"],
                       "CertificateVerify was sent", labels=labels)
    else:
        # TLS 1.3: the peer must not have received a CertificateVerify:
        # it fails while still waiting for it (not with decrypt_error on a
        # bad signature)
        e = pout.exc
        d = describe_exc(e)
        if "decrypt_error" in d or "TLSDecryptionFailed" in d:
            return bad("faulty-signature-on-wire:tls13:" + case["fl"],
                       "peer saw a signature and rejected it: %s" % d,
                       labels=labels)
    if not isinstance(vout.exc, (BaseTLSException, OSError)):
        return bad("fault-unrelated-exception:%s" % type(vout.exc).__name__,
                   repr(vout.exc), labels=labels)
    return good(labels=labels)


# ---------------------------------------------------------------------------
MUTS_RS = ["none", "sig_bit", "msg_bit", "other_hash", "other_key", "r_zero",
           "s_zero", "r1_s0", "r0_s0", "r1_sq", "r_order", "s_order", "r_plus_order", "s_plus_order",
           "trailing", "trailing_inside", "long_form", "pad_int", "empty",
           "truncate"]
NONCANON = ["short_ps", "garbage_after", "block_type", "non_ff",
            "missing_null", "first_byte", "no_separator", "pss_db_pad",
            "pss_no_01", "pss_trailer", "pss_top_bits"]


@st.composite
def cases(draw, tier):
    f = draw(st.sampled_from(["rsa_sig", "rsa_sig", "rsa_noncanon",
                              "ecdsa_sig", "ecdsa_sig", "dsa_sig",
                              "eddsa_sig", "ffdh", "ecdh", "ecdh"]))
    s = draw(st.integers(0, 10 ** 6))
    pos = draw(st.integers(0, 5000))
    n = draw(st.sampled_from([0, 1, 20, 64, 200]))
    c = {"f": f, "s": s, "pos": pos, "n": n}
    if f == "rsa_sig":
        c.update(key=draw(st.sampled_from(RSA_KEYS + ["rsa1024"] * 2)),
                 scheme=draw(st.sampled_from(["pkcs1", "pss"])),
                 hash=draw(st.sampled_from(HASHES)),
                 salt=draw(st.sampled_from(["hash", "hash", "zero",
                                            "short"])),
                 mut=draw(st.sampled_from(
                     ["none", "sig_bit", "sig_bit", "msg_bit", "other_hash",
                      "other_scheme", "other_key", "salt_len", "plus_n",
                      "lead_zero", "truncate"])))
    elif f == "rsa_noncanon":
        c.update(key=draw(st.sampled_from(["rsa1024", "rsa", "rsapss"])),
                 hash=draw(st.sampled_from(HASHES)),
                 variant=draw(st.sampled_from(NONCANON)))
    elif f == "ecdsa_sig":
        c.update(key=draw(st.sampled_from(EC_KEYS)),
                 hash=draw(st.sampled_from(HASHES)),
                 mut=draw(st.sampled_from(MUTS_RS)),
                 ossl=draw(st.integers(0, 30)) == 0)
    elif f == "dsa_sig":
        c.update(hash=draw(st.sampled_from(HASHES)),
                 mut=draw(st.sampled_from(MUTS_RS)),
                 ossl=draw(st.integers(0, 30)) == 0)
        if c["mut"] == "none" and draw(st.booleans()):
            c["lead0"] = True
    elif f == "eddsa_sig":
        c.update(key=draw(st.sampled_from(ED_KEYS)),
                 mut=draw(st.sampled_from(
                     ["none", "sig_bit", "sig_bit", "msg_bit",
                      "s_plus_order", "truncate", "trailing", "empty"])),
                 ossl=draw(st.integers(0, 30)) == 0)
    elif f == "ffdh":
        c.update(group=draw(st.sampled_from(["ffdhe2048", "ffdhe3072",
                                             "custom"])),
                 ver=draw(st.sampled_from([[3, 3], [3, 4]])),
                 bad=draw(st.sampled_from([None, "zero", "one", "pm1", "p",
                                           "pp1", "2p", "long", "short"])))
        if c["group"] == "custom":
            c["ver"] = [3, 3]
    elif f == "ecdh":
        c.update(group=draw(st.sampled_from(
            ["secp256r1", "secp384r1", "secp521r1", "brainpoolP256r1",
             "x25519", "x448", "x25519", "brainpoolP384r1",
             "brainpoolP512r1", "brainpoolP256r1tls13",
             "brainpoolP384r1tls13", "brainpoolP512r1tls13"])),
            ver=draw(st.sampled_from([[3, 3], [3, 4]])),
            bad=draw(st.sampled_from(
                [None, "zero", "short", "long", "empty", "low_order",
                 "off_curve", "infinity", "compressed", "bad_prefix"])))
    return c


def strategy(tier):
    return cases(tier)


def budget(tier):
    return 3000 if tier == "quick" else 80000


def explicit(tier, seed):
    for fl in sorted(FAULT_FLAVOURS):
        for mode in ("flip_last", "flip_mid", "zero"):
            yield {"f": "fault", "fl": fl, "mode": mode}
    for name in RSA_KEYS:
        for v in NONCANON:
            for h in ("sha1", "sha256", "sha512"):
                yield {"f": "rsa_noncanon", "key": name, "hash": h,
                       "variant": v, "s": seed, "pos": 3, "n": 20}
                if v == "pss_top_bits":
                    for pos in range(8):
                        yield {"f": "rsa_noncanon", "key": name, "hash": h,
                               "variant": v, "s": seed + pos, "pos": pos,
                               "n": 20 + pos}
    for name in EC_KEYS:
        yield {"f": "ecdsa_sig", "key": name, "hash": "sha256",
               "mut": "none", "ossl": True, "s": seed, "pos": 0, "n": 33}
        for m in MUTS_RS[1:]:
            yield {"f": "ecdsa_sig", "key": name, "hash": "sha384",
                   "mut": m, "s": seed, "pos": 11, "n": 33}
    for m in MUTS_RS:
        if m == "none":
            for hh in ("sha1", "sha256", "sha384", "sha512"):
                for sd in range(3):
                    yield {"f": "dsa_sig", "hash": hh, "mut": "none",
                           "s": sd, "n": 20 + sd, "lead0": True}
        yield {"f": "dsa_sig", "hash": "sha256", "mut": m,
               "ossl": m == "none", "s": seed, "pos": 13, "n": 20}
    for name in ED_KEYS:
        for m in ("none", "sig_bit", "msg_bit", "s_plus_order", "truncate",
                  "trailing", "empty"):
            yield {"f": "eddsa_sig", "key": name, "mut": m,
                   "ossl": m == "none", "s": seed, "pos": 17, "n": 20}
    for grp in ("ffdhe2048", "ffdhe3072"):
        for b in ("long", "short", "zero", "one", "pm1", "p"):
            yield {"f": "ffdh", "group": grp, "ver": [3, 4], "bad": b,
                   "s": seed, "pos": 0, "n": 0}
    for grp, vers in (("custom", ([3, 1], [3, 3])),
                      ("ffdhe2048", ([3, 3], [3, 4]))):
        for ver in vers:
            for k in range(3):
                yield {"f": "ffdh", "group": grp, "ver": ver, "bad": None,
                       "lead0": True, "s": seed + k, "pos": 0, "n": 0}
    for grp in ("secp256r1", "secp384r1", "secp521r1", "brainpoolP256r1",
                "brainpoolP384r1", "brainpoolP512r1", "brainpoolP256r1tls13",
                "brainpoolP384r1tls13", "brainpoolP512r1tls13", "x25519",
                "x448"):
        for ver in ([3, 3], [3, 4]):
            yield {"f": "ecdh", "group": grp, "ver": ver, "bad": None,
                   "s": seed, "pos": 0, "n": 0}
    for i, lo in enumerate(X25519_LOW):
        yield {"f": "ecdh", "group": "x25519", "ver": [3, 4],
               "bad": "low_order", "s": i, "pos": 0, "n": 0}
