"""C04 - tampering with the handshake in flight cannot yield two endpoints
that disagree (or agree on something weaker than the honest outcome)."""
import hashlib

from hypothesis import strategies as st

from vlib.runner import good, bad, HarnessError, BaselineBroken
from vlib.det import DET
from vlib import scenario as sc
from vlib import tap
from vlib.wire import records
from vlib.driver import describe_exc
from props.c03 import view

from tlslite.errors import TLSLocalAlert, BaseTLSException
from tlslite.constants import AlertDescription as AD

ID = "C04"
LEVEL = "fault_enumeration"
RULE = ("base scenario (9: TLS range negotiation with RSA/ECDSA, DHE, "
        "SRP, anon, client auth, HRR, ticket / session-id / PSK "
        "resumption) x one on-path action: XOR mask at a byte position of "
        "any record of any flight (quick: every header byte, first/middle/"
        "last body byte and 6 drawn offsets per record; thorough: every "
        "byte position x 3 masks for plaintext flights), record drop / "
        "duplicate / swap, and semantic rewrites of the hello messages "
        "(lower client_version, remove versions / suites / groups / "
        "signature algorithms, strip EMS / EtM / ALPN / record_size_limit / "
        "key_share / pre_shared_key / tickets, add or remove "
        "FALLBACK_SCSV, rewrite ServerHello version / suite / extensions, "
        "clear or forge the downgrade sentinel). Oracle: never both "
        "complete with different view vectors or with (version, suite, "
        "group, EMS, EtM) different from the honest run. non-trivial = the "
        "action changed at least one byte delivered to an endpoint; "
        "distinct = (scenario, action)")
ASSUMPTIONS = [
    "the attacker has no keys: protected records are only flipped/dropped/"
    "duplicated/swapped",
    "both completing with the honest parameters after a change that is not "
    "transcript-relevant (record header version, re-framing) is fine",
]
MAX_WALL = {"quick": 240, "thorough": 3000}

SCEN = {
    "default": dict(),
    "ecdsa": dict(cred="ecdsa"),
    "tls12-dhe": dict(max="tls12", kx=["dhe_rsa"]),
    "tls12-rsa-etm": dict(max="tls12", kx=["rsa"],
                          ciphers=["aes128", "aes256"]),
    "tls12-auth": dict(max="tls12", reqCert=True, ccred="c_rsa", alpn=True),
    "tls13-auth-alpn": dict(reqCert=True, ccred="c_ecdsa", alpn=True,
                            sni="example.com"),
    "hrr": dict(hrr=True),
    "srp": dict(max="tls12", srp=True),
    "anon": dict(max="tls12", anon=True),
    "tls12-tickets": dict(max="tls12", tickets=True),
    "tls10-tickets": dict(max="tls10", tickets=True, kx=["dhe_rsa"]),
    "resume-id": dict(max="tls12", resume="id"),
    "resume-ticket": dict(max="tls12", resume="ticket"),
    "resume-psk": dict(resume="psk"),
}
SCEN_NAMES = sorted(SCEN)


def init(tier, seed):
    DET.install()


def build(name):
    f = SCEN[name]
    ckw = dict(minVersion=(3, 1))
    skw = dict(minVersion=(3, 1))
    if f.get("max"):
        ckw["maxVersion"] = sc.VER[f["max"]]
        skw["maxVersion"] = sc.VER[f["max"]]
    if f.get("kx"):
        ckw["keyExchangeNames"] = f["kx"]
        skw["keyExchangeNames"] = f["kx"]
    if f.get("ciphers"):
        ckw["cipherNames"] = f["ciphers"]
        skw["cipherNames"] = f["ciphers"]
    if f.get("hrr"):
        ckw["keyShares"] = ["x25519"]
        ckw["eccCurves"] = ["x25519", "secp256r1"]
        skw["eccCurves"] = ["secp256r1", "secp384r1"]
        skw["keyShares"] = ["secp256r1"]
    if f.get("resume") in ("ticket", "psk") or f.get("tickets"):
        skw["ticketKeys"] = [bytearray(b"K" * 32)]
    client = {"settings": sc.mk_settings(**ckw)}
    server = {"settings": sc.mk_settings(**skw)}
    if f.get("srp"):
        client["mode"] = "srp"
        server["verifierDB"] = sc.srp_db()
    elif f.get("anon"):
        client["mode"] = "anon"
        server["anon"] = True
    else:
        server["cred"] = f.get("cred", "rsa")
    if f.get("reqCert"):
        server["reqCert"] = True
        client["cred"] = f["ccred"]
    if f.get("alpn"):
        client["alpn"] = [bytearray(b"h2"), bytearray(b"http/1.1")]
        server["alpn"] = [bytearray(b"http/1.1"), bytearray(b"h2")]
    if f.get("sni"):
        client["serverName"] = f["sni"]
    return client, server, f


def run(name, mitm):
    """Returns the Pair of the (second, if resumption) handshake."""
    client, server, f = build(name)
    DET.reseed("C04", name)
    if f.get("resume"):
        from tlslite.api import SessionCache
        cache = SessionCache()
        server["sessionCache"] = cache
        p0 = sc.connect(client, server)
        if not p0.both_ok:
            raise BaselineBroken("first-handshake:" + name, "%r %r" % (p0.co, p0.so))
        sc.do_write(p0, "s", b"x")
        sc.read_all(p0, "c")
        sc.do_close(p0, "c")
        sc.read_all(p0, "s")
        client = dict(client)
        client["session"] = p0.c.session
        DET.reseed("C04", name, "second")
    return sc.connect(client, server, mitm=mitm)


_honest = {}


def honest(name):
    if name not in _honest:
        log = {"c2s": [], "s2c": []}

        def mitm(direction, idx, rec):
            log[direction].append((rec["type"], rec["len"]))
            return [rec["hdr"] + rec["body"]]
        p = run(name, mitm)
        if not p.both_ok:
            raise BaselineBroken("scenario:" + name, "%r %r" % (p.co, p.so))
        vc, vs = views(p)
        if vc != vs:
            raise BaselineBroken("views-differ:" + name, "")
        key = params(p)
        _honest[name] = (log, key, bool(p.c.resumed))
    return _honest[name]


def views(p):
    vc, vs = view(p.c), view(p.s)
    if p.c.resumed or p.s.resumed:
        # no chains are exchanged in a resumed handshake
        for v in (vc, vs):
            v.pop("serverCertChain", None)
            v.pop("clientCertChain", None)
    return vc, vs


def params(p):
    c = p.c
    return (tuple(c.version), c.session.cipherSuite, c.ecdhCurve,
            bool(c.session.extendedMasterSecret),
            bool(c.session.encryptThenMAC),
            bytes(c.session.appProto or b""))


# ---------------------------------------------------------------------------
def rewrite_ch(body, op, arg):
    h = tap.parse_client_hello(body)
    exts = tap.ext_list(h)
    ver, suites = h["version"], list(h["suites"])

    def drop(t):
        return [(a, b) for a, b in exts if a != t]
    if op == "lower_version":
        ver = (3, [1, 2, 3][arg % 3])
        exts = drop(43)
    elif op == "strip_tls13":
        # remove TLS 1.3 from supported_versions
        new = []
        for a, b in exts:
            if a == 43:
                vs = [b[i:i + 2] for i in range(1, len(b), 2)]
                vs = [v for v in vs if v != b"\x03\x04"]
                if not vs:
                    continue
                body2 = b"".join(vs)
                new.append((a, bytes([len(body2)]) + body2))
            else:
                new.append((a, b))
        exts = new
    elif op == "drop_versions_ext":
        exts = drop(43)
    elif op == "keep_weakest_suite":
        suites = [suites[-1 - arg % min(3, len(suites))]] + \
            [s for s in suites if s in (0xff, 0x5600)]
    elif op == "drop_first_suites":
        suites = suites[1 + arg % max(1, len(suites) - 1):] or suites[-1:]
    elif op == "strip_ext":
        t = [23, 22, 16, 28, 51, 41, 35, 10, 13, 45, 0, 27, 15, 11][arg % 14]
        exts = drop(t)
    elif op == "add_scsv":
        suites = suites + [0x5600]
    elif op == "drop_scsv":
        suites = [s for s in suites if s != 0x5600]
    elif op == "first_group_only":
        new = []
        for a, b in exts:
            if a == 10 and len(b) >= 4:
                g = b[2 + 2 * (arg % ((len(b) - 2) // 2)):][:2]
                new.append((a, b"\x00\x02" + g))
            else:
                new.append((a, b))
        exts = new
    elif op == "sigalgs_sha1":
        exts = [(a, (b"\x00\x02\x02\x01" if a == 13 else b))
                for a, b in exts]
    else:
        raise HarnessError(op)
    return tap.build_client_hello(ver, h["random"], h["session_id"], suites,
                                  exts)


def rewrite_sh(body, op, arg):
    h = tap.parse_server_hello(body)
    exts = tap.parse_server_hello_exts_ordered(body)
    legacy = bytes(body[0:2])
    rnd = bytearray(h["random"])
    suite = h["suite"]
    if op == "version":
        legacy = bytes([3, [1, 2, 3][arg % 3]])
        if exts:
            exts = [(a, b) for a, b in exts if a != 43]
    elif op == "suite":
        suite = [0x002f, 0x0035, 0xc013, 0x1301, 0x1303, 0x009c][arg % 6]
    elif op == "strip_ext":
        if not exts:
            return None
        del exts[arg % len(exts)]
    elif op == "clear_sentinel":
        rnd[-8:] = hashlib.sha256(bytes(rnd)).digest()[:8]
    elif op == "forge_sentinel":
        rnd[-8:] = b"DOWNGRD" + bytes([arg % 2])
    elif op == "add_ems":
        exts = (exts or []) + [(23, b"")]
    elif op == "add_etm":
        exts = (exts or []) + [(22, b"")]
    elif op == "alpn_other":
        exts = [(a, (b"\x00\x03\x02h2" if a == 16 else b))
                for a, b in (exts or [])]
    else:
        raise HarnessError(op)
    return tap.build_server_hello(legacy, bytes(rnd), h["session_id"], suite,
                                  exts, h["compression"])


def check(case):
    if case["k"] == "scsv":
        return check_scsv(case)
    name = case["sc"]
    log, hkey, hres = honest(name)
    act = case["act"]
    labels = ["sc=" + name, "act=" + act[0]]
    state = {"changed": False, "held": None}

    def mitm(direction, idx, rec):
        raw = rec["hdr"] + rec["body"]
        a = act[0]
        if a == "xor":
            if direction == act[1] and idx == act[2] % max(
                    1, len(log[act[1]])):
                b = bytearray(raw)
                pos = act[3] % len(b)
                b[pos] ^= act[4] or 1
                state["changed"] = True
                state["where"] = "hdr%d" % pos if pos < 5 else "body"
                return [bytes(b)]
        elif a in ("drop", "dup", "swap"):
            n = max(1, len(log[act[1]]))
            tgt = act[2] % n
            if direction == act[1]:
                if state["held"] is not None:
                    h = state["held"]
                    state["held"] = None
                    return [raw, h]
                if idx == tgt:
                    state["changed"] = True
                    if a == "drop":
                        return []
                    if a == "dup":
                        return [raw, raw]
                    if a == "swap":
                        state["held"] = raw
                        return []
        elif a == "ch" and direction == "c2s" and rec["type"] == 22 and \
                not state["changed"]:
            msgs, rest = tap.split_hs(rec["body"])
            if msgs and msgs[0][0] == 1 and not rest:
                new = rewrite_ch(msgs[0][1], act[1], act[2])
                if new is not None and new[4:] != msgs[0][1]:
                    state["changed"] = True
                    out = new + b"".join(
                        bytes([t]) + len(b).to_bytes(3, "big") + b
                        for t, b in msgs[1:])
                    return [tap.record(22, rec["ver"], out)]
        elif a == "sh" and direction == "s2c" and rec["type"] == 22 and \
                not state["changed"]:
            msgs, rest = tap.split_hs(rec["body"])
            if msgs and msgs[0][0] == 2:
                new = rewrite_sh(msgs[0][1], act[1], act[2])
                if new is not None and new[4:] != msgs[0][1]:
                    state["changed"] = True
                    out = new + b"".join(
                        bytes([t]) + len(b).to_bytes(3, "big") + b
                        for t, b in msgs[1:]) + rest
                    return [tap.record(22, rec["ver"], out)]
        return [raw]
    p = run(name, mitm)
    if not state["changed"]:
        return good(nt=False, labels=labels + ["not-applied"])
    labels.append("c=" + (describe_exc(p.co.exc) if p.co.exc
                          else p.co.state))
    labels.append("s=" + (describe_exc(p.so.exc) if p.so.exc
                          else p.so.state))
    for o in (p.co, p.so):
        if o.state == "exc" and not isinstance(o.exc, (BaseTLSException,
                                                       OSError)):
            from vlib.driver import exc_site
            return bad("unrelated-exception:%s@%s" % (
                type(o.exc).__name__, exc_site(o.exc)), repr(case),
                labels=labels)
    sig_act = act[0] + (":" + str(act[1]) if act[0] in ("ch", "sh") else "")
    # downgrade sentinel: two TLS 1.3 capable endpoints pushed to <= 1.2 by
    # an edited ClientHello - the client must stop at the ServerHello
    if act[0] == "ch" and act[1] in ("strip_tls13", "drop_versions_ext",
                                     "lower_version") and \
            hkey[0] == (3, 4):
        msgs, _, _ = tap.plaintext_flight(p.link.wire("s"))
        shs = [tap.parse_server_hello(b) for t, b in msgs if t == 2]
        if shs and shs[0]["version"] < (3, 4) and not shs[0]["hrr"]:
            labels.append("downgraded-server-hello")
            recs, _ = records(p.link.wire("c"))
            later = [r for r in recs[1:] if r["type"] != 21]
            e = p.co.exc
            if later or not (isinstance(e, TLSLocalAlert) and
                             e.description == AD.illegal_parameter):
                return bad("downgrade-sentinel-not-enforced:" + act[1],
                           "client went on after a downgraded ServerHello "
                           "(%d more records, outcome %s)" % (
                               len(later), describe_exc(e)), labels=labels)
    if not p.both_ok:
        # a one-sided completion must not survive the next read
        return good(labels=labels + ["not-both-complete"])
    vc, vs = views(p)
    for k in sorted(vc):
        if vc[k] != vs[k]:
            return bad("tampering-yields-disagreement:%s:%s:%s" % (
                name, sig_act, k),
                "both completed; client %r / server %r; case=%r" % (
                    str(vc[k])[:60], str(vs[k])[:60], case), labels=labels)
    # both completed: then each side's *view of the handshake messages
    # exchanged* must be the same too - every handshake byte is covered by
    # the Finished / transcript hash (incl. the first ClientHello of a
    # HelloRetryRequest flow), so an endpoint that completes on messages
    # other than those its peer sent holds a different view of the
    # negotiation even when the derived secrets happen to agree
    v13 = tuple(p.c.version) == (3, 4)

    def hs_plain(stream):
        buf = b""
        for r in records(stream)[0]:
            if r["type"] == 22:
                buf += r["body"]
            elif r["type"] == 20 and v13:
                continue        # compatibility CCS: ignorable by design
            else:
                break
        return [m for m in tap.split_hs(buf)[0] if m[0] != 0]
    for src, dst in (("c", "s"), ("s", "c")):
        sent = hs_plain(p.link.wire(src))
        recv = hs_plain(p.link.delivered(dst))
        if sent != recv:
            k = 0
            while k < min(len(sent), len(recv)) and sent[k] == recv[k]:
                k += 1
            t = (sent[k][0] if k < len(sent) else recv[k][0])
            return bad("tampered-handshake-bytes-undetected:%s:%s:msg%d" % (
                name, sig_act, t),
                "both completed although %s received handshake messages "
                "other than those %s sent (first difference at message %d, "
                "type %d); case=%r" % (dst, src, k, t, case), labels=labels)
    got = params(p)
    if got != hkey:
        return bad("tampering-changes-negotiation:%s:%s" % (name, sig_act),
                   "honest %r, tampered %r; case=%r" % (hkey, got, case),
                   labels=labels)
    if bool(p.c.resumed) != hres:
        labels.append("resumption-changed")
    return good(labels=labels + ["both-complete-same-as-honest"])


def check_scsv(case):
    """FALLBACK_SCSV and downgrade-sentinel enforcement."""
    cmax, smax, scsv = tuple(case["cmax"]), tuple(case["smax"]), case["scsv"]
    labels = ["scsv", "cmax=%s" % sc.VERNAME[cmax], "smax=%s" %
              sc.VERNAME[smax], "scsv=%r" % scsv]
    extra = {}
    if case.get("sess"):
        # a suite every version can use, so that the cached session can be
        # offered again at the lower version
        extra = dict(cipherNames=["aes128"], macNames=["sha"])
        labels.append("with-session")
    client = {"settings": sc.mk_settings(minVersion=(3, 0), maxVersion=cmax,
                                         sendFallbackSCSV=scsv, **extra)}
    server = {"cred": "rsa", "settings": sc.mk_settings(minVersion=(3, 0),
                                                        maxVersion=smax,
                                                        **extra)}
    if case.get("sess"):
        from tlslite.api import SessionCache
        server["sessionCache"] = SessionCache()
        if case["sess"] == "ticket":
            server["settings"].ticketKeys = [bytearray(b"s" * 32)]
        first = {"settings": sc.mk_settings(
            minVersion=(3, 0), maxVersion=max(cmax, min(smax, (3, 3))),
            **extra)}
        DET.reseed("C04scsv-first", cmax, smax)
        p0 = sc.connect(first, dict(server))
        if not p0.both_ok:
            return good(nt=False, labels=labels + ["no-first-session"])
        sc.do_write(p0, "s", b"x")
        sc.read_all(p0, "c")
        client["session"] = p0.c.session
    DET.reseed("C04scsv", cmax, smax, scsv)
    try:
        p = sc.connect(client, server)
    except ValueError:
        return good(nt=False, labels=labels + ["session-refused-by-api"])
    if isinstance(p.co.exc, ValueError):
        return good(nt=False, labels=labels + ["session-refused-by-api"])
    # what the client put on the wire
    from vlib import tap
    try:
        ch = tap.parse_client_hello(
            tap.plaintext_flight(p.link.wire("c"))[0][0][1])
        if scsv and 0x5600 not in ch["suites"]:
            return bad("client-omits-fallback-scsv",
                       "sendFallbackSCSV=True but the ClientHello carries "
                       "suites %r" % (ch["suites"],), labels=labels)
    except (IndexError, KeyError, ValueError):
        pass
    if cmax == (3, 4) and smax == (3, 0):
        # a TLS 1.3 capable client does not list SSLv3 in
        # supported_versions: no common version, unrelated to the SCSV
        return good(nt=False, labels=labels + ["no-common-version"])
    must_refuse = scsv and cmax < smax
    if must_refuse:
        if p.both_ok or p.so.ok:
            return bad("fallback-scsv-not-enforced:%s<%s" % (
                sc.VERNAME[cmax], sc.VERNAME[smax]), "", labels=labels)
        e = p.so.exc
        if not (isinstance(e, TLSLocalAlert) and
                e.description == AD.inappropriate_fallback):
            return bad("fallback-scsv-wrong-alert", describe_exc(e),
                       labels=labels)
        return good(labels=labels)
    if case.get("sess"):
        # whether and how the offered session is resumed across a version
        # change is C13's subject; here only the SCSV clauses are judged
        return good(nt=scsv, labels=labels + [
            "completed" if p.both_ok else "failed"])
    if not p.both_ok:
        return bad("scsv-refuses-legitimate-handshake:%s/%s" % (
            sc.VERNAME[cmax], sc.VERNAME[smax]), "%r %r" % (p.co, p.so),
            labels=labels)
    return good(nt=scsv, labels=labels)


# ---------------------------------------------------------------------------
CH_OPS = ["lower_version", "strip_tls13", "drop_versions_ext",
          "keep_weakest_suite", "drop_first_suites", "strip_ext", "add_scsv",
          "first_group_only", "sigalgs_sha1"]
SH_OPS = ["version", "suite", "strip_ext", "clear_sentinel",
          "forge_sentinel", "add_ems", "add_etm", "alpn_other"]


def act_strategy():
    i = st.integers(0, 3000)
    d = st.sampled_from(["c2s", "s2c"])
    return st.one_of(
        st.tuples(st.just("xor"), d, st.integers(0, 12), i,
                  st.sampled_from([1, 0x80, 0xff])),
        st.tuples(st.just("xor"), d, st.integers(0, 12), i,
                  st.sampled_from([1, 0x80, 0xff])),
        st.tuples(st.sampled_from(["drop", "dup", "swap"]), d,
                  st.integers(0, 12)),
        st.tuples(st.just("ch"), st.sampled_from(CH_OPS), st.integers(0, 40)),
        st.tuples(st.just("sh"), st.sampled_from(SH_OPS), st.integers(0, 40)),
    ).map(list)


@st.composite
def cases(draw, tier):
    return {"k": "mitm", "sc": draw(st.sampled_from(SCEN_NAMES)),
            "act": draw(act_strategy())}


def strategy(tier):
    return cases(tier)


def budget(tier):
    return 1200 if tier == "quick" else 40000


def explicit(tier, seed):
    for name in SCEN_NAMES:
        log, hkey, hres = honest(name)
        for d in ("c2s", "s2c"):
            for idx, (t, ln) in enumerate(log[d]):
                total = 5 + ln
                if tier == "thorough" and t == 22 and name in (
                        "default", "tls12-dhe", "hrr", "resume-psk",
                        "tls12-auth", "srp", "resume-ticket", "ecdsa"):
                    positions = range(total)
                    masks = (1, 0x80, 0xff)
                else:
                    positions = sorted(set(
                        [0, 1, 2, 3, 4, 5, 5 + ln // 2, total - 1] +
                        [(seed * 31 + idx * 97 + j * 389) % total
                         for j in range(6)]))
                    masks = (1,) if tier == "quick" else (1, 0x80)
                for pos in positions:
                    for m in masks:
                        yield {"k": "mitm", "sc": name,
                               "act": ["xor", d, idx, pos, m]}
                for a in ("drop", "dup", "swap"):
                    yield {"k": "mitm", "sc": name, "act": [a, d, idx]}
        for op in CH_OPS:
            for arg in range(14 if op == "strip_ext" else 3):
                yield {"k": "mitm", "sc": name, "act": ["ch", op, arg]}
        for op in SH_OPS:
            for arg in range(6 if op in ("suite", "strip_ext") else 3):
                yield {"k": "mitm", "sc": name, "act": ["sh", op, arg]}
    vs = [(3, 0), (3, 1), (3, 2), (3, 3), (3, 4)]
    for cmax in vs:
        for smax in vs:
            for scsv in (True, False):
                yield {"k": "scsv", "cmax": list(cmax), "smax": list(smax),
                       "scsv": scsv}
                if cmax < (3, 4):
                    for sess in ("id", "ticket"):
                        yield {"k": "scsv", "cmax": list(cmax),
                               "smax": list(smax), "scsv": scsv,
                               "sess": sess}
