"""C07 - tlslite-ng interoperates with an independent TLS implementation
(OpenSSL through the stdlib ``ssl`` module on memory BIOs)."""
import hashlib
import ssl

from hypothesis import strategies as st

from vlib.runner import good, bad, HarnessError
from vlib.det import DET
from vlib import scenario as sc
from vlib import iana
from vlib.wire import Link
from vlib.driver import drive, describe_exc
from vlib import osslpeer as op
from props.c01 import negotiable, DEAD_SUITES

from tlslite.api import TLSConnection

ID = "C07"
LEVEL = "exploration"
RULE = ("case = (tlslite role, version 1.0-1.3, suite in (tlslite "
        "negotiable ∩ OpenSSL list for the credential), server key in {RSA, "
        "RSA-PSS, ECDSA P-256/384/521, Ed25519, Ed448, DSA}, group in "
        "{P-256, P-384, P-521, X25519, X448}, client auth, ALPN, resumption "
        "in {none, TLS<=1.2 session/ticket, TLS 1.3 PSK}, HelloRetryRequest "
        "forced by disjoint first key share, OpenSSL client with its "
        "default (padded, two-version) ClientHello, payload sizes); "
        "'mutually supported' is decided empirically: the same "
        "configuration must succeed OpenSSL<->OpenSSL (the tlslite<->"
        "tlslite run of a matrix entry without drawn options must always "
        "succeed); then the cross handshakes must complete, agree on "
        "version / cipher / ALPN / reuse and move multi-record payloads "
        "both ways. The full (role, version, suite, key) matrix is "
        "enumerated; options are drawn. non-trivial = completed cross "
        "handshake with payloads in both directions; distinct = hash(case)")
ASSUMPTIONS = [
    "OpenSSL's randomness cannot be seeded: the configuration is the "
    "replay unit",
    "out of domain (stdlib ssl API): SSLv3, SRP, external PSK, KeyUpdate "
    "initiated by OpenSSL, "
    "record_size_limit, heartbeat, TLS 1.3 CCM suites, anonymous suites",
    "zero-length application records under NULL-cipher suites are not sent "
    "to OpenSSL (OpenSSL 3.0 answers bad_record_mac and never emits such "
    "records itself; tlslite's encoding of them is accepted by the RFC "
    "reference receiver in C01)",
]
MAX_WALL = {"quick": 240, "thorough": 3000}
OSSL_CURVE = {"secp256r1": "prime256v1", "secp384r1": "secp384r1",
              "secp521r1": "secp521r1", "x25519": "X25519", "x448": "X448"}
VERS = [(3, 1), (3, 2), (3, 3), (3, 4)]
KEYS = {"rsa": ["rsa"], "ecdsa": ["ecdsa", "p384", "p521"], "dsa": ["dsa"]}
KEYS13 = ["rsa", "rsapss", "ecdsa", "p384", "p521", "ed25519", "ed448"]


def init(tier, seed):
    DET.install()


def prg(tag, n):
    out = bytearray()
    i = 0
    while len(out) < n:
        out += hashlib.sha256(b"%s|%d" % (tag, i)).digest()
        i += 1
    return bytes(out[:n])


def matrix():
    fwd, rev = op.suite_names()
    out = []
    for sid in negotiable():
        if sid in DEAD_SUITES or sid not in fwd:
            continue
        s = iana.SUITES[sid]
        if s.draft:
            continue
        if s.tls13:
            if sid in (0x1304, 0x1305):
                continue
            for key in KEYS13:
                out.append((sid, (3, 4), key))
            continue
        if s.kx == "srp" or s.auth is None:
            continue
        for v in VERS[:3]:
            if s.defined_in(v) is not True:
                continue
            for key in KEYS[s.auth]:
                out.append((sid, v, key))
            if s.auth == "ecdsa" and v == (3, 3):
                out.append((sid, v, "ed25519"))
            if s.auth == "rsa" and s.kx != "rsa" and v == (3, 3):
                out.append((sid, v, "rsapss"))
    return out


def tls_settings(case, s):
    v = tuple(case["ver"])
    kw = dict(minVersion=v, maxVersion=v, cipherNames=[s.cipher_setting],
              macNames=[s.mac_setting])
    if not s.tls13:
        kw["keyExchangeNames"] = [s.kx_setting]
    if case.get("tls_max") and tuple(case["tls_max"]) > v:
        # tlslite would go higher, OpenSSL is capped: negotiated downwards
        kw["maxVersion"] = tuple(case["tls_max"])
        if kw["maxVersion"] == (3, 4):
            kw["cipherNames"] = [s.cipher_setting, "aes128gcm"]
            kw["macNames"] = [s.mac_setting, "aead"]
    if case.get("rsl"):
        # OpenSSL 3.0 neither sends nor answers record_size_limit
        kw["record_size_limit"] = case["rsl"]
    if case.get("curve"):
        kw["eccCurves"] = [case["curve"]]
        kw["keyShares"] = [case["curve"]] if v == (3, 4) else []
    if case.get("hrr") and v == (3, 4):
        # the first key share does not fit the server: HelloRetryRequest
        if case["role"] == "s":
            kw["eccCurves"] = ["secp384r1"]
            kw["keyShares"] = []
        else:
            kw["eccCurves"] = ["x25519", "secp384r1"]
            kw["keyShares"] = ["x25519"]
    return kw


def ossl_ctx(role, case, s, fwd, for_ossl_pair=False):
    v = tuple(case["ver"])
    cipher = None if s.tls13 else fwd[s.id]
    if s.tls13 and case.get("ossl_default"):
        # OpenSSL's own default list: a ClientHello of 256..511 bytes, which
        # OpenSSL pads to 512 with the padding extension
        cipher = "DEFAULT"
    kw = dict(cipher=cipher)
    minv = v
    if s.tls13 and case.get("ossl_default") and role == "c":
        minv = (3, 3)       # ... and offers TLS 1.2 as well (517-byte hello)
    if role == "s":
        kw["cert"] = sc.cert_pem(case["key"])
        kw["key"] = sc.key_pem(case["key"])
        if case.get("client_auth"):
            kw["verify_ca"] = sc.cert_pem("rsa1024")
            kw["require_client"] = True
    else:
        if case.get("client_auth"):
            kw["cert"] = sc.cert_pem("rsa1024")
            kw["key"] = sc.key_pem("rsa1024")
    if case.get("curve"):
        kw["curve"] = OSSL_CURVE[case["curve"]]
    if case.get("hrr") and v == (3, 4) and role == "s" and \
            (case["role"] == "c" or for_ossl_pair):
        kw["curve"] = "secp384r1"
    if case.get("alpn"):
        kw["alpn"] = list(case["alpn_c"] if role == "c" else case["alpn_s"])
    return op.make_ctx(role, minv, v, **kw)


def tls_opts(role, case, s):
    cs = case
    if role != case["role"]:
        # the loopback stand-in for OpenSSL: capped, no record_size_limit
        cs = {k: x for k, x in case.items() if k not in ("tls_max", "rsl")}
    st_ = sc.mk_settings(**tls_settings(cs, s))
    if role == "c":
        o = {"settings": st_}
        if case.get("client_auth"):
            o["cred"] = "rsa1024"
        if case.get("alpn"):
            o["alpn"] = [bytearray(x.encode()) for x in case["alpn_c"]]
        return o
    o = {"settings": st_, "cred": case["key"]}
    if case.get("client_auth"):
        o["reqCert"] = True
    if case.get("alpn"):
        o["alpn"] = [bytearray(x.encode()) for x in case["alpn_s"]]
    if case.get("resume"):
        o["settings"].ticketKeys = [bytearray(b"t" * 32)]
        from tlslite.api import SessionCache
        o["sessionCache"] = case.setdefault("_cache", SessionCache())
    return o


def expected_alpn(case):
    if not case.get("alpn"):
        return None
    for x in case["alpn_s"]:
        if x in case["alpn_c"]:
            return x
    return "MISMATCH"


def check(case):
    fwd, rev = op.suite_names()
    sid, v = case["suite"], tuple(case["ver"])
    s = iana.SUITES[sid]
    role = case["role"]         # role played by tlslite
    labels = ["tlslite=" + role, "ver=" + sc.VERNAME[v], "key=" +
              case["key"], "kind=" + s.kind]
    case = dict(case)
    if expected_alpn(case) == "MISMATCH":
        return good(nt=False, labels=labels + ["alpn-disjoint"])
    # 1. tlslite <-> tlslite
    DET.reseed("C07", sid, v, case["key"])
    pc = dict(case)
    pc.pop("_cache", None)
    p = sc.connect(tls_opts("c", pc, s), tls_opts("s", pc, s))
    if not p.both_ok:
        if not case.get("curve") and not case.get("alpn"):
            # every (suite, version, key) of the matrix is one tlslite
            # itself negotiates (that is how the matrix is built): on a
            # correct tree this loopback never fails
            from vlib.runner import BaselineBroken
            raise BaselineBroken("tlslite-loopback:%s:%04x:%s%s" % (
                sc.VERNAME[v], sid, case["key"],
                ":client-auth" if case.get("client_auth") else ""),
                "%r %r" % (p.co, p.so))
        return good(nt=False, labels=labels + ["tlslite-does-not-support"])
    # 2. OpenSSL <-> OpenSSL
    try:
        oc, os_, _ = op.ossl_pair(ossl_ctx("c", case, s, fwd),
                                  ossl_ctx("s", case, s, fwd, True))
    except (ssl.SSLError, ValueError) as e:
        return good(nt=False, labels=labels + ["openssl-config-refused"])
    if not (oc.done and os_.done):
        return good(nt=False, labels=labels + ["openssl-does-not-support"])
    # 3. cross
    r = cross(case, s, fwd, rev, role, labels)
    if r is not None:
        return r
    if case.get("resume"):
        r = cross(case, s, fwd, rev, role, labels, resume=True)
        if r is not None:
            return r
    return good(labels=labels)


def cross(case, s, fwd, rev, role, labels, resume=False):
    v = tuple(case["ver"])
    link = Link()
    orole = "s" if role == "c" else "c"
    where = "%s:%s:%04x:%s" % ("client" if role == "c" else "server",
                               sc.VERNAME[v], s.id, case["key"])
    sess = None
    if resume:
        where += ":resume"
        sess = case.get("_tls_session") if role == "c" \
            else case.get("_ossl_session")
        if sess is None:
            return None
    try:
        octx = case.get("_octx") if resume else ossl_ctx(orole, case, s, fwd)
        if not resume:
            case["_octx"] = octx
        oend = op.OsslEnd(octx, orole, link,
                          session=sess if (resume and role == "s") else None)
    except (ssl.SSLError, ValueError) as e:
        return good(nt=False, labels=labels + ["openssl-config-refused"])
    conn = TLSConnection(link.sock(role))
    DET.reseed("C07x", s.id, v, case["key"], role, resume)
    widen = resume and case.get("resume_widen") and s.tls13 and \
        s.prf == "sha256" and role == "c"
    if role == "c":
        o = tls_opts("c", case, s)
        if resume:
            o["session"] = sess
        if widen:
            # the client's preferences changed between the connections:
            # OpenSSL resumes under another suite of the same hash
            o["settings"].cipherNames = ["chacha20-poly1305", "aes128gcm"]
            labels.append("resume-with-wider-suite-list")
        gen = sc.client_gen(conn, o)
    else:
        gen = sc.server_gen(conn, tls_opts("s", case, s))
    unpatch = None
    if case.get("lead0") and s.kx == "dhe" and role == "c" and not resume:
        # choose the client's DH exponent so that the shared secret starts
        # with a zero byte (1 in 256 in the wild): TLS <= 1.2 strips it
        import tlslite.keyexchange as kxm
        orig_p = kxm.ADHKeyExchange.processServerKeyExchange
        orig_r = kxm.FFDHKeyExchange.get_random_private_key
        box = {}

        def proc(self, srvPublicKey, ske):
            box["ys"], box["p"] = ske.dh_Ys, ske.dh_p
            return orig_p(self, srvPublicKey, ske)

        def rnd(self):
            x = orig_r(self)
            if "ys" in box:
                nb = (box["p"].bit_length() + 7) // 8
                for _ in range(5000):
                    if pow(box["ys"], x, box["p"]).bit_length() <= \
                            8 * (nb - 1):
                        labels.append("dh-secret-leading-zero")
                        break
                    x += 1
            return x
        kxm.ADHKeyExchange.processServerKeyExchange = proc
        kxm.FFDHKeyExchange.get_random_private_key = rnd

        def unpatch():
            kxm.ADHKeyExchange.processServerKeyExchange = orig_p
            kxm.FFDHKeyExchange.get_random_private_key = orig_r
    try:
        exc, fin = op.run_handshake(gen, oend, link, role)
    finally:
        if unpatch:
            unpatch()
    if exc is not None or not oend.done:
        return bad("interop-handshake-fails:" + where,
                   "tlslite %s: %s; openssl: %s" % (
                       "client" if role == "c" else "server",
                       describe_exc(exc) if exc else (
                           "done" if fin else "blocked"),
                       "done" if oend.done else repr(oend.error)),
                   labels=labels)
    if bytes.fromhex("cf21ad74e59a6111be1d8c021e65b891") in \
            link.wire("s")[:200]:
        labels.append("hello-retry-request")
    elif case.get("hrr") and v == (3, 4):
        labels.append("hrr-wanted-but-not-seen")
    if case.get("client_auth"):
        labels.append("client-auth")
    # negotiated parameters
    over = op.VNAME.get(oend.obj.version())
    if over != tuple(conn.version):
        return bad("interop-version-differs:" + where,
                   "%r vs %r" % (over, conn.version), labels=labels)
    oc = oend.obj.cipher()
    oid = rev.get(oc[0]) if oc else None
    if oid != conn.session.cipherSuite:
        return bad("interop-cipher-differs:" + where,
                   "openssl %r tlslite %04x" % (oc, conn.session.cipherSuite),
                   labels=labels)
    if conn.session.cipherSuite != s.id and not widen:
        return bad("interop-wrong-suite:" + where, "", labels=labels)
    ea = expected_alpn(case)
    oa = oend.obj.selected_alpn_protocol()
    ta = bytes(conn.session.appProto or b"").decode() or None
    # (whose preference order wins is the server's choice; both ends must
    # agree on a protocol both offered)
    if oa != ta or (ea is not None and (
            ta not in case["alpn_c"] or ta not in case["alpn_s"])):
        return bad("interop-alpn-differs:" + where,
                   "openssl %r tlslite %r lists %r / %r" % (
                       oa, ta, case.get("alpn_c"), case.get("alpn_s")),
                   labels=labels)
    if case.get("client_auth"):
        if role == "s":
            if conn.session.clientCertChain is None:
                return bad("interop-client-cert-missing:" + where, "",
                           labels=labels)
        else:
            if oend.obj.getpeercert(True) is None:
                return bad("interop-client-cert-missing:" + where, "",
                           labels=labels)
    if resume:
        reused = oend.obj.session_reused
        if bool(conn.resumed) != bool(reused) and role == "c":
            return bad("interop-resumption-flag-differs:" + where,
                       "openssl reused=%r tlslite resumed=%r" % (
                           reused, conn.resumed), labels=labels)
        if not reused:
            # both implementations resume this configuration among
            # themselves (session id, ticket or TLS 1.3 PSK all on offer)
            return bad("interop-resumption-not-honoured:" + where,
                       "second connection completed as a full handshake "
                       "(openssl session_reused=%r, tlslite resumed=%r)" % (
                           reused, conn.resumed), labels=labels)
        labels.append(("resumed:" if reused else "not-resumed:") + role +
                      (":13" if v == (3, 4) else ":12-"))
    # data both ways
    n1, n2 = case.get("sizes", [100, 20000])
    if s.cipher == "null" and n1 == 0:
        # OpenSSL rejects zero-length application records under NULL
        # ciphers (it never produces them itself, so 'mutually supported'
        # cannot be established): outside the domain
        n1 = 1
    d1, d2 = prg(b"t2o", n1), prg(b"o2t", n2)
    outs, _ = drive({role: conn.writeAsync(d1)}, link, on_stall="leave")
    if not outs[role].ok:
        return bad("interop-write-fails:" + where, repr(outs[role]),
                   labels=labels)
    got, err = oend.read_available()
    if got != d1 or (err is not None and err != "eof" and
                     not isinstance(err, type(None))):
        return bad("interop-data-to-openssl-differs:" + where,
                   "%d of %d bytes, err %r" % (len(got), len(d1), err),
                   labels=labels)
    try:
        oend.write(d2)
    except (ssl.SSLError, OSError) as e:
        return bad("interop-openssl-write-fails:" + where, repr(e),
                   labels=labels)
    link.pump()
    got = bytearray()
    for _ in range(2000):
        if len(got) >= len(d2):
            break
        g = conn.readAsync(len(d2) - len(got), 1)
        outs, _ = drive({role: g}, link, on_stall="leave")
        o = outs[role]
        if o.state == "done" and o.value:
            got += o.value
            continue
        if o.state == "blocked":
            g.close()
            oend._pump_out()
            link.pump()
            if not link.inp[role].q:
                break
            continue
        return bad("interop-read-fails:" + where, repr(o), labels=labels)
    if bytes(got) != d2:
        return bad("interop-data-from-openssl-differs:" + where,
                   "%d of %d bytes" % (len(got), len(d2)), labels=labels)
    if v == (3, 4) and case.get("ku", True):
        # several KeyUpdates from the tlslite side (OpenSSL follows, and
        # answers the ones that ask for it), data after each
        for i in range(3):
            outs, _ = drive({role: conn.send_keyupdate_request(i % 2)},
                            link, on_stall="leave")
            if not outs[role].ok:
                return bad("interop-keyupdate-fails:" + where,
                           repr(outs[role]), labels=labels)
            dk = prg(b"ku%d" % i, 1500)
            outs, _ = drive({role: conn.writeAsync(dk)}, link,
                            on_stall="leave")
            got, err = oend.read_available()
            if got != dk or (err is not None and err != "eof"):
                return bad("interop-data-after-keyupdate:to-openssl:" + where,
                           "KeyUpdate %d: %d of %d bytes, err %r" % (
                               i + 1, len(got), len(dk), err), labels=labels)
            try:
                oend.write(dk[::-1])
            except (ssl.SSLError, OSError) as e:
                return bad("interop-openssl-write-fails:" + where, repr(e),
                           labels=labels)
            link.pump()
            back = bytearray()
            for _ in range(50):
                if len(back) >= len(dk):
                    break
                g = conn.readAsync(len(dk) - len(back), 1)
                outs, _ = drive({role: g}, link, on_stall="leave")
                o = outs[role]
                if o.state == "done" and o.value:
                    back += o.value
                    continue
                if o.state == "blocked":
                    g.close()
                    oend._pump_out()
                    link.pump()
                    if not link.inp[role].q:
                        break
                    continue
                return bad("interop-read-fails:" + where, repr(o),
                           labels=labels)
            if bytes(back) != dk[::-1]:
                return bad("interop-data-after-keyupdate:from-openssl:" +
                           where, "KeyUpdate %d: %d of %d bytes" % (
                               i + 1, len(back), len(dk)), labels=labels)
        labels.append("keyupdates")
    # keep sessions for a resumption attempt
    if role == "c":
        case["_tls_session"] = conn.session
    else:
        case["_ossl_session"] = oend.obj.session
    # orderly close
    outs, _ = drive({role: conn.closeAsync()}, link, on_stall="leave")
    oend.read_available()
    return None


# ---------------------------------------------------------------------------
@st.composite
def cases(draw, tier):
    sid, v, key = draw(st.sampled_from(matrix()))
    s = iana.SUITES[sid]
    c = {"role": draw(st.sampled_from(["c", "s"])), "suite": sid,
         "ver": list(v), "key": key,
         "sizes": [draw(st.sampled_from([0, 1, 100, 16384, 16385, 40000])),
                   draw(st.sampled_from([1, 100, 16384, 16385, 50000]))]}
    if s.tls13 or s.kx == "ecdhe":
        c["curve"] = draw(st.sampled_from([None] + sorted(OSSL_CURVE)))
    if s.tls13 and not c.get("curve"):
        c["hrr"] = draw(st.booleans())
    if s.tls13:
        c["ossl_default"] = draw(st.booleans())
    c["client_auth"] = draw(st.booleans())
    if draw(st.booleans()):
        names = ["h2", "http/1.1", "x"]
        c["alpn"] = True
        c["alpn_c"] = draw(st.lists(st.sampled_from(names), min_size=1,
                                    max_size=3, unique=True))
        c["alpn_s"] = draw(st.lists(st.sampled_from(names), min_size=1,
                                    max_size=3, unique=True))
    c["resume"] = draw(st.booleans())
    if s.tls13 and c["resume"]:
        c["resume_widen"] = draw(st.booleans())
    if not s.tls13 and draw(st.booleans()):
        c["tls_max"] = draw(st.sampled_from([[3, 3], [3, 4]]))
    if draw(st.integers(0, 2)) == 0:
        c["rsl"] = draw(st.sampled_from([64, 1500, 4096, 16384]))
    return c


def strategy(tier):
    return cases(tier)


def budget(tier):
    return 250 if tier == "quick" else 15000


def explicit(tier, seed):
    m = matrix()
    for k, (sid, v, key) in enumerate(m):
        for role in "cs":
            if tier == "quick" and (k + (role == "s")) % 3:
                continue
            yield {"role": role, "suite": sid, "ver": list(v), "key": key,
                   "sizes": [100, 20000], "client_auth": False,
                   "resume": (k % 4 == 0)}
    # DHE with a shared secret that starts with a zero byte
    done = set()
    for sid, v, key in m:
        s = iana.SUITES[sid]
        if s.tls13 or s.kx != "dhe" or (tuple(v), s.kind) in done or \
                key not in ("rsa", "dsa"):
            continue
        done.add((tuple(v), s.kind))
        yield {"role": "c", "suite": sid, "ver": list(v), "key": key,
               "sizes": [100, 3000], "client_auth": False, "resume": False,
               "lead0": True}
    # tlslite willing to go higher than the version OpenSSL is capped at,
    # and tlslite with a record_size_limit OpenSSL never acknowledges
    seen = set()
    for sid, v, key in m:
        s = iana.SUITES[sid]
        tag = (v, s.kind, s.kx if not s.tls13 else "13")
        if tag in seen:
            continue
        seen.add(tag)
        for role in "cs":
            if not s.tls13:
                for tm in ([3, 3], [3, 4]):
                    if tuple(tm) > tuple(v):
                        yield {"role": role, "suite": sid, "ver": list(v),
                               "key": key, "sizes": [100, 3000],
                               "client_auth": False, "resume": False,
                               "tls_max": tm}
            yield {"role": role, "suite": sid, "ver": list(v), "key": key,
                   "sizes": [40000, 40000], "client_auth": False,
                   "resume": False, "rsl": (1500, 4096, 16384, 64)[
                       len(seen) % 4]}
    # HelloRetryRequest with OpenSSL's hello growing byte by byte across the
    # sizes at which it adds / resizes / drops the padding extension (the
    # retried hello is 65 bytes longer: a P-384 share instead of X25519)
    for sid, v, key in m:
        s = iana.SUITES[sid]
        if not s.tls13 or key != "rsa" or sid != 0x1301:
            continue
        for ln in range(1, 250, 9 if tier == "quick" else 2):
            yield {"role": "s", "suite": sid, "ver": list(v), "key": key,
                   "sizes": [100, 300], "client_auth": False,
                   "resume": False, "hrr": True, "ossl_default": True,
                   "alpn": True, "alpn_c": ["h2", "p" * ln],
                   "alpn_s": ["h2"], "ku": False}
    # client authentication and HelloRetryRequest, per version and role
    seen = set()
    for sid, v, key in m:
        s = iana.SUITES[sid]
        tag = (v, s.kind, s.kx if not s.tls13 else "13", key)
        if tag in seen:
            continue
        seen.add(tag)
        for role in "cs":
            yield {"role": role, "suite": sid, "ver": list(v), "key": key,
                   "sizes": [100, 3000], "client_auth": True,
                   "resume": False}
            if s.tls13:
                for ca in (False, True):
                    for od in (False, True):
                        yield {"role": role, "suite": sid, "ver": list(v),
                               "key": key, "sizes": [100, 3000],
                               "client_auth": ca, "resume": False,
                               "hrr": True, "ossl_default": od}
                yield {"role": role, "suite": sid, "ver": list(v),
                       "key": key, "sizes": [100, 3000],
                       "client_auth": False, "resume": True,
                       "ossl_default": True}
                if role == "c":
                    yield {"role": role, "suite": sid, "ver": list(v),
                           "key": key, "sizes": [100, 3000],
                           "client_auth": False, "resume": True,
                           "ossl_default": True, "resume_widen": True}
