"""C16 - post-handshake control traffic never disturbs the data stream or
key sync."""
import hashlib

from hypothesis import strategies as st

from vlib.runner import good, bad, HarnessError, BaselineBroken
from vlib.det import DET
from vlib import scenario as sc
from vlib import tap
from vlib.deviant import RawMsg
from vlib.driver import drive, describe_exc, exc_site

from tlslite.errors import (BaseTLSException, TLSLocalAlert,
                            TLSRemoteAlert)

ID = "C16"
LEVEL = "exploration"
RULE = ("case = history of <= 16 operations on an established pair (TLS 1.3 "
        "with a client certificate configured for post-handshake "
        "authentication, heartbeat negotiated, tickets enabled; TLS 1.2 "
        "variant for heartbeat): write / read on either side, KeyUpdate "
        "(requested or not, either side, also both before either reads), "
        "post-handshake authentication requests (several outstanding), "
        "heartbeat requests with drawn payload / padding, and one final "
        "adversarial message from a well-keyed sender (KeyUpdate type 2, "
        "KeyUpdate split across records, heartbeat response unsolicited / "
        "request with short padding, Certificate with unknown context, "
        "CertificateRequest or NewSessionTicket sent to a server, "
        "ChangeCipherSpec, Finished, ServerHello), or an endpoint that sends "
        "heartbeat + KeyUpdate + data, closes and disappears before the "
        "peer reads; read(max, 0) pump calls with max 0 / 1 / 7 (never more "
        "than max returned). After every step the "
        "FIFO model must hold, heartbeat callbacks must carry exactly the "
        "request payload, the server-side client chain may change only at a "
        "completed authentication; at the end the reference receiver must "
        "have opened every record of both directions across all key "
        "generations and both ends must hold equal traffic secrets equal to "
        "the reference n-th generation secret. non-trivial = at least one "
        "KeyUpdate / authentication / heartbeat between two data writes "
        "that are read afterwards; distinct = hash(history)")
ASSUMPTIONS = [
    "reference receiver / HKDF validated in C09's self-test",
    "adversarial messages are sent by a real endpoint holding the keys "
    "(harness-side _sendMsg of raw bytes)",
]
MAX_WALL = {"quick": 240, "thorough": 3000}


def init(tier, seed):
    DET.install()


def prg(tag, n):
    out = bytearray()
    i = 0
    while len(out) < n:
        out += hashlib.sha256(b"%s|%d" % (tag, i)).digest()
        i += 1
    return bytes(out[:n])


class World(object):
    pass


def setup(v, resumed=False, no_cb=""):
    w = World()
    w.hb = {"c": [], "s": []}
    ckw = dict(minVersion=sc.VER[v], maxVersion=sc.VER[v],
               heartbeat_response_callback=lambda m: w.hb["c"].append(
                   bytes(m.payload)))
    skw = dict(minVersion=sc.VER[v], maxVersion=sc.VER[v],
               ticketKeys=[bytearray(b"k" * 32)],
               heartbeat_response_callback=lambda m: w.hb["s"].append(
                   bytes(m.payload)))
    # a side without a response callback never sends requests itself, but
    # still has to answer the peer's (the default configuration)
    if "c" in no_cb:
        del ckw["heartbeat_response_callback"]
    if "s" in no_cb:
        del skw["heartbeat_response_callback"]
    client = {"settings": sc.mk_settings(**ckw), "cred": "c_rsa"}
    server = {"cred": "rsa", "settings": sc.mk_settings(**skw)}
    p = sc.connect(client, server)
    if not p.both_ok:
        raise BaselineBroken("c16-setup:" + v, "%r %r" % (p.co, p.so))
    if resumed:
        # the same on a connection resumed from the first one's ticket
        sc.do_write(p, "s", b"")
        sc.read_all(p, "c")
        sc.do_close(p, "c")
        sc.do_close(p, "s")
        client["session"] = p.c.session
        w.hb = {"c": [], "s": []}
        p = sc.connect(client, server)
        if not (p.both_ok and p.c.resumed):
            raise BaselineBroken("c16-setup-resumed:" + v,
                                 "%r %r" % (p.co, p.so))
    w.p = p
    w.v = sc.VER[v]
    w.fifo = {"c": bytearray(), "s": bytearray()}
    w.taken = {"c": 0, "s": 0}
    w.gen = {"c": 0, "s": 0}        # key generation of side's *write* key
    w.hb_sent = {"c": [], "s": []}
    w.pha_out = 0
    w.labels = []
    w.control_between = False
    w.data_after_control = False
    if w.v == (3, 4):
        w.s0 = {"c": bytes(p.c.session.cl_app_secret),
                "s": bytes(p.c.session.sr_app_secret)}
    return w


def other(side):
    return "s" if side == "c" else "c"


def drain(w, side, upto=None):
    """read what is available on ``side``; returns (bytes, final outcome)"""
    got = bytearray()
    p = w.p
    last = None
    for _ in range(400):
        o = sc.do_read(p, side, 1 << 16, 0 if not got else 1)
        if o.state == "done" and o.value:
            got += o.value
            continue
        if o.state == "done" and not o.value and not p.conn(side).closed:
            # zero-length return after processing control traffic: go on
            # until nothing more is pending
            if p.link.inp[side].q or \
                    p.conn(side).sock._read_buffer:
                continue
        last = o
        break
    return bytes(got), last


def fifo_check(w, side, got, where):
    src = other(side)
    exp = bytes(w.fifo[src][w.taken[src]:w.taken[src] + len(got)])
    if got != exp:
        return bad("data-stream-disturbed:" + where,
                   "side %s read %d bytes that are not the next bytes "
                   "written" % (side, len(got)), labels=w.labels)
    w.taken[src] += len(got)
    return None


def check(case):
    DET.reseed("C16", case.get("salt", 0), case["v"])
    w = setup(case["v"], case.get("resumed", False), case.get("no_cb", ""))
    if case.get("no_cb"):
        w.labels.append("no-heartbeat-callback:" + case["no_cb"])
    if case.get("resumed"):
        w.labels.append("resumed-connection")
    p = w.p
    chain_before = p.s.session.clientCertChain
    history = case["ops"]
    for i, op in enumerate(history):
        k = op[0]
        w.labels.append("op=" + k)
        if k == "w":
            _, side, n = op
            data = prg(b"C16/%d" % i, n)
            o = sc.do_write(p, side, data)
            if not o.ok:
                return bad("write-fails-after-control-traffic",
                           "step %d %r: %r" % (i, op, o), labels=w.labels)
            w.fifo[side] += data
            if w.control_between:
                w.data_after_control = True
        elif k == "r":
            side = op[1]
            got, last = drain(w, side)
            r = fifo_check(w, side, got, "read")
            if r:
                return r
            if last is not None and last.state == "exc":
                return bad("read-fails:%s" % describe_exc(last.exc),
                           "step %d %r; history %r" % (i, op,
                                                       history[:i + 1]),
                           labels=w.labels)
        elif k == "p":
            # the control-traffic pump read(max, 0): processes pending
            # KeyUpdate / ticket / authentication messages and hands over at
            # most ``max`` bytes, the rest stays buffered for later reads
            _, side, mx = op
            o = sc.do_read(p, side, mx, 0)
            if o.state == "exc":
                if isinstance(o.exc, TLSRemoteAlert) or p.conn(side).closed:
                    continue
                return bad("read-fails:%s" % describe_exc(o.exc),
                           "step %d %r; history %r" % (i, op,
                                                       history[:i + 1]),
                           labels=w.labels)
            if o.state == "done":
                got = bytes(o.value)
                if len(got) > mx:
                    return bad("read-returns-more-than-max",
                               "read(max=%d, min=0) returned %d bytes; "
                               "history %r" % (mx, len(got),
                                               history[:i + 1]),
                               labels=w.labels)
                r = fifo_check(w, side, got, "pump")
                if r:
                    return r
        elif k == "ku":
            if w.v != (3, 4):
                continue
            _, side, requested = op
            outs, _ = drive({side: p.conn(side).send_keyupdate_request(
                1 if requested else 0)}, p.link, on_stall="leave")
            if not outs[side].ok:
                return bad("keyupdate-send-fails", repr(outs[side]),
                           labels=w.labels)
            w.control_between = True
        elif k == "pha":
            if w.v != (3, 4):
                continue
            st_ = None
            if len(op) > 1 and op[1]:
                # a request that does not offer certificate compression
                # (next to others that do)
                st_ = sc.mk_settings(certificate_compression_receive=[])
                w.labels.append("pha-without-compression")
            outs, _ = drive({"s": p.s.request_post_handshake_auth(st_)},
                            p.link, on_stall="leave")
            if not outs["s"].ok:
                return bad("pha-request-fails", repr(outs["s"]),
                           labels=w.labels)
            w.pha_out += 1
            w.control_between = True
        elif k == "hb":
            _, side, n, pad = op
            conn = p.conn(side)
            if not (conn.heartbeat_supported and conn.heartbeat_can_send):
                continue
            if side in case.get("no_cb", ""):
                continue        # (nobody would see the answer)
            payload = prg(b"hb%d" % i, n)
            outs, _ = drive({side: conn.write_heartbeat(
                bytearray(payload), pad)}, p.link, on_stall="leave")
            if not outs[side].ok:
                return bad("heartbeat-send-fails", repr(outs[side]),
                           labels=w.labels)
            if pad >= 16:
                w.hb_sent[side].append(payload)
            w.control_between = True
        elif k == "adv":
            return adversarial(w, i, op, history)
        elif k == "fin":
            return departed(w, i, op, history)
        elif k == "finku":
            return close_with_ku(w, i, op, history)
        else:
            raise HarnessError(op)
    # ---------------------------------------------------------- quiescence --
    for _ in range(3):
        for side in "cs":
            got, last = drain(w, side)
            r = fifo_check(w, side, got, "drain")
            if r:
                return r
            if last is not None and last.state == "exc":
                return bad("drain-fails:%s" % describe_exc(last.exc),
                           "history %r" % (history,), labels=w.labels)
    for side in "cs":
        src = other(side)
        if w.taken[src] != len(w.fifo[src]):
            return bad("data-lost-after-control-traffic",
                       "%d of %d bytes from %s arrived; history %r" % (
                           w.taken[src], len(w.fifo[src]), src, history),
                       labels=w.labels)
    # heartbeat: every well-formed request answered with exactly its payload
    for side in "cs":
        if w.hb[side] != w.hb_sent[side]:
            return bad("heartbeat-echo-differs",
                       "side %s sent %r got back %r" % (
                           side, [x.hex()[:16] for x in w.hb_sent[side]],
                           [x.hex()[:16] for x in w.hb[side]]),
                       labels=w.labels)
    # post-handshake authentication
    if w.pha_out:
        ch = p.s.session.clientCertChain
        want = sc.cred("c_rsa")[0]
        if ch is None or ch.x509List[0].bytes != want.x509List[0].bytes:
            return bad("pha-chain-not-recorded",
                       "%d requests outstanding, chain %r" % (w.pha_out,
                                                              ch),
                       labels=w.labels)
        if p.s._cert_requests:
            return bad("pha-context-not-consumed",
                       "%d contexts left" % len(p.s._cert_requests),
                       labels=w.labels)
    else:
        if p.s.session.clientCertChain is not chain_before:
            return bad("client-chain-changed-without-authentication", "",
                       labels=w.labels)
    # keys in step with each other and with the specification
    if w.v == (3, 4):
        cs, ss = p.c.session, p.s.session
        if bytes(cs.cl_app_secret) != bytes(ss.cl_app_secret) or \
                bytes(cs.sr_app_secret) != bytes(ss.sr_app_secret):
            return bad("traffic-secrets-out-of-step",
                       "history %r" % (history,), labels=w.labels)
        rv = tap.RefView(p)
        rv.set_initial_secrets(w.s0["c"], w.s0["s"])
        for side in "cs":
            rv.follow(side)
        if rv.errors:
            return bad("reference-receiver-loses-sync",
                       "%s; history %r" % (rv.errors[0], history),
                       labels=w.labels)
        for side in "cs":
            if rv.app_data(side) != bytes(w.fifo[side]):
                return bad("wire-plaintext-differs", side, labels=w.labels)
        if rv.secret["c"] != bytes(cs.cl_app_secret) or \
                rv.secret["s"] != bytes(cs.sr_app_secret):
            return bad("secrets-differ-from-reference-generation",
                       "reference followed the KeyUpdate messages on the "
                       "wire and ended at another generation; history %r" %
                       (history,), labels=w.labels)
    else:
        rv = tap.RefView(p)
        for side in "cs":
            rv.follow(side)
        if rv.errors:
            return bad("reference-receiver-loses-sync:tls12", rv.errors[0],
                       labels=w.labels)
    nt = w.data_after_control and any(len(w.fifo[s]) for s in "cs")
    return good(nt=nt, labels=sorted(set(w.labels)))


def departed(w, i, op, history):
    """``side`` sends control traffic, then data, then closes and goes away
    before the peer reads any of it: answers to the control traffic can no
    longer be delivered, the data and the orderly close still must be."""
    _, side, n = op
    p = w.p
    conn = p.conn(side)
    peer = p.conn(other(side))
    # earlier requests that need an answer (requested KeyUpdate, client
    # authentication) are answered first: an answer that cannot be sent is
    # a transport failure of that read, C17's subject
    for _ in range(2):
        for sd in "cs":
            got, last = drain(w, sd)
            r = fifo_check(w, sd, got, "drain")
            if r:
                return r
            if last is not None and last.state == "exc":
                return bad("drain-fails:%s" % describe_exc(last.exc),
                           "history %r" % (history[:i + 1],),
                           labels=w.labels)
    if conn.heartbeat_supported and conn.heartbeat_can_send:
        drive({side: conn.write_heartbeat(bytearray(b"going"), 16)}, p.link,
              on_stall="leave")
        w.labels.append("fin-hb")
    if w.v == (3, 4):
        # (update_not_requested: a requested update needs an answer, whose
        # failure is a transport failure of the read, C17's subject)
        drive({side: conn.send_keyupdate_request(0)}, p.link,
              on_stall="leave")
    data = prg(b"C16/fin%d" % i, n)
    o = sc.do_write(p, side, data)
    if not o.ok:
        return bad("write-fails-after-control-traffic",
                   "step %d %r: %r" % (i, op, o), labels=w.labels)
    w.fifo[side] += data
    o = sc.do_close(p, side)
    if not o.ok:
        return bad("close-fails-after-control-traffic", repr(o),
                   labels=w.labels)
    raw = peer.sock
    while hasattr(raw, "socket"):
        raw = raw.socket
    raw.tx_fault = (raw.tx_total, "pipe")
    first = b""
    if n % 2 == 0:
        # the reader asks for more than will ever come: it gets what there
        # is when the close is seen
        o = sc.do_read(p, other(side), 1 << 20, len(w.fifo[side]) -
                       w.taken[side] + 7)
        if o.state == "done":
            first = bytes(o.value)
        w.labels.append("fin-read-beyond-end")
    got, last = drain(w, other(side))
    got = first + got
    r = fifo_check(w, other(side), got, "departed")
    if r:
        return r
    hist = "history %r" % (history[:i + 1],)
    if last is not None and last.state == "exc":
        return bad("read-fails-after-peer-left:%s" % describe_exc(last.exc),
                   hist, labels=w.labels)
    if w.taken[side] != len(w.fifo[side]):
        return bad("data-lost-after-control-traffic",
                   "%d of %d bytes from %s arrived; %s" % (
                       w.taken[side], len(w.fifo[side]), side, hist),
                   labels=w.labels)
    if not peer.closed:
        return bad("close-not-seen-after-control-traffic", hist,
                   labels=w.labels)
    if peer.session is not None and not peer.session.resumable:
        return bad("orderly-close-kills-resumability", hist, labels=w.labels)
    return good(nt=n > 0, labels=sorted(set(w.labels)))


def close_with_ku(w, i, op, history):
    """``side`` closes with closeSocket=False (it waits for the peer's
    close_notify) while a KeyUpdate and data of the peer are still unread:
    the close path must follow the peer's new keys, and both ends finish an
    orderly shutdown. (The data in flight is dropped by close(): allowed.)"""
    _, side = op
    p = w.p
    conn, peer = p.conn(side), p.conn(other(side))
    for sd in "cs":
        got, last = drain(w, sd)
        r = fifo_check(w, sd, got, "drain")
        if r:
            return r
        if last is not None and last.state == "exc":
            return bad("drain-fails:%s" % describe_exc(last.exc),
                       "history %r" % (history[:i + 1],), labels=w.labels)
    conn.closeSocket = False
    peer.closeSocket = False
    if w.v == (3, 4):
        drive({other(side): peer.send_keyupdate_request(0)}, p.link,
              on_stall="leave")
    sc.do_write(p, other(side), b"in flight")
    gen = conn.closeAsync()
    outs, _ = drive({side: gen}, p.link, on_stall="leave")
    first = outs[side]
    o_p = sc.do_read(p, other(side), 100, 1)
    if first.state == "blocked":
        outs, _ = drive({side: gen}, p.link, on_stall="leave")
        first = outs[side]
    hist = "history %r" % (history[:i + 1],)
    w.labels.append("finku")
    if first.state == "exc":
        return bad("close-fails-with-peer-control-traffic-unread:%s" %
                   describe_exc(first.exc), hist, labels=w.labels)
    if o_p.state == "exc":
        return bad("peer-read-fails-at-close:%s" % describe_exc(o_p.exc),
                   hist, labels=w.labels)
    if first.state == "done" and not (conn.closed and peer.closed):
        return bad("close-with-control-traffic-not-closed", hist,
                   labels=w.labels)
    for c in (conn, peer):
        if c.session is not None and not c.session.resumable:
            return bad("orderly-close-kills-resumability", hist,
                       labels=w.labels)
    return good(nt=w.v == (3, 4), labels=sorted(set(w.labels)))


ADV = {
    # name: (sender, content type, bytes)
    "ku_type2": ("c", 22, b"\x18\x00\x00\x01\x02"),
    "ku_type2_s": ("s", 22, b"\x18\x00\x00\x01\x02"),
    "ku_long": ("c", 22, b"\x18\x00\x00\x02\x00\x00"),
    "ku_empty": ("s", 22, b"\x18\x00\x00\x00"),
    "hb_response_unsolicited": ("c", 24, b"\x02\x00\x02hi" + b"\x00" * 16),
    "hb_bad_type": ("c", 24, b"\x07\x00\x02hi" + b"\x00" * 16),
    "hb_length_lie": ("c", 24, b"\x01\xff\xff" + b"a" * 20),
    "hb_1byte": ("c", 24, b"\x01"),
    "hb_2byte": ("s", 24, b"\x01\x00"),
    "cert_unknown_context": ("c", 22, None),
    "cert_request_to_server": ("c", 22, b"\x0d\x00\x00\x0b\x00\x00\x08"
                               b"\x00\x0d\x00\x04\x00\x02\x08\x04"),
    "nst_to_server": ("c", 22, b"\x04\x00\x00\x12\x00\x00\x0e\x10\x00\x00"
                      b"\x00\x01\x01\x00\x00\x04tick\x00\x00"),
    "ccs": ("c", 20, b"\x01"),
    "ccs_s": ("s", 20, b"\x01"),
    "finished": ("c", 22, b"\x14\x00\x00\x20" + b"\xab" * 32),
    "server_hello": ("s", 22, b"\x02\x00\x00\x26\x03\x03" + b"\x11" * 32 +
                     b"\x00\x13\x01\x00"),
    "client_hello": ("c", 22, b"\x01\x00\x00\x27\x03\x03" + b"\x22" * 32 +
                     b"\x00\x00\x02\x13\x01\x01\x00"),
    "enc_ext": ("s", 22, b"\x08\x00\x00\x02\x00\x00"),
    "empty_handshake_record": ("c", 22, b""),
    # post-handshake authentication: valid Certificate and
    # CertificateVerify, Finished with a wrong verify_data
    "pha_bad_finished": ("c", 22, None),
}
ADV_OK_IGNORED = ("hb_response_unsolicited", "hb_bad_type", "hb_length_lie",
                  "hb_1byte", "hb_2byte")


def adversarial(w, i, op, history):
    name = op[1]
    p = w.p
    sender, ct, data = ADV[name]
    if name == "cert_unknown_context":
        ctx = b"\x20" + b"\x5a" * 32
        body = ctx + b"\x00\x00\x00"
        data = b"\x0b" + len(body).to_bytes(3, "big") + body
    if w.v != (3, 4) and name not in (
            "hb_response_unsolicited", "hb_bad_type", "hb_length_lie",
            "ccs", "ccs_s", "client_hello", "server_hello", "finished"):
        return good(nt=False, labels=w.labels + ["adv-not-applicable"])
    vic = other(sender)
    sconn, vconn = p.conn(sender), p.conn(vic)
    # first make sure everything honest so far is consumed
    for side in "cs":
        got, last = drain(w, side)
        r = fifo_check(w, side, got, "pre-adv")
        if r:
            return r
    chain_before = p.s.session.clientCertChain
    if len(op) > 2 and op[2] == "pha_pending" and w.v == (3, 4) and \
            name != "pha_bad_finished":
        # the message arrives while an authentication request of the server
        # is still unanswered (the client has not read it yet)
        outs, _ = drive({"s": p.s.request_post_handshake_auth()}, p.link,
                        on_stall="leave")
        if not outs["s"].ok:
            return bad("pha-request-fails", repr(outs["s"]),
                       labels=w.labels)
        w.labels.append("adv-with-pha-pending")
    if name == "pha_bad_finished":
        from vlib.deviant import Deviant

        def flip_fin(dev, idx, ct_, data_):
            if ct_ == 22 and data_[:1] == b"\x14":
                b = bytearray(data_)
                b[-1] ^= 0x01
                return [(ct_, bytes(b))]
            return None
        outs, _ = drive({"s": p.s.request_post_handshake_auth()}, p.link,
                        on_stall="leave")
        if not outs["s"].ok:
            return bad("pha-request-fails", repr(outs["s"]),
                       labels=w.labels)
        dev = Deviant(p.c, flip_fin)
        sc.do_read(p, "c", 10, 0)
        if not dev.applied:
            return good(nt=False, labels=w.labels + ["adv-not-applicable"])
    else:
        outs, _ = drive({sender: sconn._sendMsg(RawMsg(ct, data), False,
                                                False)}, p.link,
                        on_stall="leave")
    got, last = drain(w, vic)
    w.labels.append("adv=" + name)
    hist = "step %d %r; history %r" % (i, op, history[:i + 1])
    if got:
        return bad("adversarial-message-delivered-as-data:" + name,
                   "%d bytes; %s" % (len(got), hist), labels=w.labels)
    if p.s.session.clientCertChain is not chain_before:
        return bad("client-chain-changed-by-adversarial-message:" + name,
                   hist, labels=w.labels)
    if last is not None and last.state == "exc":
        e = last.exc
        if not isinstance(e, (BaseTLSException, OSError)):
            return bad("unrelated-exception:%s@%s" % (type(e).__name__,
                                                      exc_site(e)),
                       "%s; %s" % (name, hist), labels=w.labels)
        if not isinstance(e, TLSLocalAlert):
            return bad("adversarial-message-no-alert:%s:%s" % (
                name, describe_exc(e)), hist, labels=w.labels)
        if not vconn.closed:
            return bad("not-closed-after-fatal:" + name, hist,
                       labels=w.labels)
        return good(labels=sorted(set(w.labels + ["adv-rejected"])))
    # not rejected
    if name == "client_hello" and w.v != (3, 4):
        # TLS <= 1.2: refused with a no_renegotiation warning (C06)
        return good(labels=sorted(set(w.labels + ["adv-refused-warning"])))
    if name in ADV_OK_IGNORED:
        # RFC 6520: malformed / unsolicited heartbeat messages are dropped
        # silently; data must still flow afterwards
        d = prg(b"after", 50)
        o = sc.do_write(p, sender, d)
        got, last = drain(w, vic)
        if got != d:
            return bad("data-stream-disturbed:after-" + name, hist,
                       labels=w.labels)
        return good(labels=sorted(set(w.labels + ["adv-ignored"])))
    return bad("adversarial-message-not-rejected:" + name,
               "victim read state %r; %s" % (last, hist), labels=w.labels)


# ---------------------------------------------------------------------------
def op_strategy():
    side = st.sampled_from(["c", "s"])
    return st.one_of(
        st.tuples(st.just("w"), side, st.sampled_from([0, 1, 100, 5000,
                                                       20000])),
        st.tuples(st.just("w"), side, st.integers(1, 300)),
        st.tuples(st.just("r"), side),
        st.tuples(st.just("r"), side),
        st.tuples(st.just("ku"), side, st.booleans()),
        st.tuples(st.just("ku"), side, st.booleans()),
        st.tuples(st.just("p"), side, st.sampled_from([0, 0, 1, 7])),
        st.tuples(st.just("pha"), st.sampled_from([0, 0, 1])),
        st.tuples(st.just("hb"), side, st.sampled_from(
            [0, 1, 16, 300, 16365, 16364]),
            st.sampled_from([16, 16, 17, 100, 0, 15])),
    ).map(list)


@st.composite
def cases(draw, tier):
    v = draw(st.sampled_from(["tls13", "tls13", "tls13", "tls12"]))
    ops = draw(st.lists(op_strategy(), min_size=3,
                        max_size=14 if tier == "quick" else 30))
    z = draw(st.integers(0, 5))
    if z in (0, 1):
        ops.append(["adv", draw(st.sampled_from(sorted(ADV)))] + (
            ["pha_pending"] if draw(st.booleans()) else []))
    elif z == 2:
        ops.append(["fin", draw(st.sampled_from("cs")),
                    draw(st.sampled_from([0, 1, 300, 20000]))])
    return {"v": v, "ops": ops, "salt": draw(st.integers(0, 3)),
            "resumed": draw(st.integers(0, 3)) == 0,
            "no_cb": draw(st.sampled_from(["", "", "c", "s"]))}


def strategy(tier):
    return cases(tier)


def budget(tier):
    return 400 if tier == "quick" else 24000


def explicit(tier, seed):
    for name in sorted(ADV):
        yield {"v": "tls13", "ops": [["w", "c", 10], ["r", "s"],
                                     ["adv", name, "pha_pending"]]}
        for v in ("tls13", "tls12"):
            yield {"v": v, "ops": [["w", "c", 10], ["r", "s"],
                                   ["adv", name]]}
            yield {"v": v, "ops": [["ku", "c", True], ["ku", "s", True],
                                   ["w", "s", 7], ["adv", name]]}
    for v in ("tls13", "tls12"):
        yield {"v": v, "resumed": True,
               "ops": [["w", "c", 3], ["hb", "c", 5, 16], ["hb", "s", 7, 16],
                       ["w", "s", 4], ["r", "s"], ["r", "c"], ["r", "s"],
                       ["ku", "c", True], ["pha"], ["w", "c", 9], ["r", "s"],
                       ["r", "c"]]}
    for v in ("tls13", "tls12"):
        for no_cb in "cs":
            yield {"v": v, "no_cb": no_cb,
                   "ops": [["w", "c", 3], ["hb", "c", 5, 16],
                           ["hb", "s", 7, 16], ["w", "s", 4], ["r", "s"],
                           ["r", "c"], ["r", "s"], ["r", "c"]]}
    # several authentication requests outstanding, with and without the
    # offer of certificate compression, in every order
    for a, b in ((0, 1), (1, 0), (1, 1), (0, 0)):
        yield {"v": "tls13", "ops": [["pha", a], ["pha", b], ["w", "c", 5],
                                     ["r", "c"], ["r", "s"], ["w", "s", 6],
                                     ["r", "c"], ["r", "s"]]}
    # both sides issue KeyUpdate(update_requested) before either reads
    yield {"v": "tls13", "ops": [["w", "c", 100], ["ku", "c", True],
                                 ["ku", "s", True], ["w", "s", 100],
                                 ["r", "c"], ["r", "s"], ["w", "c", 20000],
                                 ["r", "s"], ["ku", "s", False],
                                 ["w", "s", 5], ["r", "c"]]}
    yield {"v": "tls13", "ops": [["pha"], ["pha"], ["w", "c", 5],
                                 ["r", "c"], ["r", "s"], ["ku", "c", False],
                                 ["w", "c", 9], ["r", "s"]]}
    for v in ("tls13", "tls12"):
        for side in "cs":
            yield {"v": v, "ops": [["w", "c", 3], ["fin", side, 300]]}
            yield {"v": v, "ops": [["w", "c", 3], ["finku", side]]}
            yield {"v": v, "resumed": True,
                   "ops": [["ku", side, True], ["w", "s", 9],
                           ["finku", side]]}
    # the zero-byte pump with data right behind the control message
    for v in ("tls13", "tls12"):
        yield {"v": v, "ops": [["ku", "c", False], ["w", "c", 50],
                               ["p", "s", 0], ["r", "s"], ["pha"],
                               ["w", "s", 9], ["p", "c", 0], ["p", "c", 1],
                               ["r", "c"], ["r", "s"]]}
    # (the last three fill a record exactly / to one byte short)
    for n, pad in ((0, 16), (1, 16), (300, 100), (5, 15), (5, 0),
                   (16365, 16), (16364, 16), (16349, 32)):
        for v in ("tls13", "tls12"):
            yield {"v": v, "ops": [["w", "c", 3], ["hb", "c", n, pad],
                                   ["hb", "s", n, pad], ["w", "s", 4],
                                   ["r", "s"], ["r", "c"], ["r", "s"]]}
