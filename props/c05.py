"""C05 - peer credentials are recorded only after proof of possession."""
import hashlib

from hypothesis import strategies as st

from vlib.runner import good, bad, HarnessError, BaselineBroken
from vlib.det import DET
from vlib import scenario as sc
from vlib.deviant import Deviant
from vlib.driver import drive, describe_exc, exc_site

from tlslite.errors import (BaseTLSException, TLSLocalAlert,
                            TLSAuthenticationError, TLSFingerprintError)
from tlslite.constants import ContentType
from tlslite.checker import Checker

ID = "C05"
LEVEL = "fault_enumeration"
RULE = ("site x corruption x key type x version, enumerated: proof sites = "
        "ServerKeyExchange signature (TLS 1.0-1.2: RSA, ECDSA, EdDSA, DSA), "
        "TLS<=1.2 client CertificateVerify, TLS 1.3 server and client "
        "CertificateVerify, post-handshake authentication, Finished of "
        "either side, SRP password proof, TLS 1.3 external PSK binder, "
        "resumption PSK binder, Checker fingerprint; corruptions = bit flip "
        "in the proof, proof made with another key of the same type "
        "(presents A, proves B), proof replayed from another handshake, "
        "scheme the verifier did not offer, proof message replaced by "
        "garbage, wrong password / unknown user / A mod N = 0, wrong PSK "
        "secret, flipped binder, non-matching fingerprint; degenerate "
        "signature values (DSA/ECDSA (1,0) (0,1) (q,.), RSA 0/1/n-1/n, "
        "all-zero EdDSA); SRP attacker who sends A = 0 mod N and uses the "
        "premaster that forces; wrong Finished closing a post-handshake "
        "authentication whose Certificate/CertificateVerify were valid; "
        "client identity carried in a ticket the server declines (other "
        "hash, expired, other version, other key) followed by a full "
        "handshake without client certificate. Each case has a "
        "positive control (honest run completes and attributes exactly the "
        "presented identity). non-trivial = the corrupted proof reached the "
        "verifier; distinct = (site, key, version, corruption)")
ASSUMPTIONS = [
    "omitted proof messages are C06's domain (order); here the proof is "
    "present but wrong",
    "the deviant is a real endpoint with harness-side wrappers; its own "
    "sign-then-verify self check is satisfied because it verifies with the "
    "key it signs with",
]
MAX_WALL = {"quick": 240, "thorough": 3000}

PAIRS = {   # presented credential -> another key of the same type
    "rsa": "rsa_b", "ecdsa": "ecdsa_b", "ed25519": "c_ed25519",
    "dsa": "c_dsa", "rsapss": "rsapss_sig", "p384": None,
    "c_rsa": "rsa1024", "c_ecdsa": "ecdsa", "c_ed25519": "ed25519",
    "c_dsa": "dsa",
}


def init(tier, seed):
    DET.install()


def settings_for(ver, kx=None, **kw):
    v = sc.VER[ver]
    d = dict(minVersion=v, maxVersion=v)
    if kx:
        d["keyExchangeNames"] = kx
    d.update(kw)
    return d


KX_FOR = {"rsa": ["ecdhe_rsa"], "ecdsa": ["ecdhe_ecdsa"],
          "ed25519": ["ecdhe_ecdsa"], "dsa": ["dhe_dsa"],
          "rsapss": ["ecdhe_rsa"]}

SITES = []
for _ver in ("tls10", "tls11", "tls12"):
    for _k in ("rsa", "ecdsa", "dsa") + (("ed25519", "rsapss")
                                         if _ver == "tls12" else ()):
        SITES.append(("ske", _ver, _k))
for _ver in ("tls10", "tls11", "tls12"):
    SITES.append(("ske_srp", _ver, "rsa"))
for _k in ("rsa", "ecdsa", "ed25519", "rsapss", "p384"):
    SITES.append(("cv13_server", "tls13", _k))
for _ver in ("tls10", "tls12"):
    for _k in ("c_rsa", "c_ecdsa", "c_dsa") + (("c_ed25519",)
                                               if _ver == "tls12" else ()):
        SITES.append(("cv_client", _ver, _k))
for _k in ("c_rsa", "c_ecdsa", "c_ed25519"):
    SITES.append(("cv13_client", "tls13", _k))
    SITES.append(("pha", "tls13", _k))
    SITES.append(("pha_fin", "tls13", _k))
CORR = ["none", "flip", "other_key", "replay", "garbage", "unoffered",
        "resigned_ok", "degenerate0", "degenerate1", "degenerate2",
        "degenerate3"]


def _der_int(n):
    b = n.to_bytes(max(1, (n.bit_length() + 8) // 8), "big")
    return b"\x02" + bytes([len(b)]) + b


def _der_sig(r, s_):
    body = _der_int(r) + _der_int(s_)
    return b"\x30" + bytes([len(body)]) + body


def degenerate_sig(key, pub, i):
    """Classic universal-forgery candidates for each signature scheme."""
    if key.endswith("dsa") and not key.endswith("ecdsa"):
        q = pub.q
        return [_der_sig(1, 0), _der_sig(0, 1), _der_sig(1, q),
                _der_sig(q + 1, 0)][i]
    if "ecdsa" in key or key in ("p384",):
        n = pub.public_key.curve.order
        return [_der_sig(0, 0), _der_sig(1, 0), _der_sig(n, 1),
                _der_sig(1, n)][i]
    if "ed25519" in key:
        return [bytes(64), b"\x01" + bytes(63), bytes(32) + b"\xff" * 32,
                b"\xff" * 64][i]
    # RSA: s = 0, 1, n-1, n
    k = (len(pub) + 7) // 8
    n = pub.n
    return [(0).to_bytes(k, "big"), (1).to_bytes(k, "big"),
            (n - 1).to_bytes(k, "big"), n.to_bytes(k, "big")][i]


def replace_sig(data, new):
    """Replace the trailing 2-byte-length signature vector of a handshake
    message and fix the outer length."""
    body = bytes(data[4:])
    best = None
    for off in range(len(body) - 2, -1, -1):
        ln = int.from_bytes(body[off:off + 2], "big")
        if ln == len(body) - off - 2 and 30 <= ln <= 600:
            best = off
    if best is None:
        return None
    nb = body[:best] + len(new).to_bytes(2, "big") + new
    return bytes([data[0]]) + len(nb).to_bytes(3, "big") + nb


def flip_last(data, n=3):
    b = bytearray(data)
    b[-n] ^= 0x40
    return bytes(b)


def run_site(site, ver, key, corr, seed, record=None):
    """Returns (pair, verifier side, info)."""
    info = {}
    server_side = site in ("ske", "cv13_server", "ske_srp")
    # who presents the credential under test
    if server_side:
        scred, ccred = key, None
        kx = KX_FOR.get(key)
    else:
        scred, ccred = "rsa", key
        kx = ["ecdhe_rsa"]
    ckw = settings_for(ver, kx if ver != "tls13" else None)
    skw = settings_for(ver, kx if ver != "tls13" else None)
    client = {"settings": sc.mk_settings(**ckw)}
    server = {"settings": sc.mk_settings(**skw)}
    chain, pkey = sc.cred(scred)
    server["certChain"], server["privateKey"] = chain, pkey
    if site == "ske_srp":
        # SRP authenticated additionally by the server certificate: the
        # ServerKeyExchange carries a signature here too
        for o in (client, server):
            o["settings"].keyExchangeNames = ["srp_sha_rsa"]
        client["mode"] = "srp"
        server["verifierDB"] = sc.srp_db()
    if ccred:
        cchain, ckey = sc.cred(ccred)
        client["certChain"], client["privateKey"] = cchain, ckey
        if site not in ("pha", "pha_fin"):
            server["reqCert"] = True
    prover = "s" if server_side else "c"
    if corr == "other_key":
        other = PAIRS.get(key)
        if other is None:
            return None, None, {"na": True}
        okey = sc.cred(other)[1]
        if server_side:
            server["privateKey"] = okey
        else:
            client["privateKey"] = okey
    if corr == "unoffered":
        # verifier accepts only one hash; prover is forced to another
        if server_side:
            client["settings"] = sc.mk_settings(**dict(
                ckw, rsaSigHashes=["sha384"], ecdsaSigHashes=["sha384"],
                dsaSigHashes=["sha384"], more_sig_schemes=[]))
        else:
            server["settings"] = sc.mk_settings(**dict(
                skw, rsaSigHashes=["sha384"], ecdsaSigHashes=["sha384"],
                dsaSigHashes=["sha384"], more_sig_schemes=[]))
    target_type = {"ske": 12, "ske_srp": 12, "cv13_server": 15,
                   "cv_client": 15,
                   "cv13_client": 15, "pha": 15, "pha_fin": 20}[site]
    state = {"seen": 0, "fin": 0}

    def fn(dev, idx, ct, data):
        if ct != ContentType.handshake or data[0] != target_type:
            return None
        if site == "pha_fin":
            # the valid Certificate and CertificateVerify went out; only the
            # Finished that closes the post-handshake exchange is wrong
            state["fin"] += 1
            if state["fin"] < 2:
                return None
        state["seen"] += 1
        if record is not None and corr == "none":
            record["msg"] = data
        if corr == "flip":
            info["reached"] = True
            return [(ct, flip_last(data))]
        if corr == "garbage":
            info["reached"] = True
            body = data[4:]
            # keep framing of everything but the signature bytes
            g = hashlib.sha256(data).digest() * 20
            nb = body[:max(4, len(body) - 40)] + g[:40]
            nb = nb[:len(body)]
            return [(ct, data[:4] + nb)]
        if corr == "replay" and record and record.get("msg"):
            info["reached"] = True
            return [(ct, record["msg"])]
        if corr == "other_key":
            info["reached"] = True
        if corr.startswith("degenerate"):
            pub = (chain if server_side else cchain).getEndEntityPublicKey()
            new = replace_sig(data, degenerate_sig(key, pub, int(corr[-1])))
            if new is None:
                return None
            info["reached"] = True
            return [(ct, new)]
        if corr in ("unoffered", "resigned_ok"):
            # re-sign the proof with the real key but with a scheme the
            # verifier (SHA-384 only) did not offer; 'resigned_ok' is the
            # control: same re-signed proof, verifier offers everything
            new = resign(dev.conn, data, site, ver, key,
                         server["privateKey"] if server_side
                         else client["privateKey"], prover)
            if new is None:
                return None
            info["reached"] = True
            info["scheme"] = (new[4], new[5])
            return [(ct, new)]
        return None

    def force_pick_unused(conn):
        """make the prover use a scheme the verifier did not offer"""
        if server_side and ver != "tls13":
            name = {"rsa": "sha1", "rsapss": "rsa_pss_pss_sha256",
                    "ecdsa": "sha1", "dsa": "sha1",
                    "ed25519": "ed25519"}[key]
            conn._pickServerKeyExchangeSig = \
                lambda *a, **k: (name, chain, server["privateKey"])
        else:
            orig = conn._sigHashesToList

            def lst(settings, privateKey=None, certList=None,
                    version=(3, 3)):
                from tlslite.handshakesettings import HandshakeSettings
                s2 = HandshakeSettings()
                s2.rsaSigHashes = ["sha256"]
                s2.ecdsaSigHashes = ["sha256", "sha512", "sha1"]
                s2.dsaSigHashes = ["sha1"]
                return orig(s2, privateKey, certList, version)
            conn._sigHashesToList = lst
            if not server_side:
                # the client picks the first of *its* list that the server
                # offered; make the intersection step a no-op
                import tlslite.tlsconnection as tc
                conn._c05_unoffered = True

    def prepare(cc, scn):
        dconn = scn if prover == "s" else cc
        Deviant(dconn, fn)
    DET.reseed("C05", site, ver, key, seed)
    p = sc.connect(client, server, prepare=prepare)
    info["seen"] = state["seen"]
    if site in ("pha", "pha_fin") and p.both_ok:
        # server requests post-handshake authentication
        info["before"] = p.s.session.clientCertChain
        pha_settings, forced = None, None
        if site == "pha" and corr in ("unoffered", "resigned_ok") and \
                key in ("rsa", "rsa1024", "c_rsa"):
            # this request offers RSA with SHA-256 only; the client ignores
            # the list and signs with a SHA-384 scheme ('resigned_ok': the
            # control, it is forced to the scheme that was offered)
            from tlslite.constants import SignatureScheme
            pha_settings = sc.mk_settings(rsaSigHashes=["sha256"],
                                          rsaSchemes=["pss"])
            forced = SignatureScheme.rsa_pss_rsae_sha384 \
                if corr == "unoffered" else SignatureScheme.rsa_pss_rsae_sha256
            info["pha_forced"] = forced
        outs, _ = drive({"s": p.s.request_post_handshake_auth(pha_settings)},
                        p.link, on_stall="leave")
        if not outs["s"].ok:
            raise BaselineBroken("pha-request", repr(outs["s"]))
        # client processes the request (and answers), server reads answer
        if forced is not None:
            import tlslite.tlsrecordlayer as trl
            orig_gfm = trl.getFirstMatching
            trl.getFirstMatching = lambda a, b: forced
            try:
                oc = sc.do_read(p, "c", 10, 0)
            finally:
                trl.getFirstMatching = orig_gfm
            state["seen"] += 1
        else:
            oc = sc.do_read(p, "c", 10, 0)
        os_ = sc.do_read(p, "s", 10, 0)
        info["pha_client"] = oc
        info["pha_server"] = os_
        info["seen"] = state["seen"]
    return p, ("c" if server_side else "s"), info


def resign(conn, data, site, ver, key, pkey, prover):
    """CertificateVerify re-signed with a SHA-256 scheme (TLS >= 1.2)."""
    from tlslite.keyexchange import KeyExchange
    from vlib import tap
    if data[0] != 15 or ver not in ("tls12", "tls13") or site == "pha":
        return None
    kt = pkey.key_type
    v = sc.VER[ver]
    if kt == "rsa":
        scheme = (8, 4) if v == (3, 4) else (4, 1)
    elif kt == "rsa-pss":
        scheme = (8, 9)
    elif kt == "ecdsa":
        if v == (3, 4) and pkey.private_key.curve.baselen != 32:
            return None     # TLS 1.3 binds the hash to the curve
        scheme = (4, 3)
    elif kt == "dsa" and v == (3, 3):
        scheme = (4, 2)
    else:
        return None
    hh = conn._handshake_hash.copy()
    prf = None
    if v == (3, 4):
        sockp = conn.sock.socket
        wire = bytes(sockp.tx.log if prover == "s" else sockp.rx.log)
        msgs, _, _ = tap.plaintext_flight(wire)
        sh = [b for t, b in msgs if t == 2][-1]
        suite = tap.parse_server_hello(sh)["suite"]
        prf = "sha384" if suite == 0x1302 else "sha256"
    vb = KeyExchange.calcVerifyBytes(
        v, hh, scheme, None, None, None, prf,
        b"server" if prover == "s" else b"client", key_type=kt)
    if kt == "ecdsa":
        vb = vb[:pkey.private_key.curve.baselen]
        sig = pkey.sign(vb, hashAlg="sha256")
    elif kt == "dsa":
        sig = pkey.sign(vb)
    elif scheme[0] == 8:
        sig = pkey.sign(vb, "pss", "sha256", 32)
    else:
        sig = pkey.sign(vb)         # already carries the DigestInfo prefix
    body = bytes(scheme) + len(sig).to_bytes(2, "big") + bytes(sig)
    return b"\x0f" + len(body).to_bytes(3, "big") + body


def check(case):
    k = case["k"]
    if k == "sig":
        return check_sig(case)
    return globals()["check_" + k](case)


def check_sig(case):
    site, ver, key, corr = case["site"], case["ver"], case["key"], \
        case["corr"]
    labels = ["site=" + site, "ver=" + ver, "key=" + key, "corr=" + corr]
    record = {}
    if corr == "replay":
        # record the proof message of another (honest) handshake first
        p0, _, _ = run_site(site, ver, key, "none", case["seed"] + 77,
                            record=record)
        if "msg" not in record:
            raise HarnessError("nothing recorded for replay")
    p, verifier, info = run_site(site, ver, key, corr, case["seed"],
                                 record=record)
    if p is None:
        return good(nt=False, labels=labels + ["not-applicable"])
    vconn = p.conn(verifier)
    vout = p.co if verifier == "c" else p.so
    presented = sc.cred(key)[0]
    attr = "serverCertChain" if verifier == "c" else "clientCertChain"
    where = "%s:%s:%s:%s" % (site, ver, key, corr)
    if site == "pha_fin" and corr not in ("none", "flip", "garbage"):
        return good(nt=False, labels=labels + ["not-applicable"])
    if site in ("pha", "pha_fin"):
        if not p.both_ok:
            if corr == "unoffered":
                return good(nt=False, labels=labels + ["not-applicable"])
            raise BaselineBroken("pha-base-handshake", "%r %r" % (p.co, p.so))
        os_ = info["pha_server"]
        got = p.s.session.clientCertChain
        if corr in ("unoffered", "resigned_ok") and \
                info.get("pha_forced") is None:
            return good(nt=False, labels=labels + ["not-applicable"])
        if corr == "resigned_ok":
            if os_.state == "exc" or got is None:
                return bad("resigned-control-rejected:" + where,
                           "post-handshake proof with the one scheme the "
                           "request offered: server read %r" % (os_,),
                           labels=labels)
            return good(labels=labels + ["control-accepted"])
        if corr == "none":
            if os_.state == "exc" or got is None or \
                    got.x509List[0].bytes != presented.x509List[0].bytes:
                return bad("positive-control-fails:" + where,
                           "PHA honest run: server read %r, chain %r" % (
                               os_, got), labels=labels)
            return good(nt=False, labels=labels)
        if not info["seen"]:
            return good(nt=False, labels=labels + ["proof-not-sent"])
        if got is not None and got is not info["before"]:
            return bad("identity-attributed-without-proof:" + where,
                       "server recorded a client chain after a corrupted "
                       "post-handshake proof (read outcome %r)" % (os_,),
                       labels=labels)
        if os_.state != "exc":
            return bad("corrupted-proof-not-rejected:" + where,
                       "server read gave %r" % (os_,), labels=labels)
        if not isinstance(os_.exc, TLSLocalAlert):
            return bad("rejected-without-alert:%s:%s" % (
                site, type(os_.exc).__name__), describe_exc(os_.exc),
                labels=labels)
        return good(labels=labels + ["alert=" + describe_exc(os_.exc)])
    if corr == "resigned_ok":
        if not info.get("reached"):
            return good(nt=False, labels=labels + ["not-applicable"])
        if not vout.ok:
            return bad("resigned-control-rejected:" + where,
                       "a valid proof re-signed with an offered SHA-256 "
                       "scheme was rejected: %r" % (vout,), labels=labels)
        return good(labels=labels + ["control-accepted"])
    if corr == "none":
        if not p.both_ok:
            return bad("positive-control-fails:" + where,
                       "client %r server %r" % (p.co, p.so), labels=labels)
        ch = getattr(vconn.session, attr)
        if ch is None or ch.x509List[0].bytes != presented.x509List[0].bytes:
            return bad("positive-control-wrong-chain:" + where, "",
                       labels=labels)
        return good(nt=False, labels=labels)
    if corr == "unoffered" and not info.get("reached"):
        return good(nt=False, labels=labels + ["not-applicable"])
    if not info.get("reached"):
        return good(nt=False, labels=labels + ["proof-not-sent"])
    if not info["seen"]:
        return good(nt=False, labels=labels + ["proof-not-sent"])
    if vout.ok:
        ch = getattr(vconn.session, attr) if vconn.session else None
        return bad("identity-attributed-without-proof:" + where,
                   "verifier completed; %s=%s" % (
                       attr, "set" if ch is not None else "None"),
                   labels=labels)
    if vout.state != "exc":
        return good(labels=labels + ["stalled"])
    e = vout.exc
    if not isinstance(e, (BaseTLSException, OSError)):
        return bad("unrelated-exception:%s@%s" % (type(e).__name__,
                                                  exc_site(e)), where,
                   labels=labels)
    if not isinstance(e, TLSLocalAlert):
        if corr == "unoffered" and not isinstance(e, TLSLocalAlert):
            # the prover may have refused to sign at all
            return good(labels=labels + ["prover-refused"])
        return bad("rejected-without-alert:%s:%s" % (site,
                                                     type(e).__name__),
                   describe_exc(e), labels=labels)
    return good(labels=labels + ["alert=" + describe_exc(e)])


# ------------------------------------------------------------------ SRP ---
def check_srp(case):
    ver, corr = case["ver"], case["corr"]
    labels = ["site=srp", "ver=" + ver, "corr=" + corr]
    st_ = settings_for(ver)
    client = {"mode": "srp", "settings": sc.mk_settings(**st_)}
    server = {"verifierDB": sc.srp_db(), "settings": sc.mk_settings(**st_)}
    if case.get("cert"):
        server["cred"] = "rsa"
    if corr == "wrong_password":
        client["password"] = "wonderlanD"
    elif corr == "unknown_user":
        client["username"] = "mallory"
    state = {}

    def fn(dev, idx, ct, data):
        if corr in ("a_zero", "a_n", "a_2n") and ct == 22 and data[0] == 16:
            from tlslite.mathtls import goodGroupParameters
            N = goodGroupParameters[1][1]      # 1536? use DB group
            db = sc.srp_db()
            N = db[b"alice"][0]
            A = {"a_zero": 0, "a_n": N, "a_2n": 2 * N}[corr]
            ab = A.to_bytes(max(1, (A.bit_length() + 7) // 8), "big")
            body = len(ab).to_bytes(2, "big") + ab
            state["sent"] = True
            return [(ct, b"\x10" + len(body).to_bytes(3, "big") + body)]
        return None

    def prepare(cc, scn):
        Deviant(cc, fn)
    DET.reseed("C05srp", ver, corr)
    if corr.startswith("atk_"):
        # an attacker without the password: A = 0 (mod N) forces the
        # server's premaster secret to 0 - and the attacker knows that
        import tlslite.keyexchange as kxm
        from tlslite.utils.cryptomath import numberToByteArray
        client["password"] = "not-the-password"
        orig = kxm.SRPKeyExchange.processServerKeyExchange
        mult = {"atk_a_zero": 0, "atk_a_n": 1, "atk_a_2n": 2}[corr]

        def forged(self, srvPublicKey, serverKeyExchange):
            orig(self, srvPublicKey, serverKeyExchange)
            self.A = mult * serverKeyExchange.srp_N
            state["sent"] = True
            return numberToByteArray(0)
        kxm.SRPKeyExchange.processServerKeyExchange = forged
        try:
            p = sc.connect(client, server)
        finally:
            kxm.SRPKeyExchange.processServerKeyExchange = orig
    else:
        p = sc.connect(client, server, prepare=prepare)
    if corr == "ext_only":
        # SRP user name merely *claimed* in the ClientHello of a certificate
        # handshake (no SRP suite negotiated, no password proof)
        from vlib import tap
        st2 = sc.mk_settings(**dict(st_, keyExchangeNames=["ecdhe_rsa",
                                                           "rsa"]))

        def add_srp(dev, idx, ct, data):
            if ct != 22 or data[0] != 1 or state.get("sent"):
                return None
            h = tap.parse_client_hello(data[4:])
            exts = tap.ext_list(h)
            if any(t == 12 for t, _ in exts):
                return None
            state["sent"] = True
            exts.append((12, b"\x05alice"))
            return [(ct, tap.build_client_hello(
                h["version"], h["random"], h["session_id"], h["suites"],
                exts))]

        def prep2(cc, scn):
            Deviant(cc, add_srp)
        srv = {"cred": "rsa", "settings": sc.mk_settings(**st_)}
        if case.get("cert"):
            srv["verifierDB"] = sc.srp_db()
        p = sc.connect({"settings": st2}, srv, prepare=prep2)
        if not state.get("sent"):
            return good(nt=False, labels=labels + ["not-applied"])
        if p.so.ok and p.s.session.srpUsername:
            return bad("identity-attributed-without-proof:srp:%s:ext_only"
                       % ver, "certificate handshake, suite %04x: server "
                       "records srpUsername=%r" % (
                           p.s.session.cipherSuite,
                           p.s.session.srpUsername), labels=labels)
        return good(labels=labels + ["completed" if p.so.ok else "failed"])
    if corr == "none":
        if not p.both_ok or p.s.session.srpUsername != "alice":
            return bad("positive-control-fails:srp:" + ver,
                       "%r %r" % (p.co, p.so), labels=labels)
        return good(nt=False, labels=labels)
    if p.so.ok:
        return bad("identity-attributed-without-proof:srp:%s:%s" % (
            ver, corr), "server completed, srpUsername=%r" % (
                p.s.session.srpUsername,), labels=labels)
    if p.co.ok:
        return bad("client-completes-without-server-proof:srp:" + corr, "",
                   labels=labels)
    if p.so.state == "exc" and not isinstance(p.so.exc, (BaseTLSException,
                                                          OSError)):
        return bad("unrelated-exception:%s@%s" % (
            type(p.so.exc).__name__, exc_site(p.so.exc)), corr,
            labels=labels)
    if not isinstance(p.so.exc, TLSLocalAlert) and not isinstance(
            p.co.exc, TLSLocalAlert):
        return bad("rejected-without-alert:srp:" + corr,
                   "%r %r" % (p.co, p.so), labels=labels)
    return good(labels=labels)


# ------------------------------------------------------------------ PSK ---
def check_psk(case):
    corr = case["corr"]
    labels = ["site=psk", "corr=" + corr]
    secret = bytearray(b"\x11" * 32)
    cpsk = [(bytearray(b"client-1"), bytearray(secret), case["hash"])]
    spsk = [(bytearray(b"client-1"), bytearray(secret), case["hash"]),
            (bytearray(b"client-2"), bytearray(b"\x22" * 32), case["hash"])]
    if corr == "wrong_secret":
        cpsk = [(bytearray(b"client-1"), bytearray(b"\x12" * 32),
                 case["hash"])]
    elif corr == "other_identity":
        # binder computed with client-1's secret, identity renamed in flight
        pass
    st_c = sc.mk_settings(minVersion=(3, 4), maxVersion=(3, 4),
                          pskConfigs=cpsk)
    st_s = sc.mk_settings(minVersion=(3, 4), maxVersion=(3, 4),
                          pskConfigs=spsk)
    state = {}

    def fn(dev, idx, ct, data):
        if ct == 22 and data[0] == 1 and corr in ("flip_binder",
                                                  "other_identity"):
            b = bytearray(data)
            if corr == "flip_binder":
                b[-5] ^= 0x20
            else:
                i = bytes(b).find(b"client-1")
                if i < 0:
                    return None
                b[i:i + 8] = b"client-2"
            state["sent"] = True
            return [(ct, bytes(b))]
        return None

    def prepare(cc, scn):
        Deviant(cc, fn)
    DET.reseed("C05psk", corr, case["hash"])
    p = sc.connect({"settings": st_c}, {"cred": "rsa", "settings": st_s},
                   prepare=prepare)
    sawcert = p.c.session is not None and \
        p.c.session.serverCertChain is not None
    if corr == "none":
        if not p.both_ok or sawcert:
            return bad("positive-control-fails:psk",
                       "%r %r cert=%r" % (p.co, p.so, sawcert),
                       labels=labels)
        return good(nt=False, labels=labels)
    # a wrong PSK proof must never yield a PSK-authenticated connection:
    # either the handshake fails, or it falls back to certificates
    if p.both_ok and not sawcert:
        return bad("psk-accepted-without-proof:" + corr,
                   "both completed with PSK authentication", labels=labels)
    if p.so.ok and not p.co.ok:
        return bad("server-completes-psk-without-proof:" + corr,
                   "%r %r" % (p.co, p.so), labels=labels)
    for o in (p.co, p.so):
        if o.state == "exc" and not isinstance(o.exc, (BaseTLSException,
                                                       OSError)):
            return bad("unrelated-exception:%s@%s" % (
                type(o.exc).__name__, exc_site(o.exc)), corr, labels=labels)
    return good(labels=labels + ["fallback" if p.both_ok else "rejected"])


# ----------------------------------------------- delegated credentials ---
DC_KEYS = {"rsapss": ("serverDelCredRSAPSSKey.pem",
                      "serverDelCredRSAPSSPub.pem", (8, 9)),
           "ed25519": ("serverDelCredEd25519Key.pem",
                       "serverDelCredEd25519Pub.pem", (8, 7)),
           "p256": ("serverDelCredSECP256r1Key.pem",
                    "serverDelCredSECP256r1Pub.pem", (4, 3)),
           "p384": ("serverDelCredSECP384r1Key.pem",
                    "serverDelCredSECP384r1Pub.pem", (5, 3))}
# end-entity credential -> scheme it signs the delegation with
DC_CERTS = {"rsapss_sig": (8, 9), "ecdsa": (4, 3), "ed25519": (8, 7)}


def make_dc(cert_name, dc_name, corrupt=None, for_cert=None):
    from tlslite.x509 import DelegatedCredential, Credential
    from tlslite.utils.keyfactory import parsePEMKey
    from tlslite.utils.pem import dePem
    from tlslite.constants import SignatureScheme
    import os
    from vlib import ROOT
    kf, pf, dc_alg = DC_KEYS[dc_name]
    kd = os.path.join(ROOT, "assets", "keys")
    dc_key = parsePEMKey(open(os.path.join(kd, kf)).read(), private=True,
                         implementations=["python"])
    dc_pub = dePem(open(os.path.join(kd, pf)).read(), "PUBLIC KEY")
    chain, key = sc.cred(cert_name)
    bound = sc.cred(for_cert)[0] if for_cert else chain
    sig_alg = DC_CERTS[cert_name]
    valid = 7 * 24 * 3600
    cred_bytes = Credential.marshal(valid, dc_alg, dc_pub)
    cred = Credential(valid_time=valid, dc_cert_verify_algorithm=dc_alg,
                      subject_public_key_info=dc_pub, bytes=cred_bytes)
    ctx = DelegatedCredential.compute_certificate_dc_sig_context(
        bound.x509List[0].bytes, cred_bytes, sig_alg)
    scheme = SignatureScheme.toRepr(sig_alg)
    if sig_alg in ((8, 7), (8, 8)):
        args = (None, "intrinsic", None)
    elif sig_alg[1] == 3:
        args = (None, {4: "sha256", 5: "sha384", 6: "sha512"}[sig_alg[0]],
                None)
    else:
        hn = SignatureScheme.getHash(scheme)
        args = (SignatureScheme.getPadding(scheme), hn,
                hashlib.new(hn).digest_size)
    sig = bytearray(key.hashAndSign(ctx, *args))
    if corrupt == "flip_delegation":
        sig[-3] ^= 0x40
    dc = DelegatedCredential(cred=cred, algorithm=sig_alg, signature=sig)
    return chain, key, dc_key, dc, dc_alg


def check_dc(case):
    """RFC 9345: the end-entity key signs the credential (delegation), the
    credential's key signs CertificateVerify. Either proof missing or wrong
    must fail; nothing may be attributed."""
    cert, dcn, corr = case["cert"], case["dc"], case["corr"]
    labels = ["site=dc", "cert=" + cert, "dc=" + dcn, "corr=" + corr]
    DET.reseed("C05dc", cert, dcn, corr)
    try:
        chain, key, dc_key, dc, dc_alg = make_dc(
            cert, dcn, corrupt=corr,
            for_cert="rsapss" if corr == "other_cert" and
            cert == "rsapss_sig" else ("p384" if corr == "other_cert"
                                       else None))
    except Exception as e:      # noqa
        raise HarnessError("cannot build delegated credential: %r" % (e,))
    all_algs = [v[2] for v in DC_KEYS.values()]
    offered = [a for a in all_algs if not (corr == "unoffered" and
                                           a == dc_alg)]
    st_ = dict(minVersion=(3, 4), maxVersion=(3, 4))
    ckw = {}
    if corr == "delegation_unoffered":
        # the scheme the end-entity key signed the *delegation* with is not
        # in the client's signature_algorithms (RFC 9345 section 4.1.3)
        ckw = {(8, 9): {"rsaSigHashes": ["sha384"]},
               (4, 3): {"ecdsaSigHashes": ["sha384"]},
               (8, 7): {"more_sig_schemes": ["Ed448"]}}[DC_CERTS[cert]]
    client = {"settings": sc.mk_settings(dc_sig_algs=offered, **dict(
        st_, **ckw))}
    server = {"settings": sc.mk_settings(**st_), "certChain": chain,
              "privateKey": None, "dc_key": dc_key, "del_cred": dc}
    if corr == "cv_other_key":
        # CertificateVerify made with the certificate's key although a
        # credential (with another key) is presented
        server["dc_key"] = key
    if corr == "cv_flip":
        state = {}

        def fn(dev, idx, ct, data):
            if ct == 22 and data[0] == 15 and not state.get("d"):
                state["d"] = True
                return [(ct, flip_last(data))]
            return None

        def prepare(cc, scn):
            Deviant(scn, fn)
    else:
        prepare = None
    try:
        p = sc.connect(client, server, prepare=prepare)
    except Exception as e:      # noqa - server-side refusal to start
        return good(nt=False, labels=labels + ["server-api-refused"])
    used = p.c.session is not None and getattr(
        p.c.session, "delegated_credential", None) is not None
    labels.append("client=" + (describe_exc(p.co.exc) if p.co.exc
                               else p.co.state))
    if corr == "none":
        if not p.both_ok or not used:
            return bad("positive-control-fails:dc:%s:%s" % (cert, dcn),
                       "%r %r used=%r" % (p.co, p.so, used), labels=labels)
        return good(nt=False, labels=labels)
    if corr in ("unoffered", "delegation_unoffered"):
        # the server must fall back to its certificate key or fail; the
        # credential must not be used
        if p.co.ok and used:
            return bad("identity-attributed-without-proof:dc:" + corr,
                       "credential with an algorithm the client did not "
                       "offer was accepted", labels=labels)
        return good(labels=labels)
    if p.co.ok:
        return bad("identity-attributed-without-proof:dc:%s:%s:%s" % (
            cert, dcn, corr), "client completed; credential used=%r" % used,
            labels=labels)
    e = p.co.exc
    if p.co.state == "exc" and not isinstance(e, (BaseTLSException,
                                                  OSError)):
        return bad("unrelated-exception:%s@%s" % (type(e).__name__,
                                                  exc_site(e)), corr,
                   labels=labels)
    if p.co.state == "exc" and not isinstance(e, TLSLocalAlert) and \
            p.so.ok:
        return bad("rejected-without-alert:dc:%s" % type(e).__name__,
                   describe_exc(e), labels=labels)
    return good(labels=labels)


# -------------------------------------------- identity from old tickets ---
def check_ticket(case):
    """An identity learnt on an *earlier* connection (carried inside a
    session ticket) may be attributed only when that ticket is actually
    accepted with its binder; a ticket the server declines, followed by a
    full handshake in which the client proves nothing, must leave
    clientCertChain empty."""
    var, v1 = case["var"], case["v1"]
    labels = ["site=ticket", "var=" + var, "v1=" + v1]
    keys = [bytearray(b"T" * 32)]
    s1 = sc.mk_settings(minVersion=sc.VER[v1], maxVersion=sc.VER[v1],
                        ticketKeys=keys, cipherNames=["aes128gcm"])
    c1 = sc.mk_settings(minVersion=sc.VER[v1], maxVersion=sc.VER[v1],
                        cipherNames=["aes128gcm"])
    DET.reseed("C05ticket", var, v1)
    p0 = sc.connect({"settings": c1, "cred": "c_rsa"},
                    {"cred": "rsa", "settings": s1, "reqCert": True})
    if not p0.both_ok or p0.s.session.clientCertChain is None:
        raise BaselineBroken("ticket-first-connection", "%r %r" % (p0.co,
                                                                   p0.so))
    sc.do_write(p0, "s", b"x")
    sc.read_all(p0, "c")
    sess = p0.c.session
    skw = dict(minVersion=(3, 3), maxVersion=(3, 4), ticketKeys=keys)
    ckw = dict(minVersion=(3, 3), maxVersion=(3, 4))
    expect_resume = False
    if var == "control":
        expect_resume = True
        ckw["cipherNames"] = skw["cipherNames"] = ["aes128gcm"]
        ckw["minVersion"] = ckw["maxVersion"] = sc.VER[v1]
    elif var == "hash":
        # the ticket belongs to a SHA-256 session; now only the SHA-384
        # suite is on offer
        ckw["cipherNames"] = ["aes256gcm"]
        ckw["minVersion"] = ckw["maxVersion"] = (3, 4)
    elif var == "hash_xpsk":
        # ... and an external PSK (of that hash) follows the unusable ticket
        # in the same ClientHello: the connection is authenticated by the
        # external PSK alone
        ckw["cipherNames"] = ["aes256gcm"]
        ckw["minVersion"] = ckw["maxVersion"] = (3, 4)
        psk = [(bytearray(b"xpsk-id"), bytearray(b"\x05" * 32), "sha384")]
        ckw["pskConfigs"] = psk
        skw["pskConfigs"] = psk
    elif var == "expired":
        skw["ticketLifetime"] = 3600
        DET.advance(7200)
    elif var == "version":
        # ticket of one version offered in a hello of the other
        other = (3, 4) if v1 == "tls12" else (3, 3)
        ckw["minVersion"] = ckw["maxVersion"] = other
    elif var == "other_key":
        skw["ticketKeys"] = [bytearray(b"U" * 32)]
    if case.get("pin") and var in ("expired", "other_key"):
        ckw["minVersion"] = ckw["maxVersion"] = sc.VER[v1]
        labels.append("pinned")
    copts = {"settings": sc.mk_settings(**ckw), "session": sess}
    sopts = {"cred": "rsa", "settings": sc.mk_settings(**skw),
             "reqCert": True}
    try:
        p = sc.connect(copts, sopts)
    except ValueError:
        return good(nt=False, labels=labels + ["session-refused-by-api"])
    if isinstance(p.co.exc, ValueError):
        return good(nt=False, labels=labels + ["session-refused-by-api"])
    if not p.so.ok:
        labels.append("second-failed")
        for o in (p.co, p.so):
            if o.state == "exc" and not isinstance(
                    o.exc, (BaseTLSException, OSError)):
                return bad("unrelated-exception:%s@%s" % (
                    type(o.exc).__name__, exc_site(o.exc)), var,
                    labels=labels)
        return good(nt=False, labels=labels)
    resumed = bool(p.c.resumed) if p.co.ok else None
    got = p.s.session.clientCertChain
    labels.append("resumed" if resumed else "full")
    if var == "control":
        if not resumed or got is None:
            return bad("positive-control-fails:ticket:" + v1,
                       "resumed=%r chain=%r" % (resumed, got), labels=labels)
        return good(nt=False, labels=labels)
    if not resumed and got is not None:
        return bad("identity-attributed-without-proof:declined-ticket:%s:%s"
                   % (v1, var),
                   "full handshake without a client certificate, yet the "
                   "server records the client chain of the declined ticket",
                   labels=labels)
    return good(labels=labels)


# ------------------------------------------------------------- Finished ---
def check_finished(case):
    ver, side = case["ver"], case["side"]
    labels = ["site=finished", "ver=" + ver, "dev=" + side]
    st_ = settings_for(ver)
    state = {}

    def fn(dev, idx, ct, data):
        if ct == 22 and data[0] == 20 and not state.get("done"):
            state["done"] = True
            b = bytearray(data)
            b[4 + case["pos"] % (len(b) - 4)] ^= 1 << (case["pos"] % 8)
            return [(ct, bytes(b))]
        return None

    def prepare(cc, scn):
        Deviant(cc if side == "c" else scn, fn)
    DET.reseed("C05fin", ver, side)
    p = sc.connect({"settings": sc.mk_settings(**st_)},
                   {"cred": "rsa", "settings": sc.mk_settings(**st_)},
                   prepare=prepare)
    vic = "s" if side == "c" else "c"
    vout = p.co if vic == "c" else p.so
    if vout.ok:
        return bad("wrong-finished-accepted:%s:%s" % (ver, vic),
                   "bit %d of verify_data flipped" % case["pos"],
                   labels=labels)
    if not isinstance(vout.exc, TLSLocalAlert):
        return bad("wrong-finished-no-alert:%s:%s" % (
            ver, type(vout.exc).__name__), describe_exc(vout.exc),
            labels=labels)
    return good(labels=labels)


# -------------------------------------------------------------- Checker ---
def check_checker_resume(case):
    """A peer the Checker turned away must not get in through resumption of
    the session that handshake left behind (Checker is not consulted on
    resumed connections)."""
    from tlslite.api import SessionCache
    labels = ["site=checker-resume", "ver=" + case["ver"],
              "who=" + case["who"]]
    st_ = settings_for(case["ver"])
    schain, cchain = sc.cred("rsa")[0], sc.cred("c_rsa")[0]
    bad_fp = "0" * 40
    client = {"settings": sc.mk_settings(**st_), "cred": "c_rsa"}
    tk = {"ticketKeys": [bytearray(b"q" * 32)]} if case.get("tickets") \
        else {}
    labels.append("mech=" + ("ticket" if tk else "cache"))
    server = {"cred": "rsa", "settings": sc.mk_settings(**dict(st_, **tk)),
              "reqCert": True, "sessionCache": SessionCache()}
    if case["who"] == "s":
        server["checker"] = Checker(x509Fingerprint=bad_fp)
    else:
        client["checker"] = Checker(x509Fingerprint=bad_fp)
    DET.reseed("C05chkres", case["ver"], case["who"])
    p0 = sc.connect(dict(client), dict(server))
    rej = p0.so if case["who"] == "s" else p0.co
    if rej.ok or not isinstance(rej.exc, TLSAuthenticationError):
        return bad("checker-mismatch-accepted:" + case["ver"], repr(rej),
                   labels=labels)
    # the other side did complete and holds a session (and tickets)
    other = p0.c if case["who"] == "s" else p0.s
    if case["who"] == "s":
        sc.read_all(p0, "c")
    sess = p0.c.session
    if sess is None:
        return good(nt=False, labels=labels + ["no-session"])
    client2 = dict(client)
    client2["session"] = sess
    try:
        p = sc.connect(client2, dict(server))
    except ValueError:
        return good(labels=labels + ["session-refused-by-api"])
    vout = p.so if case["who"] == "s" else p.co
    labels.append("second=" + (describe_exc(vout.exc) if vout.exc
                               else vout.state))
    if vout.ok and (p.c.resumed or p.s.resumed):
        return bad("checker-bypassed-by-resumption:%s:%s:%s" % (
            "ticket" if tk else "cache", case["ver"], case["who"]),
            "first handshake rejected by the Checker; the session it left "
            "behind was resumed and the call returned normally",
            labels=labels)
    return good(labels=labels)


def check_checker(case):
    if case.get("resume"):
        return check_checker_resume(case)
    labels = ["site=checker", "ver=" + case["ver"], "match=%r" %
              case["match"]]
    st_ = settings_for(case["ver"])
    chain = sc.cred("rsa")[0]
    fp = chain.getFingerprint()
    if not case["match"]:
        fp = ("0" if fp[0] != "0" else "1") + fp[1:]
    client = {"settings": sc.mk_settings(**st_),
              "checker": Checker(x509Fingerprint=fp)}
    DET.reseed("C05chk", case["ver"], case["match"])
    p = sc.connect(client, {"cred": "rsa",
                            "settings": sc.mk_settings(**st_)})
    if case["match"]:
        if not p.co.ok:
            return bad("checker-rejects-matching-fingerprint", repr(p.co),
                       labels=labels)
        return good(nt=False, labels=labels)
    if p.co.ok:
        return bad("checker-mismatch-accepted:" + case["ver"], "",
                   labels=labels)
    if not isinstance(p.co.exc, TLSAuthenticationError):
        return bad("checker-mismatch-wrong-exception:%s" %
                   type(p.co.exc).__name__, "", labels=labels)
    if not p.c.closed:
        return bad("checker-mismatch-not-closed", "", labels=labels)
    return good(labels=labels)


# ---------------------------------------------------------------------------
def explicit(tier, seed):
    seeds = [seed] if tier == "quick" else [seed + i for i in range(5)]
    for sd in seeds:
        for site, ver, key in SITES:
            for corr in CORR:
                yield {"k": "sig", "site": site, "ver": ver, "key": key,
                       "corr": corr, "seed": sd}
    for ver in ("tls10", "tls12"):
        for cert in (False, True):
            for corr in ("none", "wrong_password", "unknown_user", "a_zero",
                         "a_n", "a_2n", "atk_a_zero", "atk_a_n",
                         "atk_a_2n", "ext_only"):
                yield {"k": "srp", "ver": ver, "corr": corr, "cert": cert}
    for h in ("sha256", "sha384"):
        for corr in ("none", "wrong_secret", "flip_binder",
                     "other_identity"):
            yield {"k": "psk", "corr": corr, "hash": h}
    for ver in ("ssl3", "tls10", "tls12", "tls13"):
        for side in "cs":
            for pos in ((0, 7, 95, 300) if tier == "quick" else range(0, 384,
                                                                      5)):
                yield {"k": "finished", "ver": ver, "side": side,
                       "pos": pos}
        for match in (True, False):
            yield {"k": "checker", "ver": ver, "match": match}
        for who in "sc":
            for tickets in (False, True):
                yield {"k": "checker", "ver": ver, "resume": True,
                       "who": who, "tickets": tickets}
    for cert in sorted(DC_CERTS):
        for dcn in sorted(DC_KEYS):
            for corr in ("none", "flip_delegation", "other_cert",
                         "cv_other_key", "cv_flip", "unoffered",
                         "delegation_unoffered"):
                yield {"k": "dc", "cert": cert, "dc": dcn, "corr": corr}
    for v1 in ("tls13", "tls12"):
        for var in ("control", "hash", "expired", "version", "other_key"):
            yield {"k": "ticket", "var": var, "v1": v1}
            if var in ("expired", "other_key"):
                yield {"k": "ticket", "var": var, "v1": v1, "pin": True}
    yield {"k": "ticket", "var": "hash_xpsk", "v1": "tls13"}


@st.composite
def cases(draw, tier):
    site, ver, key = draw(st.sampled_from(SITES))
    return {"k": "sig", "site": site, "ver": ver, "key": key,
            "corr": draw(st.sampled_from(CORR[1:6] + CORR[7:])),
            "seed": draw(st.integers(0, 10 ** 6))}


def strategy(tier):
    return cases(tier)


def budget(tier):
    return 300 if tier == "quick" else 30000
