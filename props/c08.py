"""C08 - malformed peer input fails cleanly, promptly and within bounded
memory.

Generators: (i) structure-aware mutation of every handshake message of a
catalogue of honest handshakes, injected *before* protection through a
deviant peer (so encrypted phases are reached and the sender's transcript
follows the mutated bytes); (ii) raw byte strings at three cheap targets
(server first flight, client after its hello, established connection).
Oracle: type clause, alert clause, closed/non-resumable clause, no spin,
bounded allocation."""
import hashlib
import tracemalloc

from hypothesis import strategies as st

from vlib.runner import good, bad, HarnessError, BaselineBroken
from vlib.det import DET
from vlib import scenario as sc
from vlib import tap
from vlib.deviant import Deviant
from vlib.driver import drive, describe_exc, exc_site
from vlib.wire import Link, records

from tlslite.api import TLSConnection
from tlslite.errors import (BaseTLSException, TLSLocalAlert, TLSRemoteAlert,
                            TLSAbruptCloseError, TLSAlert,
                            TLSClosedConnectionError)
from tlslite.constants import ContentType

ID = "C08"
LEVEL = "exploration"
RULE = ("case = (handshake flavour, deviant side, index of one of its "
        "handshake messages, mutation) where the mutation re-computes the "
        "enclosing handshake length unless it *is* the length: byte flip, "
        "truncate/extend, set a 1/2/3-byte big-endian field at any offset "
        "to 0/1/max/+-1, zero body, empty body, huge declared length, "
        "other message type, extension-level edits of hello messages "
        "(empty/truncated/extended/duplicated/removed/unknown/garbage "
        "body), edge values for every length-prefixed vector (0, 1, "
        "all-ones, empty, 1 KiB) - plus raw byte strings (honest bytes with "
        "drawn edits, or arbitrary) at server-first-flight, client-after-"
        "hello and established-connection targets - plus (postrec) one "
        "protected post-handshake record of each content type with each "
        "short / lying body of a fixed table, sent by a key-holding peer "
        "to either endpoint in TLS 1.2 and 1.3; non-trivial = mutated "
        "bytes differ from the honest ones and were delivered to the "
        "victim; distinct = hash(case); failures bucketed by (exception "
        "type, innermost tlslite frame)")
ASSUMPTIONS = [
    "allowed outcomes: success, BaseTLSException subclasses, OSError; a "
    "locally detected protocol violation must be a TLSLocalAlert (alert "
    "sent) - TLSRemoteAlert / TLSAbruptCloseError / socket errors need no "
    "alert",
    "work is bounded by a scheduler step budget (deterministic), memory by "
    "tracemalloc peak <= 4 MiB + 64 x bytes received (thorough tier and "
    "explicit huge-length cases)",
    "harness-side API misuse is excluded by construction",
]
MAX_WALL = {"quick": 240, "thorough": 3000}

FLAVOURS = {
    "ssl3-rsa": dict(v="ssl3", kx=["rsa"]),
    "tls10-dhe": dict(v="tls10", kx=["dhe_rsa"]),
    "tls12-rsa": dict(v="tls12", kx=["rsa"], tickets=True, npn=True),
    "tls12-ecdhe-auth": dict(v="tls12", kx=["ecdhe_ecdsa"], cred="ecdsa",
                             reqCert=True, ccred="c_ecdsa", alpn=True,
                             sni="example.com"),
    "tls12-dhe": dict(v="tls12", kx=["dhe_rsa"]),
    # certificate requested, client has none (empty Certificate message)
    "tls12-reqcert-nocert": dict(v="tls12", kx=["ecdhe_rsa"], reqCert=True),
    "tls10-reqcert-nocert": dict(v="tls10", kx=["rsa"], reqCert=True),
    "tls12-anon-dh": dict(v="tls12", anon=True, kx=["dh_anon"]),
    "tls12-anon-ecdh": dict(v="tls12", anon=True, kx=["ecdh_anon"]),
    "tls12-srp": dict(v="tls12", srp=True),
    "tls13": dict(v="tls13", alpn=True, sni="example.com", tickets=True),
    "tls13-auth": dict(v="tls13", reqCert=True, ccred="c_rsa"),
    "tls13-hrr": dict(v="tls13", hrr=True),
    "tls13-nocomp": dict(v="tls13", nocomp=True, cred="ecdsa"),
    "tls13-psk": dict(v="tls13", tickets=True, resume=True),
    "tls12-resume-sid": dict(v="tls12", kx=["ecdhe_rsa"], resume=True,
                             cache=True),
    "tls12-resume-ticket": dict(v="tls12", kx=["rsa"], tickets=True,
                                resume=True),
    # post-handshake authentication: the server's CertificateRequest and
    # the client's Certificate / CertificateVerify / Finished travel through
    # read(), not through a handshake call
    "tls13-pha": dict(v="tls13", ccred="c_rsa", pha=True, c08_only=True),
    "any": dict(v=None),
}
FL_NAMES = sorted(FLAVOURS)


def init(tier, seed):
    DET.install()


def opts_for(name):
    f = FLAVOURS[name]
    ckw, skw = {}, {}
    if f["v"]:
        v = sc.VER[f["v"]]
        ckw.update(minVersion=v, maxVersion=v)
        skw.update(minVersion=v, maxVersion=v)
    else:
        ckw.update(minVersion=(3, 0))
        skw.update(minVersion=(3, 0))
    if "kx" in f:
        ckw["keyExchangeNames"] = f["kx"]
        skw["keyExchangeNames"] = f["kx"]
    if f.get("tickets"):
        skw["ticketKeys"] = [bytearray(b"k" * 32)]
    if f.get("hrr"):
        ckw["keyShares"] = ["x25519"]
        ckw["eccCurves"] = ["x25519", "secp256r1"]
        skw["eccCurves"] = ["secp256r1", "secp384r1"]
        skw["keyShares"] = ["secp256r1"]
    if f.get("nocomp"):
        ckw["certificate_compression_receive"] = []
        ckw["certificate_compression_send"] = []
    client = {"settings": sc.mk_settings(**ckw)}
    server = {"settings": sc.mk_settings(**skw)}
    if f.get("srp"):
        client["mode"] = "srp"
        server["verifierDB"] = sc.srp_db()
    elif f.get("anon"):
        client["mode"] = "anon"
        server["anon"] = True
    else:
        server["cred"] = f.get("cred", "rsa")
    if f.get("reqCert"):
        server["reqCert"] = True
        if f.get("ccred"):
            client["cred"] = f["ccred"]
    if f.get("pha"):
        client["cred"] = f["ccred"]
    if f.get("alpn"):
        client["alpn"] = [bytearray(b"h2"), bytearray(b"http/1.1")]
        server["alpn"] = [bytearray(b"http/1.1")]
    if f.get("npn"):
        client["nextProtos"] = [bytearray(b"http/1.1")]
        server["nextProtos"] = [bytearray(b"spdy/3"),
                                bytearray(b"http/1.1")]
    if f.get("sni"):
        client["serverName"] = f["sni"]
    if f.get("resume"):
        # a fresh original connection for every case (a failed resumption
        # invalidates the session object)
        if f.get("cache"):
            from tlslite.api import SessionCache
            server["sessionCache"] = SessionCache()
        DET.reseed("C08-prior", name)
        p0 = sc.connect(dict(client), dict(server))
        if not p0.both_ok:
            raise BaselineBroken("flavour-prior:" + name,
                                 "%r %r" % (p0.co, p0.so))
        sc.do_write(p0, "s", b"x")
        sc.read_all(p0, "c")
        client["session"] = p0.c.session
    return client, server


_honest = {}


def post_handshake_auth(p):
    """server requests, client reads and answers, server reads"""
    from vlib.driver import drive
    outs, _ = drive({"s": p.s.request_post_handshake_auth()}, p.link,
                    on_stall="leave")
    post = {"req": outs["s"]}
    post["c"] = sc.do_read(p, "c", 10, 0)
    post["s"] = sc.do_read(p, "s", 10, 0)
    return post


def honest(name):
    """message list per side of the honest run: [(type, length)]"""
    if name not in _honest:
        log = {"c": [], "s": []}

        def prepare(cc, scn):
            for side, conn in (("c", cc), ("s", scn)):
                def fn(dev, idx, ct, data, side=side):
                    if idx >= 0:
                        log[side].append((data[0], len(data)))
                    return None
                Deviant(conn, fn)
        client, server = opts_for(name)
        DET.reseed("C08", name)
        p = sc.connect(client, server, prepare=prepare)
        if not p.both_ok:
            raise BaselineBroken("flavour:" + name, "%r %r" % (p.co, p.so))
        sc.do_write(p, "s", b"x")
        sc.read_all(p, "c")
        if FLAVOURS[name].get("pha"):
            post_handshake_auth(p)
        _honest[name] = log
    return _honest[name]


def prg(tag, n):
    out = bytearray()
    i = 0
    while len(out) < n:
        out += hashlib.sha256(b"%s|%d" % (tag, i)).digest()
        i += 1
    return bytes(out[:n])


def fixlen(t, body):
    return bytes([t]) + len(body).to_bytes(3, "big") + bytes(body)


def vectors(body, start=0):
    """Greedy scan for 2-byte length-prefixed vectors laid end to end."""
    out = []
    p = start
    while p + 2 <= len(body):
        ln = int.from_bytes(body[p:p + 2], "big")
        if p + 2 + ln > len(body):
            break
        out.append((p, ln))
        p += 2 + ln
    return out


class _BitWriter(object):
    """LSB-first bit packer (brotli, RFC 7932)."""

    def __init__(self):
        self.acc = 0
        self.count = 0

    def put(self, value, nbits):
        self.acc |= value << self.count
        self.count += nbits

    def bytes(self):
        return bytes((self.acc >> (8 * i)) & 0xff
                     for i in range((self.count + 7) // 8))


def brotli_bomb(blocks, block_len=65536):
    """Minimal brotli stream (RFC 7932; construction adapted from the
    demonstration of seeded change C08-r3m2): each meta-block has one-symbol
    prefix codes and one command 'insert a literal, copy block_len - 1 bytes
    from distance 1' - about 12 bytes for block_len bytes of output."""
    w = _BitWriter()
    w.put(0, 1)                       # WBITS = 16
    for i in range(blocks):
        last = i == blocks - 1
        w.put(1 if last else 0, 1)    # ISLAST
        if last:
            w.put(0, 1)               # ISLASTEMPTY
        w.put(0, 2)                   # MNIBBLES = 4
        w.put(block_len - 1, 16)      # MLEN - 1
        if not last:
            w.put(0, 1)               # ISUNCOMPRESSED
        for _ in range(3):
            w.put(0, 1)               # NBLTYPES = 1 (literal, insert, dist)
        w.put(0, 2)                   # NPOSTFIX
        w.put(0, 4)                   # NDIRECT
        w.put(0, 2)                   # literal context mode
        w.put(0, 1)                   # NTREESL = 1
        w.put(0, 1)                   # NTREESD = 1
        w.put(1, 2), w.put(0, 2), w.put(0x41, 8)    # literal code: 'A'
        w.put(1, 2), w.put(0, 2), w.put(399, 10)    # insert 1 / copy code 23
        w.put(1, 2), w.put(0, 2), w.put(16, 6)      # distance symbol 16
        w.put(block_len - 1 - 2118, 24)             # copy length extra bits
        w.put(0, 1)                                 # distance 1
    return w.bytes()


_bombs = {}


def bomb_blob(mib):
    """built (and kept) outside the traced window: the harness's own
    allocation must not count against the victim"""
    if mib not in _bombs:
        import zlib
        _bombs[mib] = zlib.compress(b"\x00" * (mib * 2 ** 20), 9)
    return _bombs[mib]


def mutate(data, m):
    """data = one handshake message; returns mutated bytes or None."""
    t = data[0]
    body = bytearray(data[4:])
    k = m[0]
    if k == "flip":
        if not body:
            return None
        body[m[1] % len(body)] ^= (m[2] or 1)
        return fixlen(t, body)
    if k == "trunc":
        n = 1 + m[1] % max(1, len(body))
        if n > len(body):
            return None
        return fixlen(t, body[:len(body) - n])
    if k == "extend":
        return fixlen(t, body + prg(b"ext", 1 + m[1] % 300))
    if k == "setlen":
        off, width, mode = m[1], m[2], m[3]
        if len(body) < width:
            return None
        off = off % (len(body) - width + 1)
        cur = int.from_bytes(body[off:off + width], "big")
        mx = (1 << (8 * width)) - 1
        val = {"zero": 0, "one": 1, "max": mx, "plus1": (cur + 1) & mx,
               "minus1": (cur - 1) & mx, "half": cur // 2}[mode]
        body[off:off + width] = val.to_bytes(width, "big")
        return fixlen(t, body)
    if k == "zero":
        return fixlen(t, bytes(len(body)))
    if k == "oid":
        # a well-formed certificate whose key names something the library
        # does not know: another curve (prime239v1 / c2pnb163v1 instead of
        # prime256v1), another key algorithm, another signature algorithm
        table = [(bytes.fromhex("2a8648ce3d030107"),
                  bytes.fromhex("2a8648ce3d030104")),
                 (bytes.fromhex("2a8648ce3d030107"),
                  bytes.fromhex("2a8648ce3d030001")),
                 (bytes.fromhex("2a8648ce3d0201"),
                  bytes.fromhex("2a8648ce3d0202")),
                 (bytes.fromhex("2a864886f70d010101"),
                  bytes.fromhex("2a864886f70d010102")),
                 (bytes.fromhex("2a864886f70d01010b"),
                  bytes.fromhex("2a864886f70d0101ff")),
                 (bytes.fromhex("2b6570"), bytes.fromhex("2b6572"))]
        old_, new_ = table[m[1] % len(table)]
        b = bytes(body)
        if old_ not in b:
            return None
        # the key's own OID is the last occurrence but one in most
        # certificates; m[2] picks the occurrence
        idxs = []
        p = b.find(old_)
        while p >= 0:
            idxs.append(p)
            p = b.find(old_, p + 1)
        p = idxs[m[2] % len(idxs)]
        return fixlen(t, b[:p] + new_ + b[p + len(old_):])
    if k == "empty":
        return fixlen(t, b"")
    if k == "hugelen":
        return bytes([t]) + b"\xff\xff\xff" + bytes(body[:m[1] % 64])
    if k == "type":
        return fixlen(m[1], body)
    if k == "vec":
        # (vectors behind a short fixed-size or 1-byte-length prefix start
        # at small odd offsets: TLS 1.2 CertificateRequest, ServerKeyExchange)
        vs = vectors(body, m[3] % 8 if len(m) > 3 else 0)
        if not vs:
            return None
        p, ln = vs[m[1] % len(vs)]
        new = {"zero": bytes(ln), "one": bytes(max(0, ln - 1)) + b"\x01"
               if ln else b"\x01", "ones": b"\xff" * ln, "empty": b"",
               "byte": b"\x02", "huge": b"\xff" * 1024,
               "minus1": (max(0, int.from_bytes(body[p + 2:p + 2 + ln],
                                                "big") - 1)).to_bytes(
                                                    max(ln, 1), "big")
               }[m[2]]
        nb = body[:p] + len(new).to_bytes(2, "big") + new + body[p + 2 + ln:]
        return fixlen(t, nb)
    if k == "lastvec":
        # the vector that ends the message (signatures, verify data, shares
        # sit there) filled with a boundary value of the same length
        for p in range(len(body) - 2, -1, -1):
            ln = len(body) - p - 2
            if ln >= 1 and int.from_bytes(body[p:p + 2], "big") == ln:
                new = {"ones": b"\xff" * ln, "zero": bytes(ln),
                       "one": bytes(ln - 1) + b"\x01",
                       "high": b"\x80" + bytes(ln - 1)}[m[1]]
                return fixlen(t, bytes(body[:p + 2]) + new)
        return None
    if k == "bomb":
        # CompressedCertificate: a stream that inflates far beyond the
        # (small, in-bounds) length it declares
        if t != 25 or len(body) < 8:
            return None
        import zlib
        alg = int.from_bytes(body[0:2], "big")
        if alg != 1:
            return None
        # m[2]: 0 = 1000 bytes, 1 = the honest length, 2 = nothing at all,
        # 3 = one byte
        declared = {0: 1000, 1: int.from_bytes(body[2:5], "big"), 2: 0,
                    3: 1}[m[2]]
        if len(m) > 3 and m[3] == "brotli":
            # the receiver advertises brotli whenever it can decode it
            blob = brotli_bomb(16 * m[1])
            nb = b"\x00\x02" + declared.to_bytes(3, "big") + \
                len(blob).to_bytes(3, "big") + blob
            return fixlen(t, nb)
        blob = bomb_blob(m[1])
        nb = body[0:2] + declared.to_bytes(3, "big") + \
            len(blob).to_bytes(3, "big") + blob
        return fixlen(t, nb)
    if k == "ext":
        return mutate_ext(data, m)
    raise HarnessError(m)


def mutate_ext(data, m):
    t = data[0]
    body = data[4:]
    op, which = m[1], m[2]
    try:
        if t == 1:
            h = tap.parse_client_hello(body)
            exts = tap.ext_list(h)
        elif t == 2:
            h = tap.parse_server_hello(body)
            exts = tap.parse_server_hello_exts_ordered(body) or []
        elif t == 8:
            exts = []
            el = int.from_bytes(body[0:2], "big")
            p = 2
            while p + 4 <= 2 + el:
                et = int.from_bytes(body[p:p + 2], "big")
                ln = int.from_bytes(body[p + 2:p + 4], "big")
                exts.append((et, bytes(body[p + 4:p + 4 + ln])))
                p += 4 + ln
        elif t in (13, 4):
            # TLS 1.3 CertificateRequest (context, extensions) and
            # NewSessionTicket (..., nonce, ticket, extensions): the
            # extension block is the tail; anything else does not parse so
            if t == 13:
                pre = 1 + body[0]
            else:
                pre = 8 + 1 + body[8]
                pre += 2 + int.from_bytes(body[pre:pre + 2], "big")
            el = int.from_bytes(body[pre:pre + 2], "big")
            if pre + 2 + el != len(body):
                return None
            exts = []
            p = pre + 2
            while p + 4 <= len(body):
                et = int.from_bytes(body[p:p + 2], "big")
                ln = int.from_bytes(body[p + 2:p + 4], "big")
                exts.append((et, bytes(body[p + 4:p + 4 + ln])))
                p += 4 + ln
            if p != len(body):
                return None
        else:
            return None
    except (IndexError, ValueError):
        return None
    if not exts and op not in ("add_unknown", "add_known"):
        return None
    exts = list(exts)
    i = which % max(1, len(exts))
    if op == "empty":
        exts[i] = (exts[i][0], b"")
    elif op == "trunc":
        if not exts[i][1]:
            return None
        exts[i] = (exts[i][0], exts[i][1][:-1])
    elif op == "extend":
        exts[i] = (exts[i][0], exts[i][1] + b"\x00")
    elif op == "dup":
        exts.insert(i, exts[i])
    elif op == "remove":
        del exts[i]
    elif op == "garbage":
        exts[i] = (exts[i][0], prg(b"g", m[3] % 40))
    elif op == "inner0":
        b = bytearray(exts[i][1])
        if not b:
            return None
        b[0] = 0
        if len(b) > 1:
            b[1] = 0
        exts[i] = (exts[i][0], bytes(b))
    elif op == "innerlen":
        b = bytearray(exts[i][1])
        if len(b) < 2:
            return None
        v = int.from_bytes(b[0:2], "big")
        b[0:2] = ((v + (1 if m[3] % 2 else -1)) & 0xffff).to_bytes(2, "big")
        exts[i] = (exts[i][0], bytes(b))
    elif op == "add_unknown":
        exts.append((0xfa00 + m[3] % 16, prg(b"u", m[3] % 9)))
    elif op == "add_known":
        known = [0, 1, 5, 10, 11, 13, 14, 15, 16, 18, 21, 22, 23, 27, 28, 35,
                 41, 42, 43, 44, 45, 47, 49, 50, 51, 13172, 0xff01]
        exts.append((known[m[3] % len(known)], prg(b"k", m[3] % 7)))
    elif op == "only":
        exts = [exts[i]]
    elif op == "typed":
        # a well-framed extension built by the library's own writer from
        # drawn (boundary-biased, possibly empty) field values replaces the
        # extension of the same type, or is appended
        from props import c15
        try:
            eb, _ = c15.ext_bytes(m[3])
        except ValueError:
            return None
        et = int.from_bytes(eb[0:2], "big")
        new = (et, bytes(eb[4:]))
        for j, (t0, _) in enumerate(exts):
            if t0 == et:
                exts[j] = new
                break
        else:
            exts.append(new)
    else:
        raise HarnessError(op)
    if t == 1:
        return tap.build_client_hello(h["version"], h["random"],
                                      h["session_id"], h["suites"], exts)
    if t == 2:
        # keep the legacy version bytes from the original body
        return tap.build_server_hello(body[0:2], h["random"],
                                      h["session_id"], h["suite"], exts,
                                      h["compression"])
    if t in (13, 4):
        return fixlen(t, bytes(body[:pre]) + tap.build_exts(exts))
    return fixlen(8, tap.build_exts(exts))


# ---------------------------------------------------------------------------
def judge(conn, outcome, who, wire_before, link, side, labels,
          alert_expected=True):
    """Clauses on one endpoint's outcome. Returns None or (sig, detail)."""
    if outcome.state in ("blocked", "running"):
        return None
    if outcome.state == "budget":
        return ("hang:%s" % who, "step budget exhausted")
    if outcome.state == "done":
        return None
    e = outcome.exc
    if not isinstance(e, (BaseTLSException, OSError)):
        return ("unrelated-exception:%s@%s" % (type(e).__name__,
                                               exc_site(e)),
                "%s raised %r" % (who, e))
    local = not isinstance(e, (TLSRemoteAlert, TLSAbruptCloseError,
                               OSError))
    if local and not isinstance(e, TLSLocalAlert):
        # a protocol exception escaped bare: was an alert sent anyway?
        sent = link.wire(side)[wire_before:]
        recs, _ = records(sent)
        if not any(r["type"] == 21 for r in recs):
            return ("no-alert:%s@%s" % (type(e).__name__, exc_site(e)),
                    "%s raised %r without sending an alert" % (who, e))
    if isinstance(e, TLSLocalAlert):
        # ... and the alert must really have left: an exception that only
        # *says* an alert was sent is not enough
        sent = link.wire(side)[wire_before:]
        recs, _ = records(sent)
        # (type None = SSLv2-style framing, used when the peer's hello
        # named version 2.0)
        seen = any(r["type"] in (21, None) for r in recs) or (
            tuple(getattr(conn, "_c08_version", None) or (0, 0)) == (3, 4)
            and
            recs and recs[-1]["type"] == 23 and recs[-1]["len"] <= 64)
        if not seen and getattr(conn, "_c08_version", None) is not None:
            return ("alert-not-on-the-wire:%s" % who.split("(")[0],
                    "%s raised %r but wrote no alert record" % (who, e))
    if not conn.closed:
        return ("not-closed:%s" % type(e).__name__,
                "%s failed with %r but the connection is not closed" % (
                    who, e))
    # (the flag, and what the library itself consults before it offers or
    # hands out the session)
    if conn.session is not None and (conn.session.resumable or
                                     conn.session.valid()) and \
            not isinstance(e, TLSClosedConnectionError):
        return ("resumable-after-failure:%s" % type(e).__name__,
                "%s failed with %r, session still resumable" % (who, e))
    return None


def check_postrec(case):
    """Established connection; the peer (which holds the keys) sends one
    *protected* record with a chosen content type and a short or malformed
    body, then some application data. The victim's read must end like any
    other read: data, a TLS exception with alert / closure, never a bare
    Python error or a hang."""
    from vlib.deviant import RawMsg
    fl = "tls12-rsa" if case.get("v12") else "tls13"
    vic = case["vic"]
    snd = "s" if vic == "c" else "c"
    body = bytes.fromhex(case["hex"])
    labels = ["postrec", "fl=" + fl, "vic=" + vic, "ct=%d" % case["ct"],
              "len=%s" % (len(body) if len(body) < 4 else "4+")]
    client, server = opts_for(fl)
    DET.reseed("C08post", fl)
    p = sc.connect(client, server)
    if not p.both_ok:
        raise BaselineBroken("postrec", "%r %r" % (p.co, p.so))
    if vic == "c":
        # tickets first, so that the record under test is what is read next
        sc.do_write(p, "s", b"")
        sc.read_all(p, "c")
    before = len(p.link.wire(vic))
    drive({snd: p.conn(snd)._sendMsg(RawMsg(case["ct"], body))}, p.link,
          on_stall="leave")
    sc.do_write(p, snd, b"after")
    o = None
    for _ in range(4):
        o = sc.do_read(p, vic, 100, 1)
        if not (o.state == "done" and o.value):
            break
    if o.state == "budget":
        return bad("hang:postrec", "case=%r" % (case,), labels=labels)
    r = judge(p.conn(vic), o, "post-handshake read", before, p.link, vic,
              labels)
    if r:
        return bad(r[0] + ":postrec", r[1] + " | case=%r" % (case,),
                   labels=labels)
    return good(labels=labels + ["out=" + (describe_exc(o.exc) if o.exc
                                           else o.state)])


POSTREC_BODIES = {
    # heartbeat: every short body, type / claimed length lies
    24: ["", "01", "02", "0100", "0200", "01ffff", "010000", "03000161",
         "0100026869" + "00" * 16, "0100026869" + "00" * 15,
         "01ffff" + "61" * 20],
    # alert: short, long, unknown level / description
    21: ["", "01", "02", "0100", "010000", "ff00", "02ff", "0159"],
    # handshake: each post-handshake type, empty / short / lying length
    22: ["", "18", "1800", "180000", "18000000", "1800000100", "1800000102",
         "180000020000", "04000000", "0400000100", "00000000", "0000000100",
         "0d000000", "0b000000", "0f000000", "14000000", "19000000",
         "ff000000", "18ffffff"],
    # change_cipher_spec, application data, unknown types
    20: ["", "01", "02", "0101"],
    23: ["", "00"],
    25: ["", "00"], 0: ["", "00"], 255: ["00"],
}


def check(case):
    if "raw" in case:
        return check_raw(case)
    if "postrec" in case:
        return check_postrec(case)
    name = case["fl"]
    side = case["side"]
    vic = "s" if side == "c" else "c"
    trace = honest(name)[side]
    idx = case["idx"] % len(trace)
    labels = ["fl=" + name, "dev=" + side, "m=" + case["m"][0],
              "msg=%s" % tap.HS_NAMES.get(trace[idx][0], trace[idx][0])]
    state = {}

    def fn(dev, i, ct, data):
        if i != idx or state.get("done"):
            return None
        out = mutate(data, case["m"])
        state["done"] = True
        if out is None or out == data:
            state["noop"] = True
            return None
        state["mut_len"] = len(out)
        return [(ContentType.handshake, out)]

    def prepare(cc, scn):
        Deviant(cc if side == "c" else scn, fn)
        if case.get("nocs"):
            # without the implicit flush of socket.close()
            (scn if side == "c" else cc).closeSocket = False
    client, server = opts_for(name)
    DET.reseed("C08", name)
    measure = case.get("mem") or case["m"][0] in ("hugelen", "bomb")
    brot = None
    if case["m"][0] == "bomb" and len(case["m"]) > 3 and \
            case["m"][3] == "brotli":
        # tracemalloc makes the pure-Python decoder crawl: observe what the
        # decoder hands back instead (harness-side wrapper around the
        # library's registry entry, restored afterwards)
        from tlslite.utils import compression as _comp
        orig_dec = _comp.compression_algo_impls.get("brotli_decompress")
        if not orig_dec:
            return good(nt=False, labels=labels + ["no-brotli"])
        brot = {"max": 0}

        def observe(*a, **kw):
            out = orig_dec(*a, **kw)
            brot["max"] = max(brot["max"], len(out))
            return out
        _comp.compression_algo_impls["brotli_decompress"] = observe
        measure = False
    elif case["m"][0] == "bomb":
        bomb_blob(case["m"][1])
    if measure:
        tracemalloc.start()
        tracemalloc.reset_peak()
    try:
        p = sc.connect(client, server, prepare=prepare, max_steps=20000)
    finally:
        if brot is not None:
            _comp.compression_algo_impls["brotli_decompress"] = orig_dec
    if brot is not None and brot["max"] > 2 ** 20:
        return bad("memory:msg=compressed_certificate:brotli",
                   "the decoder produced %d bytes for a CompressedCertificate "
                   "that declares a few hundred" % brot["max"],
                   labels=labels)
    post = None
    if FLAVOURS[name].get("pha") and p.both_ok:
        sc.do_write(p, "s", b"x")
        sc.read_all(p, "c")
        post = post_handshake_auth(p)
    peak = None
    if measure:
        peak = tracemalloc.get_traced_memory()[1]
        tracemalloc.stop()
    if not state.get("done") or state.get("noop"):
        return good(nt=False, labels=labels + ["not-applied"])
    vconn = p.conn(vic)
    vout = p.co if vic == "c" else p.so
    # version the victim was speaking when it failed (_shutdown resets it):
    # from the ServerHello on the wire
    try:
        shs = [tap.parse_server_hello(b) for t, b in tap.plaintext_flight(
            p.link.wire("s"))[0] if t == 2]
        vconn._c08_version = shs[-1]["version"] if shs else (3, 3)
    except (IndexError, ValueError, KeyError):
        vconn._c08_version = None
    if p.verdict == "spin":
        return bad("spin:%s" % labels[-1], "driver verdict spin",
                   labels=labels)
    labels.append("victim=" + (describe_exc(vout.exc) if vout.exc
                               else vout.state))
    r = judge(vconn, vout, "victim(%s)" % vic, 0, p.link, vic, labels)
    if r:
        return bad(r[0], r[1] + " | case=%r" % (case,), labels=labels)
    cache = server.get("sessionCache")
    if cache is not None and vic == "s" and vout.state == "exc" and \
            vconn.session is not None and vconn.session.sessionID and \
            not isinstance(vout.exc, TLSClosedConnectionError):
        # (a resumed connection shares its session with the cache: the
        # failure must reach the entry the next client would resume)
        try:
            still = cache[vconn.session.sessionID]
        except KeyError:
            still = None
        if still is not None and (still.resumable or still.valid()):
            return bad("cached-session-resumable-after-failure",
                       "victim failed with %s; cache still hands out a "
                       "resumable session | case=%r" % (
                           describe_exc(vout.exc), case), labels=labels)
    # the deviant's own honest machinery receives whatever the victim
    # answered (alerts, garbage-induced replies): same clauses, no alert
    # requirement on its own bookkeeping errors caused by our wrapper
    dout = p.co if side == "c" else p.so
    if dout.state == "exc" and not isinstance(dout.exc, (BaseTLSException,
                                                          OSError)):
        site = exc_site(dout.exc)
        if site and "deviant" not in (site or ""):
            labels.append("deviant-side-crash")
    # a victim that completed must stay sane on the next read
    if vout.ok:
        o = post[vic] if post is not None and post[vic].state == "exc" \
            else sc.do_read(p, vic, 100, 1)
        r = judge(vconn, o, "victim(%s) read" % vic, 0, p.link, vic, labels)
        if r:
            return bad(r[0] + ":post", r[1] + " | case=%r" % (case,),
                       labels=labels)
    if peak is not None:
        recv = len(p.link.delivered(vic))
        if peak > 4 * 2 ** 20 + 64 * recv:
            return bad("memory:%s" % labels[3],
                       "tracemalloc peak %d for %d bytes received" % (
                           peak, recv), labels=labels)
    return good(labels=labels)


# ---------------------------------------------------------------------------
# raw byte targets
# ---------------------------------------------------------------------------
_raw_seed = {}


def raw_seed(target):
    """honest byte stream a victim would receive at the target"""
    if target not in _raw_seed:
        client, server = opts_for("any")
        DET.reseed("C08raw")
        p = sc.connect(client, server)
        if not p.both_ok:
            raise BaselineBroken("raw-seed", "%r %r" % (p.co, p.so))
        _raw_seed["server_first"] = p.link.wire("c")[:600]
        _raw_seed["client_after_hello"] = p.link.wire("s")[:1500]
    return _raw_seed[target]


def apply_edits(base, edits):
    b = bytearray(base)
    for op, pos, val in edits:
        if not b:
            break
        pos = pos % len(b)
        if op == "set":
            b[pos] = val & 0xff
        elif op == "del":
            del b[pos:pos + 1 + val % 8]
        elif op == "ins":
            b[pos:pos] = prg(b"ins%d" % val, 1 + val % 8)
        elif op == "cut":
            del b[pos:]
    return bytes(b)


def check_raw(case):
    target = case["raw"]
    labels = ["raw=" + target]
    if case.get("base", True):
        data = apply_edits(raw_seed("server_first" if target ==
                                    "server_first" else
                                    "client_after_hello"), case["edits"])
    else:
        data = bytes.fromhex(case["hex"])
    DET.reseed("C08raw", target)
    link = Link()
    if target == "server_first":
        conn = TLSConnection(link.sock("s"))
        client, server = opts_for("any")
        gen = sc.server_gen(conn, server)
        side = "s"
    elif target == "client_after_hello":
        conn = TLSConnection(link.sock("c"))
        client, server = opts_for("any")
        gen = sc.client_gen(conn, client)
        side = "c"
    else:
        # established connection: garbage instead of records
        fl = "tls12-rsa" if case.get("v12") else "tls13"
        if case.get("res"):
            fl = "tls12-resume-sid" if case.get("v12") else "tls13-psk"
            labels.append("resumed-connection")
        client, server = opts_for(fl)
        p = sc.connect(client, server)
        if not p.both_ok:
            raise BaselineBroken("raw-established", "%r %r" % (p.co, p.so))
        side = "s"
        base = prg(b"estab", 64)
        data = apply_edits(base, case["edits"]) if case.get("base", True) \
            else bytes.fromhex(case["hex"])
        if case.get("ign"):
            # (the integration mix-ins run servers this way)
            p.s.ignoreAbruptClose = True
            labels.append("ignoreAbruptClose")
        before = len(p.link.wire(side))
        p.link.inject(side, data)
        p.link.inp[side].eof = True
        o = sc.do_read(p, side, 100, 1)
        r = judge(p.s, o, "server read", before, p.link, side, labels)
        if r:
            return bad(r[0] + ":established", r[1] + " | data=%s" %
                       data.hex()[:120], labels=labels)
        cache = server.get("sessionCache")
        if cache is not None and o.state == "exc" and p.s.session and \
                p.s.session.sessionID and not (
                    case.get("ign") and isinstance(o.exc, type(None))):
            try:
                still = cache[p.s.session.sessionID]
            except KeyError:
                still = None
            if still is not None and (still.resumable or still.valid()) \
                    and not isinstance(o.exc, TLSClosedConnectionError):
                return bad("cached-session-resumable-after-failure:"
                           "established", "server read failed with %s; the "
                           "cache still hands out a resumable session" %
                           describe_exc(o.exc), labels=labels)
        return good(labels=labels + ["out=" + (describe_exc(o.exc) if o.exc
                                               else o.state)])
    # handshake targets: let the endpoint speak first, then feed the bytes
    outs, verdict = drive({side: gen}, link, on_stall="leave",
                          max_steps=20000)
    link.inject(side, data)
    link.inp[side].eof = True
    outs, verdict = drive({side: gen}, link, on_stall="leave",
                          max_steps=20000)
    o = outs[side]
    if verdict == "spin" or o.state == "budget":
        return bad("spin:raw:" + target, "data=%s" % data.hex()[:200],
                   labels=labels)
    if o.state == "blocked":
        return bad("blocked-after-eof:" + target, "", labels=labels)
    r = judge(conn, o, target, 0, link, side, labels)
    if r:
        return bad(r[0] + ":" + target, r[1] + " | data=%s" %
                   data.hex()[:200], labels=labels)
    labels.append("out=" + (describe_exc(o.exc) if o.exc else o.state))
    return good(nt=data != raw_seed(
        "server_first" if target == "server_first" else
        "client_after_hello"), labels=labels)


# ---------------------------------------------------------------------------
# coverage-guided stage: first byte picks the target, the rest is what the
# victim receives
FUZZ_TARGETS = ["server_first", "client_after_hello", "established"]


def fuzz_seeds():
    out = []
    for i, t in enumerate(FUZZ_TARGETS[:2]):
        out.append(bytes([i]) + raw_seed(t))
    out.append(bytes([2]) + prg(b"estab", 64))
    out.append(bytes([2 + 3]) + prg(b"estab", 64))
    return out


def fuzz_case(data):
    if len(data) < 2:
        return None
    t = FUZZ_TARGETS[data[0] % 3]
    c = {"raw": t, "base": False, "hex": data[1:].hex()}
    if t == "established":
        c["v12"] = bool((data[0] // 3) % 2)
        c["ign"] = bool((data[0] // 6) % 2)
        c["res"] = bool((data[0] // 12) % 2)
    return c


def fuzz_stage(tier, seed):
    from vlib.fuzzstage import run_campaigns
    if tier == "quick":
        return run_campaigns("C08", seed, 3000, 4, 40, max_len=4096)
    return run_campaigns("C08", seed, 200000, 16, 1500, max_len=4096,
                         empty_corpus_procs=2)


EXT_OPS = ["empty", "trunc", "extend", "dup", "remove", "garbage", "inner0",
           "innerlen", "add_unknown", "add_known", "only"]


@st.composite
def typed_spec(draw):
    """C15's extension specs, with sizes biased to the empty / minimal
    values that framing alone does not reject."""
    from props import c15
    z = st.sampled_from([0, 0, 1, 32])
    k = draw(st.sampled_from(["psk", "psk", "keyshare_c", "keyshare_s",
                              "alpn", "sni", "cookie", "psk_modes",
                              "c15"]))
    if k == "psk":
        n = draw(st.integers(1, 3))
        return [k, [[draw(z), draw(st.sampled_from([0, 1, 2 ** 32 - 1]))]
                    for _ in range(n)],
                [draw(z) for _ in range(draw(st.integers(1, 3)))]]
    if k == "keyshare_c":
        return [k, draw(st.lists(st.tuples(st.sampled_from(
            [23, 24, 29, 30, 256, 0, 0xffff]), st.sampled_from(
                [0, 1, 32, 65])).map(list), max_size=3))]
    if k == "keyshare_s":
        return [k, [draw(st.sampled_from([23, 24, 29, 256, 0])),
                    draw(st.sampled_from([0, 1, 32, 65]))]]
    if k == "alpn":
        return [k, draw(st.lists(st.sampled_from([0, 1, 2, 8]), max_size=3))]
    if k == "sni":
        return [k, draw(st.lists(st.tuples(st.sampled_from([0, 1]),
                                           st.sampled_from([0, 1, 11])
                                           ).map(list), max_size=2))]
    if k == "cookie":
        return [k, draw(st.sampled_from([0, 1, 32]))]
    if k == "psk_modes":
        return [k, draw(st.lists(st.sampled_from([0, 1, 2, 255]),
                                 max_size=3))]
    return draw(c15.ext_spec())


def mut_strategy():
    i = st.integers(0, 4000)
    return st.one_of(
        st.tuples(st.just("flip"), i, st.sampled_from([1, 0x80, 0xff])),
        st.tuples(st.just("trunc"), i),
        st.tuples(st.just("extend"), i),
        st.tuples(st.just("setlen"), i, st.sampled_from([1, 2, 2, 3]),
                  st.sampled_from(["zero", "one", "max", "plus1", "minus1",
                                   "half"])),
        st.just(("zero",)), st.just(("empty",)),
        st.tuples(st.just("lastvec"), st.sampled_from(
            ["ones", "zero", "one", "high"])),
        st.tuples(st.just("hugelen"), i),
        st.tuples(st.just("type"), st.sampled_from(
            [0, 1, 2, 4, 5, 8, 11, 12, 13, 14, 15, 16, 20, 22, 24, 25, 67,
             254, 99])),
        st.tuples(st.just("vec"), i, st.sampled_from(
            ["zero", "one", "ones", "empty", "byte", "huge", "minus1"]),
            st.integers(0, 7)),
        st.tuples(st.just("ext"), st.sampled_from(EXT_OPS), i, i),
        st.tuples(st.just("ext"), st.sampled_from(EXT_OPS), i, i),
        st.tuples(st.just("ext"), st.just("typed"), st.just(0),
                  typed_spec()),
    ).map(list)


@st.composite
def cases(draw, tier):
    kind = draw(st.sampled_from(["dev"] * 6 + ["raw"]))
    if kind == "raw":
        target = draw(st.sampled_from(["server_first", "client_after_hello",
                                       "established"]))
        c = {"raw": target}
        if draw(st.integers(0, 4)):
            c["base"] = True
            c["edits"] = [list(x) for x in draw(st.lists(st.tuples(
                st.sampled_from(["set", "set", "del", "ins", "cut"]),
                st.integers(0, 1500), st.integers(0, 255)),
                min_size=1, max_size=4))]
        else:
            c["base"] = False
            c["hex"] = draw(st.binary(max_size=200)).hex()
        if target == "established":
            c["v12"] = draw(st.booleans())
            c["ign"] = draw(st.booleans())
            c["res"] = draw(st.booleans())
        return c
    fl = draw(st.sampled_from([f for f in FL_NAMES if f != "any"]))
    return {"fl": fl, "side": draw(st.sampled_from(["c", "s"])),
            "nocs": draw(st.booleans()),
            "idx": draw(st.integers(0, 11)), "m": draw(mut_strategy()),
            "mem": tier == "thorough" and draw(st.integers(0, 9)) == 0}


def strategy(tier):
    return cases(tier)


def budget(tier):
    return 5000 if tier == "quick" else 150000


# shrunk failing cases of earlier thorough campaigns (replay tier)
REGRESSIONS = [
    {"fl": "ssl3-rsa", "side": "s", "idx": 0, "m": ["ext", "add_known", 0,
                                                    687]},
    {"fl": "ssl3-rsa", "side": "s", "idx": 1, "m": ["setlen", 2289, 2,
                                                    "zero"]},
    {"fl": "ssl3-rsa", "side": "s", "idx": 9, "m": ["setlen", 9, 3, "zero"]},
    {"fl": "tls13-hrr", "side": "s", "idx": 10, "m": ["setlen", 0, 2,
                                                      "half"]},
    {"fl": "tls13", "side": "s", "idx": 3, "m": ["flip", 1, 1]},
    {"fl": "tls13", "side": "s", "idx": 3, "m": ["flip", 0, 255]},
    {"fl": "tls13", "side": "s", "idx": 3, "m": ["setlen", 0, 1, "zero"]},
    {"fl": "tls12-ecdhe-auth", "side": "c", "idx": 0,
     "m": ["setlen", 3892, 1, "plus1"]},
    {"fl": "tls13", "side": "s", "idx": 2, "m": ["flip", 2, 128],
     "mem": True},
    {"fl": "tls13-nocomp", "side": "s", "idx": 3, "m": ["flip", 1, 1]},
    {"fl": "tls13", "side": "c", "idx": 0, "m": ["ext", "dup", 3, 3]},
    {"fl": "tls13", "side": "s", "idx": 0, "m": ["ext", "empty", 0, 3]},
    {"fl": "tls12-srp", "side": "c", "idx": 0, "m": ["ext", "only", 0, 3]},
    {"fl": "tls12-anon-ecdh", "side": "s", "idx": 0,
     "m": ["ext", "empty", 3, 3]},
    {"fl": "tls13", "side": "c", "idx": 0, "m": ["ext", "empty", 4, 3]},
    {"fl": "ssl3-rsa", "side": "c", "idx": 0, "m": ["ext", "empty", 5, 3]},
    {"fl": "tls13-hrr", "side": "c", "idx": 1, "m": ["ext", "empty", 4, 3]},
]


TYPED_FIXED = [
    ["psk", [[0, 0]], [32]], ["psk", [[16, 0]], [0]],
    ["psk", [[16, 0], [16, 0]], [32]], ["psk", [[16, 0]], [32, 32]],
    ["keyshare_c", []], ["keyshare_c", [[29, 0]]], ["keyshare_c", [[256, 32]]],
    ["keyshare_c", [[29, 32], [29, 32]]], ["keyshare_s", [29, 0]],
    ["keyshare_s", [256, 32]], ["keyshare_s", [24, 32]],
    ["alpn", []], ["alpn", [0]], ["sni", []], ["sni", [[0, 0]]],
    ["cookie", 0], ["psk_modes", []], ["psk_modes", [255]],
    ["psk_srv", 0], ["psk_srv", 1], ["psk_srv", 0xffff],
]


def explicit(tier, seed):
    """Every message of every flavour x a fixed mutation set."""
    for c in REGRESSIONS:
        yield dict(c)
    # established connection, transport ends: at once, inside a header,
    # inside a body, after garbage - with and without ignoreAbruptClose
    for v12 in (False, True):
        for ign in (False, True):
            for hx in ("", "17", "1703", "1703030010", "170303001000",
                       "1703030010" + "ab" * 16, "ff" * 7):
                for res in (False, True):
                    yield {"raw": "established", "base": False, "hex": hx,
                           "v12": v12, "ign": ign, "res": res}
    # protected post-handshake records with short / malformed bodies
    for v12 in (False, True):
        for vic in "sc":
            for ct in sorted(POSTREC_BODIES):
                for hx in POSTREC_BODIES[ct]:
                    yield {"postrec": 1, "v12": v12, "vic": vic, "ct": ct,
                           "hex": hx}
    # saved inputs of earlier findings (replayed in every tier)
    import json as _json
    import os
    from vlib import ROOT
    reg = os.path.join(ROOT, "assets", "regress", "c08_raw.json")
    if os.path.exists(reg):
        for c in _json.load(open(reg)):
            yield c
    fixed = [["empty"], ["zero"], ["trunc", 0], ["extend", 0],
             ["hugelen", 7], ["flip", 0, 0xff], ["setlen", 0, 2, "max"],
             ["setlen", 0, 1, "zero"], ["vec", 0, "empty", 0],
             ["vec", 1, "zero", 0], ["vec", 0, "huge", 0],
             ["vec", 1, "empty", 0], ["vec", 2, "empty", 0],
             ["vec", 3, "empty", 0], ["lastvec", "ones"],
             ["lastvec", "zero"], ["lastvec", "one"],
             ["lastvec", "high"]] + [
                 ["vec", 0, "empty", st_] for st_ in range(1, 8)]
    ext_fixed = [["ext", op, w, 3] for op in EXT_OPS for w in range(
        14 if tier == "thorough" else 6)]
    for fl in FL_NAMES:
        if fl == "any":
            continue
        tr = honest(fl)
        for side in "cs":
            for idx, (t, ln) in enumerate(tr[side]):
                for j, m in enumerate(fixed):
                    yield {"fl": fl, "side": side, "idx": idx, "m": m,
                           "nocs": (j + idx) % 2 == 0}
                if t in (11, 25) and ln > 200:
                    for a in range(6):
                        for occ in range(3):
                            yield {"fl": fl, "side": side, "idx": idx,
                                   "m": ["oid", a, occ]}
                if t == 25:
                    for mb in (8, 32):
                        for keep in (0, 1):
                            yield {"fl": fl, "side": side, "idx": idx,
                                   "m": ["bomb", mb, keep]}
                    for keep in (0, 1, 2, 3):
                        yield {"fl": fl, "side": side, "idx": idx,
                               "m": ["bomb", 4, keep, "brotli"]}
                    for keep in (2, 3):
                        yield {"fl": fl, "side": side, "idx": idx,
                               "m": ["bomb", 8, keep]}
                if t in (1, 2, 8) or (t in (13, 4) and
                                      fl.startswith("tls13")):
                    for m in ext_fixed:
                        yield {"fl": fl, "side": side, "idx": idx, "m": m}
                    if fl.startswith("tls13"):
                        for spec in TYPED_FIXED:
                            yield {"fl": fl, "side": side, "idx": idx,
                                   "m": ["ext", "typed", 0, spec]}
