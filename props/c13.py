"""C13 - resumption reproduces the original session's security, or falls
back cleanly.

Model-based stateful check: a generated history of full handshakes, closes
(clean / fatal / abrupt), clock movements on either side, ticket-key
rotations, cache evictions, ticket/id tampering and resumption attempts with
unchanged or changed offers is interpreted against real endpoints and against
a reference eligibility model."""
import copy
import hashlib

from hypothesis import strategies as st

from vlib.runner import good, bad, HarnessError, BaselineBroken
from vlib.det import DET
from vlib import scenario as sc
from vlib import tap
from vlib.driver import drive, describe_exc, exc_site
from vlib.deviant import RawMsg

from tlslite.api import SessionCache
from tlslite.errors import BaseTLSException, TLSLocalAlert
from tlslite.session import Session, Ticket

ID = "C13"
LEVEL = "exploration"
RULE = ("case = history of <= 10 operations drawn by Hypothesis: full "
        "handshake (TLS 1.0 / 1.2 / 1.3; server with session cache and/or "
        "ticket keys; EMS / EtM / SNI / client certificate options), close "
        "(clean, fatal alert, abrupt EOF), advance clock (both / client / "
        "server), rotate ticket keys (prepend / drop oldest / replace all), "
        "fill the cache, tamper (flip ticket bit, truncate ticket, ticket "
        "of another server, random session id) and resume(session, changed "
        "offer); every resume is judged against a reference eligibility "
        "model (completed, not invalidated, age within limits on the "
        "server clock, id cached or ticket under a current key, same "
        "version, consistent hello): resumed only if eligible; forged / "
        "altered / expired / foreign / unknown never resume and never break "
        "the connection; resumed connections carry the original suite, EMS, "
        "EtM, server name and client identity. non-trivial = history with "
        "at least one resume attempt after a state-changing operation; "
        "distinct = hash(history)")
ASSUMPTIONS = [
    "three-valued model: ages exactly at a limit, and offers the RFCs allow "
    "to be answered either by abort or by a full handshake, are 'either'",
    "caller preconditions of handshakeClient* (same server name, session "
    "suite still offered) are respected by construction",
]
MAX_WALL = {"quick": 240, "thorough": 3000}
TICKET_LIFETIME = 1000
CACHE_AGE = 1000


def init(tier, seed):
    DET.install()


class World(object):
    def __init__(self, case):
        self.case = case
        self.keys = [bytearray(hashlib.sha256(b"tk0").digest())]
        self.nkeys = 1
        self.cache = SessionCache(maxEntries=4, maxAge=CACHE_AGE)
        self.other_keys = [bytearray(hashlib.sha256(b"other").digest())]
        self.jar = []       # dicts describing client sessions
        self.labels = []
        self.changed = False
        self.resumes = 0

    def server_settings(self, v, s_opts, foreign=False):
        kw = dict(minVersion=(3, 1), maxVersion=sc.VER[v],
                  ticketLifetime=TICKET_LIFETIME, ticket_count=1)
        if s_opts.get("tickets"):
            kw["ticketKeys"] = [bytearray(k) for k in (
                self.other_keys if foreign else self.keys)]
        kw["useExtendedMasterSecret"] = s_opts.get("ems", True)
        kw["useEncryptThenMAC"] = s_opts.get("etm", True)
        if s_opts.get("ciphers"):
            kw["cipherNames"] = s_opts["ciphers"]
        if s_opts.get("xpsk"):
            kw["pskConfigs"] = [(bytearray(b"xpsk-id"),
                                 bytearray(b"\x33" * 32), "sha256")]
        if s_opts.get("hrr"):
            kw["eccCurves"] = ["secp256r1", "secp384r1"]
            kw["keyShares"] = ["secp256r1"]
        return sc.mk_settings(**kw)


def client_settings(v, c_opts):
    kw = dict(minVersion=(3, 1), maxVersion=sc.VER[v])
    kw["useExtendedMasterSecret"] = c_opts.get("ems", True)
    kw["useEncryptThenMAC"] = c_opts.get("etm", True)
    if c_opts.get("ciphers"):
        kw["cipherNames"] = c_opts["ciphers"]
    if c_opts.get("xpsk"):
        kw["pskConfigs"] = [(bytearray(b"xpsk-id"), bytearray(b"\x33" * 32),
                             "sha256")]
    if c_opts.get("hrr"):
        # first key share is for a group the server does not take:
        # HelloRetryRequest
        kw["keyShares"] = ["x25519"]
        kw["eccCurves"] = ["x25519", "secp256r1"]
    return sc.mk_settings(**kw)


def params_of(conn):
    s = conn.session
    return {"suite": s.cipherSuite, "ems": bool(s.extendedMasterSecret),
            "etm": bool(s.encryptThenMAC), "sni": s.serverName or "",
            "ccert": None if s.clientCertChain is None else
            bytes(s.clientCertChain.x509List[0].bytes),
            "version": tuple(conn.version)}


def do_handshake(w, v, c_opts, s_opts, session=None, foreign=False,
                 use_cache=True):
    client = {"settings": client_settings(v, c_opts)}
    if c_opts.get("sni"):
        client["serverName"] = c_opts["sni"]
    if c_opts.get("ccert"):
        client["cred"] = "c_rsa"
    if session is not None:
        client["session"] = session
    server = {"cred": "rsa", "settings": w.server_settings(v, s_opts,
                                                           foreign)}
    if s_opts.get("cache") and use_cache:
        server["sessionCache"] = w.cache
    if c_opts.get("ccert"):
        server["reqCert"] = True
    prepare = None
    if s_opts.get("age_add") is not None:
        # the server picks another (equally legal) 32-bit ticket_age_add for
        # the tickets it issues
        from vlib.deviant import Deviant

        def fn(dev, idx, ct, data):
            if ct == 22 and data[:1] == b"\x04" and v == "tls13":
                return [(ct, data[:8] + int(s_opts["age_add"]).to_bytes(
                    4, "big") + data[12:])]
            return None

        def prepare(cc, scn):
            Deviant(scn, fn)
        w.labels.append("ticket-age-add=%08x" % s_opts["age_add"])
    p = sc.connect(client, server, prepare=prepare)
    if p.both_ok:
        # post-handshake: deliver tickets (TLS 1.3) and prove data flows
        sc.do_write(p, "s", b"pong")
        d, _ = sc.read_all(p, "c")
        sc.do_write(p, "c", b"ping")
        sc.read_all(p, "s")
    return p


def was_resumed(p):
    """Independent view: abbreviated handshake on the wire."""
    msgs, _, _ = tap.plaintext_flight(p.link.wire("s"))
    types = [t for t, b in msgs]
    if tuple(p.c.version) == (3, 4):
        # (after a HelloRetryRequest the real ServerHello follows the
        # compatibility CCS)
        from vlib.wire import records
        buf = b""
        for r in records(p.link.wire("s"))[0]:
            if r["type"] == 22:
                buf += r["body"]
            elif r["type"] == 20:
                continue
            else:
                break
        msgs = tap.split_hs(buf)[0]
        # an *external* PSK being selected is not a resumption
        try:
            sh = [tap.parse_server_hello(b) for t, b in msgs if t == 2]
            sh = [x for x in sh if not x["hrr"]]
            if sh and 41 in sh[-1]["exts"]:
                sel = int.from_bytes(sh[-1]["exts"][41][:2], "big")
                cbuf = b""
                for r in records(p.link.wire("c"))[0]:
                    if r["type"] == 22:
                        cbuf += r["body"]
                    elif r["type"] != 20:
                        break
                chs = [tap.parse_client_hello(b)
                       for t, b in tap.split_hs(cbuf)[0] if t == 1]
                ext = chs[-1]["exts"].get(41)
                ids = []
                q = 2
                end = 2 + int.from_bytes(ext[0:2], "big")
                while q < end:
                    ln = int.from_bytes(ext[q:q + 2], "big")
                    ids.append(bytes(ext[q + 2:q + 2 + ln]))
                    q += 2 + ln + 4
                if sel < len(ids) and ids[sel] == b"xpsk-id":
                    return False
        except (IndexError, KeyError, ValueError, TypeError):
            pass
        sh = [tap.parse_server_hello(b) for t, b in msgs if t == 2]
        sh = [x for x in sh if not x["hrr"]]
        return bool(sh) and 41 in sh[-1]["exts"]
    return 11 not in types and 2 in types


def check(case):
    w = World(case)
    DET.reseed("C13", case.get("salt", 0))
    for i, op in enumerate(case["ops"]):
        r = step(w, i, op)
        if r is not None:
            return r
    nt = w.resumes > 0 and w.changed
    return good(nt=nt, labels=sorted(set(w.labels)))


def step(w, i, op):
    k = op[0]
    if k == "full":
        _, v, c_opts, s_opts = op
        p = do_handshake(w, v, c_opts, s_opts)
        if not p.both_ok:
            raise BaselineBroken("full-handshake:" + v,
                                 "%r %r; opts %r %r" % (p.co, p.so, c_opts,
                                                        s_opts))
        if p.c.resumed:
            return bad("fresh-handshake-reported-resumed", repr(op),
                       labels=w.labels)
        e = {"pair": p, "session": p.c.session, "v": v, "c_opts": c_opts,
             "s_opts": s_opts, "orig": params_of(p.s),
             "t_server": DET.now + DET.offsets.get("s", 0.0),
             "t_client": DET.now + DET.offsets.get("c", 0.0),
             "keys_at": [bytes(x) for x in w.keys][:1],
             "invalid_c": False, "invalid_s": False, "closed": False,
             "tamper": None, "cache_gen": None,
             "sid": bytes(p.c.session.sessionID)}
        w.jar.append(e)
        w.labels.append("full:" + v)
        return None
    if k == "adv":
        _, dt, who = op
        if who == "both":
            DET.advance(dt)
        else:
            DET.advance(dt, who)
        w.changed = True
        w.labels.append("adv:" + who)
        return None
    if k == "rotate":
        kind = op[1]
        w.nkeys += 1
        newk = bytearray(hashlib.sha256(b"tk%d" % w.nkeys).digest())
        if kind == "prepend":
            w.keys.insert(0, newk)
        elif kind == "drop_oldest":
            w.keys.insert(0, newk)
            if len(w.keys) > 1:
                w.keys.pop()
        else:
            w.keys = [newk]
        w.changed = True
        w.labels.append("rotate:" + kind)
        return None
    if k == "evict":
        for n in range(6):
            s = Session()
            s.sessionID = bytearray(b"fill%d" % n + b"x" * 26)
            s.resumable = True
            w.cache[s.sessionID] = s
        w.changed = True
        w.labels.append("evict")
        return None
    if not w.jar:
        return None
    e = w.jar[op[1] % len(w.jar)]
    if k == "close":
        kind = op[2]
        if e["closed"]:
            return None
        p = e["pair"]
        if kind == "clean":
            sc.do_close(p, "c")
            sc.read_all(p, "s")
            sc.do_close(p, "s")
            sc.read_all(p, "c")
        elif kind in ("fatal", "fatal_keep"):
            # the client application-level failure: fatal alert to server
            snap = _snapshot(e["session"])
            drive({"c": p.c._sendError(80, "harness")}, p.link,
                  on_stall="leave")
            sc.read_all(p, "s")
            e["invalid_c"] = True
            e["invalid_s"] = True
            if kind == "fatal_keep":
                # ... but the client side keeps (a copy of) the session as it
                # was: the *server* must have invalidated its half
                e["session"] = snap
                e["invalid_c"] = False
        elif kind == "lost_close":
            # the client closes properly but its close_notify never arrives:
            # only the server sees an abrupt end (and must invalidate)
            p.link.hold["c"] = True
            sc.do_close(p, "c")
            del p.link.out["c"].q[:]
            p.link.hold["c"] = False
            p.link.out["c"].eof = True
            p.link.pump()
            sc.read_all(p, "s")
            e["invalid_s"] = True
        elif kind == "abrupt":
            p.link.out["c"].eof = True
            p.link.out["s"].eof = True
            p.link.pump()
            sc.read_all(p, "s")
            sc.read_all(p, "c")
            e["invalid_c"] = True
            e["invalid_s"] = True
        if p.c.session is not e["session"]:
            # the client kept a copy made before this connection ended: that
            # copy knows nothing of the failure
            e["invalid_c"] = False
        e["closed"] = True
        w.changed = True
        w.labels.append("close:" + kind)
        return None
    if k == "kill_resumed":
        # the *resumed* connection dies badly: the session it shares with
        # the original must not be resumable afterwards either
        p = e.pop("last_resumed_pair", None)
        if p is None:
            return None
        snap = _snapshot(e["session"])
        same = p.c.session is e["session"]
        if op[2] == "fatal":
            drive({"c": p.c._sendError(80, "harness")}, p.link,
                  on_stall="leave")
            sc.read_all(p, "s")
        elif op[2] == "garbage":
            # a corrupted record from the client: the server detects it
            p.link.inject("s", bytes([23, 3, 3, 0, 40]) + b"\x5a" * 40)
            sc.read_all(p, "s")
            sc.read_all(p, "c")
        else:
            p.link.out["c"].eof = True
            p.link.out["s"].eof = True
            p.link.pump()
            sc.read_all(p, "s")
            sc.read_all(p, "c")
        # (TLS 1.3 gives the resumed connection a session object of its own:
        # the original ticket stays usable on the client side)
        if same:
            e["invalid_c"] = True
        if e.get("last_resumed_mech") == "id" or e["invalid_s"] is True:
            e["invalid_s"] = True
        else:
            # resumed from a ticket: the server built that connection's
            # session from the ticket, its cache entry (if any) is another
            # object and has not seen the failure
            e["invalid_s"] = "stateless"
        if len(op) > 3 and op[3]:
            # the client keeps a copy of the session from before the failure
            e["session"] = snap
            e["invalid_c"] = False
        w.changed = True
        w.labels.append("kill_resumed:" + op[2])
        return None
    if k == "tamper":
        e["tamper"] = op[2]
        w.changed = True
        w.labels.append("tamper:" + op[2])
        return None
    if k == "resume":
        return do_resume(w, i, e, op[2])
    raise HarnessError(op)


def _snapshot(sess):
    s = copy.copy(sess)
    s.tickets = list(sess.tickets) if sess.tickets else sess.tickets
    s.tls_1_0_tickets = list(sess.tls_1_0_tickets) \
        if sess.tls_1_0_tickets else sess.tls_1_0_tickets
    return s


def tampered_session(w, e):
    """A copy of the client's session object altered as requested."""
    s0 = e["session"]
    kind = e["tamper"]
    if kind is None:
        return s0, None
    s = copy.copy(s0)
    s.tickets = list(s0.tickets) if s0.tickets else s0.tickets
    s.tls_1_0_tickets = list(s0.tls_1_0_tickets) \
        if s0.tls_1_0_tickets else s0.tls_1_0_tickets

    def edit(tb):
        tb = bytearray(tb)
        if kind == "flip":
            tb[len(tb) // 2] ^= 0x01
        elif kind == "trunc":
            tb = tb[:len(tb) - 5]
        elif kind == "garbage":
            tb = bytearray(hashlib.sha256(bytes(tb)).digest() * 4)
        return tb
    if kind == "random_sid":
        if not s0.sessionID:
            return s0, None
        s.sessionID = bytearray(hashlib.sha256(
            bytes(s0.sessionID)).digest())
        s.tls_1_0_tickets = None
        return s, "random_sid"
    if kind == "foreign":
        return s0, "foreign"
    if s.tickets:
        t0 = copy.copy(s.tickets[0])
        t0.ticket = edit(t0.ticket)
        s.tickets = [t0] + s.tickets[1:]
        return s, kind
    if s.tls_1_0_tickets:
        t0 = copy.copy(s.tls_1_0_tickets[0])
        t0.ticket = edit(t0.ticket)
        s.tls_1_0_tickets = [t0] + list(s.tls_1_0_tickets[1:])
        return s, kind
    return s0, None


def do_resume(w, i, e, offer):
    """offer: dict with optional changes: ems, etm, ciphers (client side),
    s_ciphers (server policy), v (max version)."""
    sess, tam = tampered_session(w, e)
    v = offer.get("v") or e["v"]
    c_opts = dict(e["c_opts"])
    s_opts = dict(e["s_opts"])
    inconsistent = None
    upgrade = False
    if "ems" in offer:
        c_opts["ems"] = offer["ems"]
    if "etm" in offer:
        c_opts["etm"] = offer["etm"]
    if offer.get("xpsk") and v == "tls13":
        c_opts["xpsk"] = True
        s_opts["xpsk"] = True
    if offer.get("hrr") and v == "tls13":
        c_opts["hrr"] = True
        s_opts["hrr"] = True
    if offer.get("drop_ccert"):
        # this time the client presents no certificate (and the server asks
        # for none): only an *accepted* resumption may carry the old
        # identity over
        c_opts["ccert"] = False
    if e["v"] != "tls13":
        if e["orig"]["ems"] and not c_opts.get("ems", True):
            inconsistent = "ems"
        if e["orig"]["etm"] and not c_opts.get("etm", True):
            inconsistent = inconsistent or "etm"
        if not e["orig"]["ems"] and c_opts.get("ems", True):
            upgrade = True      # RFC 7627 5.3: full handshake instead
    policy_changed = False
    if offer.get("s_ciphers"):
        s_opts["ciphers"] = {"tls10": ["aes128"],
                             "tls12": ["aes128", "aes128gcm"],
                             "tls13": ["aes128gcm", "aes128"]}[v]
        policy_changed = True
    foreign = tam == "foreign"
    mech = mechanism(e, sess)
    if mech == "id" and tam in ("flip", "trunc", "garbage"):
        # the altered ticket is not what gets offered (the client dropped
        # it as expired by its own clock): the untouched session id is
        tam = None
    w.resumes += 1
    # client-side expiry pruning happens inside the client; mirror the time
    now_s = DET.now + DET.offsets.get("s", 0.0)
    now_c = DET.now + DET.offsets.get("c", 0.0)
    age_s = now_s - e["t_server"]
    age_c = now_c - e["t_client"]
    try:
        p = do_handshake(w, v, c_opts, s_opts, session=sess,
                         foreign=foreign, use_cache=not foreign)
    except ValueError as ex:
        # caller precondition violated by the drawn offer
        w.labels.append("api-precondition")
        return None
    lab = "resume:%s" % mech
    w.labels.append(lab)
    tag = "%s:%s" % (mech, e["v"])
    # ---------------------------------------------------------- verdicts --
    if p.co.state == "exc" and isinstance(p.co.exc, ValueError) and \
            "not consistent with parameters" in str(p.co.exc):
        # caller precondition: the session's suite must still be offered
        w.labels.append("api-precondition")
        return None
    for o in (p.co, p.so):
        if o.state == "exc" and not isinstance(o.exc, (BaseTLSException,
                                                       OSError)):
            return bad("unrelated-exception:%s@%s" % (
                type(o.exc).__name__, exc_site(o.exc)),
                "step %d; history %r" % (i, w.case["ops"][:i + 1]),
                labels=w.labels)
    resumed = p.both_ok and was_resumed(p)
    if p.both_ok and bool(p.c.resumed) != resumed:
        return bad("client-resumed-flag-disagrees-with-wire:" + tag,
                   "client.resumed=%r wire=%r" % (p.c.resumed, resumed),
                   labels=w.labels)
    elig, why = eligible(w, e, mech, tam, v, age_s, age_c, inconsistent,
                         policy_changed, s_opts, c_opts)
    if elig is True and upgrade:
        elig, why = False, "ems-upgrade" 
    w.labels.append("model=%s" % (elig if why is None else "%s(%s)" % (
        elig, why)))
    hist = "step %d %r; history %r" % (i, w.case["ops"][i],
                                       w.case["ops"][:i + 1])
    if resumed:
        if elig is False:
            return bad("resumed-although-ineligible:%s:%s" % (tag, why),
                       hist, labels=w.labels)
        # (4) same security parameters as the original
        now_p = params_of(p.s)
        for key in ("suite", "ems", "etm", "sni", "ccert"):
            if now_p[key] != e["orig"][key]:
                return bad("resumed-with-different-%s:%s" % (key, tag),
                           "original %r now %r; %s" % (
                               str(e["orig"][key])[:40],
                               str(now_p[key])[:40], hist), labels=w.labels)
        cp = params_of(p.c)
        for key in ("suite", "ems", "etm"):
            if cp[key] != e["orig"][key]:
                return bad("resumed-client-view-different-%s:%s" % (key,
                                                                    tag),
                           hist, labels=w.labels)
        w.labels.append("resumed")
        e["last_resumed_pair"] = p
        e["last_resumed_mech"] = mech
        return None
    # not resumed
    if why in ("forged", "expired", "foreign", "unknown-id", "evicted",
               "rotated-out", "invalidated", "policy", "ems-upgrade") or \
            elig is True:
        # must fall back to a full handshake that completes on both ends
        if not p.both_ok:
            if inconsistent and why is None:
                pass
            else:
                return bad("resumption-refusal-breaks-connection:%s:%s" % (
                    tag, why or "eligible"),
                    "client %r server %r; %s" % (p.co, p.so, hist),
                    labels=w.labels)
    if inconsistent and not p.both_ok:
        # abort with an alert is allowed for inconsistent offers
        if not (isinstance(p.co.exc, TLSLocalAlert) or
                isinstance(p.so.exc, TLSLocalAlert)):
            return bad("inconsistent-offer-no-alert:%s:%s" % (tag,
                                                              inconsistent),
                       "%r %r" % (p.co, p.so), labels=w.labels)
        w.labels.append("inconsistent-aborted")
        return None
    if p.both_ok:
        w.labels.append("full-fallback")
        got = params_of(p.s)["ccert"]
        by_xpsk = c_opts.get("xpsk") and \
            p.c.session.serverCertChain is None
        if by_xpsk:
            # keyed by the external PSK: no certificates in either direction
            w.labels.append("external-psk")
        elif (got is not None) != bool(c_opts.get("ccert")):
            return bad("fallback-inherits-identity:%s:%s" % (tag, why),
                       "full handshake after a declined offer: the client "
                       "presented %s certificate, the server records %s; %s"
                       % ("a" if c_opts.get("ccert") else "no",
                          "one" if got is not None else "none", hist),
                       labels=w.labels)
    return None


def mechanism(e, sess):
    if e["v"] == "tls13":
        return "psk" if sess.tickets else "none13"
    if sess.tls_1_0_tickets:
        # the client drops tickets it considers expired (its own clock)
        prev = DET.current
        DET.current = "c"
        try:
            live = [t for t in sess.tls_1_0_tickets if t.valid()]
        finally:
            DET.current = prev
        if live:
            return "ticket"
    if sess.sessionID:
        return "id"
    return "none"


def eligible(w, e, mech, tam, v, age_s, age_c, inconsistent,
             policy_changed, s_opts, c_opts):
    """(True | False | None(either), reason)"""
    if mech in ("none", "none13"):
        return False, "nothing-to-offer"
    if e["invalid_c"]:
        return False, "invalidated"
    if e["invalid_s"]:
        if mech == "id" and e["invalid_s"] is True:
            return False, "invalidated"
        # stateless tickets: the server has no record of the failure
        return None, "server-side-invalidation-stateless"
    if tam in ("flip", "trunc", "garbage"):
        return False, "forged"
    if tam == "foreign":
        return False, "foreign"
    if tam == "random_sid":
        return False, "unknown-id"
    if v != e["v"]:
        return None, "version"
    if policy_changed:
        from vlib import iana
        su = iana.SUITES[e["orig"]["suite"]]
        if su.cipher_setting not in s_opts["ciphers"]:
            return False, "policy"
    if mech == "id":
        if not e["s_opts"].get("cache"):
            return False, "unknown-id"
        if age_s > CACHE_AGE:
            return False, "expired"
        if age_s == CACHE_AGE:
            return None, "age-boundary"
        # evicted? ask the model: entries stored after this one
        newer = sum(1 for x in w.jar if x["s_opts"].get("cache") and
                    x["t_server"] >= e["t_server"] and x is not e)
        if "evict" in w.labels:
            # filled after this entry? conservative: either
            return None, "maybe-evicted"
        if newer >= 3:
            return None, "maybe-evicted"
    else:
        if not e["s_opts"].get("tickets"):
            return False, "nothing-to-offer"
        cur = [bytes(x) for x in w.keys]
        if e["keys_at"][0] not in cur:
            return False, "rotated-out"
        if age_s > TICKET_LIFETIME:
            return False, "expired"
        if age_s == TICKET_LIFETIME:
            return None, "age-boundary"
        if mech == "psk" and age_c >= TICKET_LIFETIME:
            # the client drops tickets it considers expired itself
            return None, "client-pruned"
    if inconsistent:
        return False, None
    return True, None


# ---------------------------------------------------------------------------
c_opts_st = st.fixed_dictionaries({
    "ems": st.sampled_from([True, True, False]),
    "etm": st.sampled_from([True, True, False]),
    "sni": st.sampled_from([None, None, "example.com"]),
    "ccert": st.sampled_from([False, False, True])})
s_opts_st = st.fixed_dictionaries({
    "cache": st.booleans(), "tickets": st.sampled_from([True, True, False]),
    "ems": st.just(True), "etm": st.just(True),
    "age_add": st.sampled_from([None, None, 0, 2 ** 31, 2 ** 32 - 1,
                                2 ** 32 - 500])})


def op_strategy():
    j = st.integers(0, 3)
    return st.one_of(
        st.tuples(st.just("full"), st.sampled_from(["tls10", "tls12",
                                                    "tls13", "tls12",
                                                    "tls13"]),
                  c_opts_st, s_opts_st),
        st.tuples(st.just("adv"), st.sampled_from(
            [1, 400, 999, 1000, 1001, 2000]),
            st.sampled_from(["both", "both", "s", "c"])),
        st.tuples(st.just("rotate"), st.sampled_from(
            ["prepend", "drop_oldest", "replace_all"])),
        st.tuples(st.just("evict")),
        st.tuples(st.just("close"), j, st.sampled_from(
            ["clean", "clean", "fatal", "fatal_keep", "abrupt",
             "lost_close"])),
        st.tuples(st.just("tamper"), j, st.sampled_from(
            ["flip", "trunc", "garbage", "foreign", "random_sid"])),
        st.tuples(st.just("kill_resumed"), j, st.sampled_from(
            ["fatal", "garbage", "abrupt"]), st.booleans()),
        st.tuples(st.just("resume"), j, st.fixed_dictionaries(
            {}, optional={"ems": st.booleans(), "etm": st.booleans(),
                          "drop_ccert": st.just(True),
                          "hrr": st.just(True),
                          "xpsk": st.just(True),
                          "s_ciphers": st.sampled_from(
                              [["aes128"], ["aes256gcm", "aes128gcm",
                                            "chacha20-poly1305"]]),
                          "v": st.sampled_from(["tls10", "tls12",
                                                "tls13"])})),
        st.tuples(st.just("resume"), j, st.just({})),
        st.tuples(st.just("resume"), j, st.just({})),
    ).map(list)


@st.composite
def cases(draw, tier):
    first = ["full", draw(st.sampled_from(["tls10", "tls12", "tls13"])),
             draw(c_opts_st), draw(s_opts_st)]
    ops = [first] + draw(st.lists(op_strategy(), min_size=1,
                                  max_size=7 if tier == "quick" else 12))
    return {"ops": ops, "salt": draw(st.integers(0, 3))}


def strategy(tier):
    return cases(tier)


def budget(tier):
    return 1500 if tier == "quick" else 40000


def explicit(tier, seed):
    base_c = {"ems": True, "etm": True, "sni": None, "ccert": False}
    for v in ("tls10", "tls12", "tls13"):
        for s_opts in ({"cache": True, "tickets": False, "ems": True,
                        "etm": True},
                       {"cache": False, "tickets": True, "ems": True,
                        "etm": True},
                       {"cache": True, "tickets": True, "ems": True,
                        "etm": True}):
            if v == "tls13" and not s_opts["tickets"]:
                continue
            full = ["full", v, dict(base_c), dict(s_opts)]
            yield {"ops": [full, ["resume", 0, {}]]}
            if v == "tls13":
                for aa in (0, 2 ** 31, 2 ** 32 - 1, 2 ** 32 - 500):
                    yield {"ops": [["full", v, dict(base_c),
                                    dict(s_opts, age_add=aa)],
                                   ["adv", 1, "both"], ["resume", 0, {}],
                                   ["resume", 1, {}]]}
            yield {"ops": [full, ["close", 0, "clean"], ["resume", 0, {}],
                           ["resume", 0, {}]]}
            yield {"ops": [full, ["close", 0, "fatal"], ["resume", 0, {}]]}
            yield {"ops": [full, ["close", 0, "abrupt"], ["resume", 0, {}]]}
            yield {"ops": [full, ["close", 0, "lost_close"],
                           ["resume", 0, {}]]}
            for dt, who in ((999, "both"), (1001, "both"), (1001, "s"),
                            (1001, "c"), (5000, "s")):
                yield {"ops": [full, ["adv", dt, who], ["resume", 0, {}]]}
            for kind in ("prepend", "drop_oldest", "replace_all"):
                yield {"ops": [full, ["rotate", kind], ["resume", 0, {}]]}
            for kind in ("flip", "trunc", "garbage", "foreign",
                         "random_sid"):
                yield {"ops": [full, ["tamper", 0, kind],
                               ["resume", 0, {}]]}
            for kind in ("fatal", "garbage", "abrupt"):
                for keep in (False, True):
                    yield {"ops": [full, ["resume", 0, {}],
                                   ["kill_resumed", 0, kind, keep],
                                   ["resume", 0, {}]]}
            yield {"ops": [full, ["close", 0, "fatal_keep"],
                           ["resume", 0, {}]]}
            yield {"ops": [full, ["resume", 0, {"hrr": True}],
                           ["resume", 0, {"hrr": True}]]}
            if v == "tls13":
                # an external PSK next to the ticket; first-ever connection
                # keyed by an external PSK alone
                yield {"ops": [full, ["resume", 0, {"xpsk": True}]]}
                yield {"ops": [full, ["tamper", 0, "foreign"],
                               ["resume", 0, {"xpsk": True}]]}
                yield {"ops": [full, ["rotate", "replace_all"],
                               ["resume", 0, {"xpsk": True}]]}
                xp = dict(base_c, xpsk=True)
                yield {"ops": [["full", v, xp, dict(s_opts, xpsk=True)],
                               ["resume", 0, {}]]}
            yield {"ops": [full, ["evict"], ["resume", 0, {}]]}
            # expiry must still work after the cache ring has wrapped
            full2 = ["full", v, dict(base_c), dict(s_opts)]
            yield {"ops": [full, ["evict"], full2, ["adv", 1001, "both"],
                           ["resume", 1, {}]]}
            yield {"ops": [full, ["evict"], full2, full2,
                           ["adv", 5000, "s"], ["resume", 2, {}],
                           ["resume", 1, {}]]}
            # ... also for the entries that were the oldest when it wrapped
            yield {"ops": [full, ["evict"], ["adv", 1001, "both"],
                           ["resume", 0, {}]]}
            yield {"ops": [full, full2, ["evict"], ["adv", 5000, "s"],
                           ["resume", 1, {}], ["resume", 0, {}]]}
            yield {"ops": [full, ["resume", 0, {"ems": False}]]}
            yield {"ops": [full, ["resume", 0, {"etm": False}]]}
            yield {"ops": [full, ["resume", 0, {"s_ciphers": ["aes128"]}]]}
            for v2 in ("tls10", "tls12", "tls13"):
                if v2 != v:
                    yield {"ops": [full, ["resume", 0, {"v": v2}]]}
        auth = ["full", v, {"ems": True, "etm": True,
                            "sni": "example.com", "ccert": True},
                {"cache": True, "tickets": True, "ems": True, "etm": True}]
        yield {"ops": [auth, ["resume", 0, {}]]}
        yield {"ops": [auth, ["resume", 0, {"drop_ccert": True}]]}
        yield {"ops": [auth, ["adv", 1001, "s"],
                       ["resume", 0, {"drop_ccert": True}]]}
        yield {"ops": [auth, ["rotate", "replace_all"],
                       ["resume", 0, {"drop_ccert": True}]]}
        yield {"ops": [auth, ["resume", 0, {"drop_ccert": True,
                                            "s_ciphers": ["aes128"]}]]}
        for v2 in ("tls12", "tls13"):
            if v2 != v:
                yield {"ops": [auth, ["resume", 0, {"drop_ccert": True,
                                                    "v": v2}]]}
