"""C09 - symmetric primitives and key derivation compute the standardised
functions.  Oracle: vlib.refs (validated against OpenSSL CLI / RFC vectors
in selftest())."""
import hashlib
import hmac as std_hmac
import subprocess

from hypothesis import strategies as st

from vlib.runner import good, bad, HarnessError
from vlib.refs import aes as raes, aead as raead, kdf, record as rr
from vlib.refs.mac import record_mac
from vlib import iana
from vlib.rl import RL, ref_pair

from tlslite.utils import python_aes, python_rc4, python_tripledes
from tlslite.utils import cipherfactory
from tlslite.utils.chacha import ChaCha
from tlslite.utils.poly1305 import Poly1305
from tlslite.utils import cryptomath
from tlslite import mathtls
from tlslite.handshakehashes import HandshakeHashes

ID = "C09"
LEVEL = "exploration"
RULE = ("case = (function, key/nonce/AAD/message/label sizes and seeds, "
        "chunking, mutation) drawn by Hypothesis with boundary-biased "
        "lengths (0..5 blocks, partial blocks, long-AAD encodings 0xFEFF/"
        "0xFF00/2^16) plus enumerated single-bit-flip negatives for AEADs; "
        "oracle = independent reference implementations (FIPS-197, SP "
        "800-38C/D, RFC 8439, RFC 2246/5246/6101/5869/8446) validated "
        "against the openssl CLI; non-trivial = message or AAD not block "
        "aligned, or >= 2 calls, or output length not a multiple of the "
        "hash size, or a negative (tampered) AEAD input; distinct = case "
        "hash")
ASSUMPTIONS = [
    "functional equality only (no timing)",
    "3DES is compared with the openssl CLI directly",
    "ChaCha counter restricted to values that do not wrap 2^32 within the "
    "message (unreachable in TLS records)",
]

FUNCS = ["aes_cbc", "aes_ctr", "gcm", "ccm", "ccm8", "chacha", "poly1305",
         "chachapoly", "rc4", "des3", "hmac", "prf", "hkdf", "calc_key",
         "keyblock", "tls13state"]


def prg(tag, n):
    out = bytearray()
    i = 0
    while len(out) < n:
        out += hashlib.sha256(b"%s|%d" % (tag.encode(), i)).digest()
        i += 1
    return bytes(out[:n])


def selftest():
    """Reference implementations vs known answers and the openssl CLI."""
    h = bytes.fromhex
    assert raes.ecb_encrypt(h("000102030405060708090a0b0c0d0e0f"),
                            h("00112233445566778899aabbccddeeff")).hex() == \
        "69c4e0d86a7b0430d8cdb78070b4c55a"
    z = b"\0" * 16
    assert raead.gcm_seal(z, b"\0" * 12, z, b"").hex() == \
        "0388dace60b6a392f328c2b971b2fe78ab6e47d42cec13bdf53a67b21257bddf"
    key = bytes(range(0x80, 0xa0))
    o = raead.chacha20poly1305_seal(
        key, h("070000004041424344454647"),
        b"Ladies and Gentlemen of the class of '99: If I could offer you "
        b"only one tip for the future, sunscreen would be it.",
        h("50515253c0c1c2c3c4c5c6c7"))
    assert o[-16:].hex() == "1ae10b594f09e26a7e902ecbd0600691"
    o = raead.ccm_seal(bytes(range(0xc0, 0xd0)),
                       h("00000003020100a0a1a2a3a4a5"),
                       bytes(range(8, 0x1f)), bytes(range(8)), 8)
    assert o.hex() == "588c979a61c663d2f066d0c2c0f989806d5f6b61dac38417e8" \
        "d12cfdf926e0"

    def ossl(args, data=b""):
        r = subprocess.run(["openssl"] + args, input=data,
                           capture_output=True, timeout=30)
        return r.stdout
    k = prg("k", 32)
    iv = prg("iv", 16)
    d = prg("d", 160)
    if ossl(["enc", "-aes-256-cbc", "-K", k.hex(), "-iv", iv.hex(),
             "-nopad"], d) != raes.cbc_encrypt(k, iv, d):
        raise AssertionError("reference AES-CBC != openssl")
    if ossl(["enc", "-aes-128-ctr", "-K", k[:16].hex(), "-iv", iv.hex()],
            d[:77]) != raes.ctr_crypt(k[:16], iv, d[:77]):
        raise AssertionError("reference AES-CTR != openssl")
    if ossl(["enc", "-chacha20", "-K", k.hex(), "-iv",
             (b"\x01\0\0\0" + iv[:12]).hex()], d[:150]) != \
            raead.chacha20_crypt(k, 1, iv[:12], d[:150]):
        raise AssertionError("reference ChaCha20 != openssl")
    out = ossl(["mac", "-macopt", "hexkey:" + k.hex(), "-in", "/dev/stdin",
                "POLY1305"], d[:99]).strip().lower()
    if out != raead.poly1305(k, d[:99]).hex().encode():
        raise AssertionError("reference Poly1305 != openssl")
    out = ossl(["mac", "-cipher", "AES-128-GCM", "-macopt",
                "hexkey:" + k[:16].hex(), "-macopt",
                "hexiv:" + iv[:12].hex(), "-in", "/dev/stdin", "GMAC"],
               d[:99]).strip().lower()
    if out != raead.gcm_seal(k[:16], iv[:12], b"", d[:99]).hex().encode():
        raise AssertionError("reference GMAC != openssl")
    # TLS1-PRF and HKDF
    sec, seed = prg("sec", 48), prg("seed", 77)
    out = ossl(["kdf", "-keylen", "100", "-kdfopt", "digest:SHA256",
                "-kdfopt", "hexsecret:" + sec.hex(), "-kdfopt",
                "hexseed:" + (b"label" + seed).hex(), "-binary",
                "TLS1-PRF"])
    if out != kdf.tls12_prf("sha256", sec, b"label", seed, 100):
        raise AssertionError("reference TLS1.2 PRF != openssl")
    out = ossl(["kdf", "-keylen", "100", "-kdfopt", "digest:MD5-SHA1",
                "-kdfopt", "hexsecret:" + sec.hex(), "-kdfopt",
                "hexseed:" + (b"label" + seed).hex(), "-binary",
                "TLS1-PRF"])
    if out != kdf.tls10_prf(sec, b"label", seed, 100):
        raise AssertionError("reference TLS1.0 PRF != openssl")
    out = ossl(["kdf", "-keylen", "80", "-kdfopt", "digest:SHA384",
                "-kdfopt", "hexkey:" + sec.hex(), "-kdfopt",
                "hexsalt:" + seed.hex(), "-kdfopt", "hexinfo:" + k.hex(),
                "-binary", "HKDF"])
    want = kdf.hkdf_expand("sha384", kdf.hkdf_extract("sha384", seed, sec),
                           k, 80)
    if out != want:
        raise AssertionError("reference HKDF != openssl")


# ---------------------------------------------------------------------------
def chunks(data, cuts, block=1):
    """split data at the (block-aligned) cut points"""
    pts = sorted(set((c % (len(data) // block + 1)) * block for c in cuts))
    out = []
    prev = 0
    for p in pts + [len(data)]:
        if p > prev:
            out.append(data[prev:p])
            prev = p
    return out or [data]


def check(case):
    f = case["f"]
    fn = globals()["do_" + f]
    return fn(case)


def _res(case, ok, nt, detail="", sub=""):
    labels = ["f=" + case["f"]]
    if ok:
        return good(nt=nt, labels=labels)
    return bad("%s%s" % (case["f"], (":" + sub) if sub else ""),
               "case=%r %s" % (case, detail), nt=nt, labels=labels)


def do_aes_cbc(case):
    kl, nb = case["kl"], case["nblocks"]
    key, iv = prg("cbck%d" % case["s"], kl), prg("cbciv%d" % case["s"], 16)
    pt = prg("cbcp%d" % case["s"], 16 * nb)
    enc = python_aes.new(bytearray(key), 2, bytearray(iv))
    parts = chunks(pt, case["cuts"], 16)
    ct = b"".join(bytes(enc.encrypt(bytearray(p))) for p in parts)
    want = raes.cbc_encrypt(key, iv, pt)
    if ct != want:
        return _res(case, False, True, "encrypt differs", "encrypt")
    dec = python_aes.new(bytearray(key), 2, bytearray(iv))
    back = b"".join(bytes(dec.decrypt(bytearray(p)))
                    for p in chunks(ct, case["cuts"], 16))
    if back != pt:
        return _res(case, False, True, "decrypt differs", "decrypt")
    return _res(case, True, len(parts) >= 2 or nb >= 2)


def do_aes_ctr(case):
    kl, n = case["kl"], case["n"]
    ivl = case["ivlen"]
    key = prg("ctrk%d" % case["s"], kl)
    iv = prg("ctriv%d" % case["s"], ivl)
    if case.get("ff"):
        # counter block close to a carry boundary
        iv = iv[:ivl - 1] + b"\xff"
    pt = prg("ctrp%d" % case["s"], n)
    c = cipherfactory.createAESCTR(bytearray(key), bytearray(iv), ["python"])
    start = 0
    if case.get("ctr") is not None and ivl < 16:
        start = case["ctr"] % (1 << (8 * (16 - ivl)))
        blocks = (n + 15) // 16 + 1
        if start + blocks >= (1 << (8 * (16 - ivl))) - 1:
            start = max(0, (1 << (8 * (16 - ivl))) - 2 - blocks)
        c.counter = bytearray(iv + start.to_bytes(16 - ivl, "big"))
    ctr0 = iv + start.to_bytes(16 - ivl, "big")
    if case.get("carry"):
        # a full counter block whose low 16-j bytes are about to roll over:
        # the carry has to travel into byte j-1, wherever that is
        j = case["carry"]
        ctr0 = prg("ctrc%d" % case["s"], j) + b"\xff" * (15 - j) + b"\xfe"
        if ctr0[j - 1] == 0xff:
            ctr0 = ctr0[:j - 1] + b"\x7f" + ctr0[j:]
        # (a 16-byte IV: the whole block counts, no counter field that
        # could be reported exhausted)
        c = cipherfactory.createAESCTR(bytearray(key), bytearray(ctr0),
                                       ["python"])
    parts = chunks(pt, case["cuts"], 16)
    ct = b"".join(bytes(c.encrypt(bytearray(p))) for p in parts)
    want = raes.ctr_crypt(key, ctr0, pt, inc_bytes=16)
    if ct != want:
        return _res(case, False, True, "ctr differs")
    return _res(case, True, n % 16 != 0 or len(parts) >= 2)


AEADS = {
    "gcm": (lambda k: cipherfactory.createAESGCM(bytearray(k), ["python"]),
            "aesgcm", 16),
    "ccm": (lambda k: cipherfactory.createAESCCM(bytearray(k), ["python"]),
            "aesccm", 16),
    "ccm8": (lambda k: cipherfactory.createAESCCM_8(bytearray(k),
                                                   ["python"]),
             "aesccm", 8),
    "chachapoly": (lambda k: cipherfactory.createCHACHA20(bytearray(k),
                                                          ["python"]),
                   "chacha20poly1305", 16),
}


def _aead(case):
    mk, rname, tl = AEADS[case["f"]]
    kl = 32 if case["f"] == "chachapoly" else case["kl"]
    key = prg("ak%d" % case["s"], kl)
    nonce = prg("an%d" % case["s"], 12)
    pt = prg("ap%d" % case["s"], case["n"])
    aad = prg("aa%d" % case["s"], case["alen"])
    obj = mk(key)
    # the caller's buffers are used again (the record layer keeps nonce and
    # additional data around): the functions must leave them alone
    bn, bp, ba = bytearray(nonce), bytearray(pt), bytearray(aad)
    ct = obj.seal(bn, bp, ba)
    want = raead.seal(rname, key, nonce, pt, aad, tl)
    nt = case["n"] % 16 != 0 or case["alen"] % 16 != 0
    if bytes(ct) != want:
        return _res(case, False, nt, "seal differs from reference", "seal")
    if (bytes(bn), bytes(bp), bytes(ba)) != (nonce, pt, aad):
        return _res(case, False, nt, "seal() modified its arguments",
                    "seal-modifies-arguments")
    bc = bytearray(ct)
    back = obj.open(bn, bc, ba)
    if back is None or bytes(back) != pt:
        return _res(case, False, nt, "open(seal(x)) != x", "roundtrip")
    if (bytes(bn), bytes(bc), bytes(ba)) != (nonce, bytes(ct), aad):
        return _res(case, False, nt, "open() modified its arguments",
                    "open-modifies-arguments")
    if bytes(obj.seal(bn, bp, ba)) != want:
        return _res(case, False, nt, "second seal() with the same buffers "
                    "differs", "seal-not-repeatable")
    mut = case.get("mut")
    if mut:
        where, pos, bit = mut
        c2, n2, a2 = bytearray(ct), bytearray(nonce), bytearray(aad)
        if where == "ct":
            c2[pos % len(c2)] ^= 1 << bit
        elif where == "nonce":
            n2[pos % 12] ^= 1 << bit
        elif where == "aad":
            if not a2:
                a2 = bytearray(b"\x00")
            else:
                a2[pos % len(a2)] ^= 1 << bit
        elif where == "trunc":
            k = 1 + pos % max(1, min(len(c2), 20))
            c2 = c2[:len(c2) - k]
        elif where == "extend":
            c2 += bytearray([bit])
        elif where == "aad_trunc":
            if not a2:
                return _res(case, True, False)
            a2 = a2[:-1]
        got = obj.open(n2, c2, a2)
        ref = raead.open_(rname, key, bytes(n2), bytes(c2), bytes(a2), tl)
        if ref is not None:
            raise HarnessError("reference accepts a tampered AEAD input")
        if got is not None:
            return _res(case, False, True,
                        "open() accepted tampered input (%s)" % where,
                        "accepts-" + where)
        return _res(case, True, True)
    return _res(case, True, nt)


do_gcm = do_ccm = do_ccm8 = do_chachapoly = _aead


def do_chacha(case):
    key, nonce = prg("ck%d" % case["s"], 32), prg("cn%d" % case["s"], 12)
    n = case["n"]
    ctr = case["ctr"]
    if ctr + n // 64 + 1 >= 2 ** 32:
        ctr = 2 ** 32 - 2 - n // 64
    pt = prg("cp%d" % case["s"], n)
    got = ChaCha(bytearray(key), bytearray(nonce), counter=ctr).encrypt(
        bytearray(pt))
    want = raead.chacha20_crypt(key, ctr, nonce, pt)
    return _res(case, bytes(got) == want, n % 64 != 0, "chacha20 differs")


def do_poly1305(case):
    key = prg("pk%d" % case["s"], 32)
    if case.get("edge"):
        # r/s limbs of all ones exercise clamp and final reduction
        key = b"\xff" * 32 if case["edge"] == 1 else b"\xff" * 16 + key[16:]
    msg = prg("pm%d" % case["s"], case["n"])
    if case.get("edge") == 3:
        msg = b"\xff" * case["n"]
    got = Poly1305(bytearray(key)).create_tag(bytearray(msg))
    return _res(case, bytes(got) == raead.poly1305(key, msg),
                case["n"] % 16 != 0 or bool(case.get("edge")),
                "poly1305 differs")


def do_rc4(case):
    key = prg("rk%d" % case["s"], case["kl"])
    pt = prg("rp%d" % case["s"], case["n"])
    c = python_rc4.new(bytearray(key))
    parts = chunks(pt, case["cuts"])
    got = b"".join(bytes(c.encrypt(bytearray(p))) for p in parts)
    want = raead.RC4(key).crypt(pt)
    return _res(case, got == want, len(parts) >= 2, "rc4 differs")


def do_des3(case):
    # (16-byte keys: two-key triple DES, K3 = K1)
    kl = case.get("kl", 24)
    key, iv = prg("dk%d" % case["s"], kl), prg("di%d" % case["s"], 8)
    pt = prg("dp%d" % case["s"], 8 * case["nblocks"])
    c = python_tripledes.new(bytearray(key), bytearray(iv))
    parts = chunks(pt, case["cuts"], 8)
    ct = b"".join(bytes(c.encrypt(bytearray(p))) for p in parts)
    want = rr.des3_cbc(key if kl == 24 else key + key[:8], iv, pt, True)
    if ct != want:
        return _res(case, False, True, "3des encrypt differs", "encrypt")
    d = python_tripledes.new(bytearray(key), bytearray(iv))
    back = b"".join(bytes(d.decrypt(bytearray(p)))
                    for p in chunks(ct, case["cuts"], 8))
    return _res(case, back == pt, len(parts) >= 2 or case["nblocks"] >= 2,
                "3des decrypt differs", "decrypt")


def do_hmac(case):
    alg = case["alg"]
    k, m = prg("hk%d" % case["s"], case["kl"]), prg("hm%d" % case["s"],
                                                    case["n"])
    got = cryptomath.secureHMAC(bytearray(k), bytearray(m), alg)
    want = std_hmac.new(k, m, getattr(hashlib, alg)).digest()
    return _res(case, bytes(got) == want, case["kl"] > 64 or case["n"] > 0,
                "hmac differs")


def do_prf(case):
    which = case["which"]
    sec = prg("ps%d" % case["s"], case["kl"])
    label = prg("pl%d" % case["s"], case["ll"])
    seed = prg("pd%d" % case["s"], case["sl"])
    n = case["n"]
    if which == "ssl":
        got = mathtls.PRF_SSL(bytearray(sec), bytearray(label + seed), n)
        want = kdf.ssl3_prf(sec, label + seed, n)
        hs = 16
    elif which == "tls10":
        got = mathtls.PRF(bytearray(sec), bytearray(label), bytearray(seed),
                          n)
        want = kdf.tls10_prf(sec, label, seed, n)
        hs = 20
    elif which == "sha256":
        got = mathtls.PRF_1_2(bytearray(sec), bytearray(label),
                              bytearray(seed), n)
        want = kdf.tls12_prf("sha256", sec, label, seed, n)
        hs = 32
    else:
        got = mathtls.PRF_1_2_SHA384(bytearray(sec), bytearray(label),
                                     bytearray(seed), n)
        want = kdf.tls12_prf("sha384", sec, label, seed, n)
        hs = 48
    return _res(case, bytes(got) == want, n % hs != 0,
                "PRF %s differs" % which, which)


def do_hkdf(case):
    alg = case["alg"]
    sec = prg("ks%d" % case["s"], case["kl"])
    label = prg("kl%d" % case["s"], case["ll"])
    ctx = prg("kc%d" % case["s"], case["cl"])
    n = case["n"]
    hs = kdf.H[alg]().digest_size
    which = case["which"]
    if which == "expand":
        got = cryptomath.HKDF_expand(bytearray(sec), bytearray(ctx), n, alg)
        want = kdf.hkdf_expand(alg, sec, ctx, n)
    elif which == "label":
        got = cryptomath.HKDF_expand_label(bytearray(sec), bytearray(label),
                                           bytearray(ctx), n, alg)
        want = kdf.expand_label(alg, sec, label, ctx, n)
    elif which == "derive":
        hh = HandshakeHashes()
        hh.update(bytearray(ctx))
        got = cryptomath.derive_secret(bytearray(sec), bytearray(label),
                                       hh if case["cl"] or case["s"] % 2
                                       else None, alg)
        want = kdf.derive_secret(alg, sec, label, ctx)
    else:       # extract = HMAC(salt, ikm)
        got = cryptomath.secureHMAC(bytearray(ctx or b"\0" * hs),
                                    bytearray(sec), alg)
        want = kdf.hkdf_extract(alg, ctx, sec)
    return _res(case, bytes(got) == want, n % hs != 0,
                "HKDF %s differs" % which, which)


SUITE_FOR_PRF = {"sha256": 0x002F, "sha384": 0x009D}


def do_calc_key(case):
    v = tuple(case["ver"])
    prfh = case["prf"]
    sid = SUITE_FOR_PRF[prfh]
    sec = prg("cs%d" % case["s"], 48)
    cr, sr = prg("cr%d" % case["s"], 32), prg("sr%d" % case["s"], 32)
    tr = prg("tr%d" % case["s"], case["tl"])
    hh = HandshakeHashes()
    for p in chunks(tr, case["cuts"]):
        hh.update(bytearray(p))
    label = case["label"]
    n = case["n"]
    if label == "master secret":
        got = mathtls.calc_key(v, bytearray(sec), sid, b"master secret",
                               client_random=bytearray(cr),
                               server_random=bytearray(sr), output_length=48)
        want = kdf.master_secret(v, prfh, sec, cr, sr)
        got2 = mathtls.calcMasterSecret(v, sid, bytearray(sec),
                                        bytearray(cr), bytearray(sr))
    elif label == "key expansion":
        got = mathtls.calc_key(v, bytearray(sec), sid, b"key expansion",
                               client_random=bytearray(cr),
                               server_random=bytearray(sr), output_length=n)
        want = kdf.key_block(v, prfh, sec, cr, sr, n)
        got2 = got
    elif label == "extended master secret":
        if v == (3, 0):
            return _res(case, True, False)
        got = mathtls.calc_key(v, bytearray(sec), sid,
                               b"extended master secret",
                               handshake_hashes=hh, output_length=48)
        if v == (3, 3):
            sh = kdf.H[prfh](tr).digest()
        else:
            sh = hashlib.md5(tr).digest() + hashlib.sha1(tr).digest()
        want = kdf.extended_master_secret(v, prfh, sec, sh)
        got2 = mathtls.calcExtendedMasterSecret(v, sid, bytearray(sec), hh)
    else:
        is_client = label == "client finished"
        got = mathtls.calc_key(v, bytearray(sec), sid, label.encode(),
                               handshake_hashes=hh, output_length=12)
        if v == (3, 0):
            want = kdf.finished_ssl3(sec, tr, is_client)
        else:
            want = kdf.finished_tls(v, prfh, sec, tr, is_client)
        got2 = mathtls.calcFinished(v, bytearray(sec), sid, hh, is_client)
    if bytes(got) != want:
        return _res(case, False, True, "calc_key differs",
                    "%s:%s" % (label.replace(" ", "_"), case["ver"]))
    if bytes(got2) != want:
        return _res(case, False, True, "legacy calc* function differs",
                    "legacy:%s" % label.replace(" ", "_"))
    return _res(case, True, True)


def usable_suites():
    """Registered suites the library can actually negotiate."""
    from props.c01 import negotiable, DEAD_SUITES
    return [iana.SUITES[i] for i in negotiable()
            if i not in DEAD_SUITES and not iana.SUITES[i].draft]


def _suites():
    return [s for i, s in sorted(iana.SUITES.items()) if not s.draft and
            s.kx_setting is not None or s.tls13]


def do_keyblock(case):
    """Key-block slicing, checked behaviourally against the reference
    record layer, both roles."""
    s = iana.SUITES[case["suite"]]
    v = tuple(case["ver"])
    master = prg("km%d" % case["s"], 48)
    cr, sr = prg("kcr%d" % case["s"], 32), prg("ksr%d" % case["s"], 32)
    etm = case["etm"]
    cst, sst = ref_pair(v, s, master, cr, sr, etm=etm)
    msg = prg("kmsg%d" % case["s"], case["n"])
    for client in (True, False):
        r = RL(v, s, client, master, cr, sr, etm=etm)
        # tlslite -> reference
        wire = r.send(23, msg)
        st_ = (cst if client else sst)
        try:
            ct, pt = rr.unprotect(st_, wire)
        except rr.RefReject as e:
            return _res(case, False, True,
                        "reference cannot open tlslite record (%s role): %s"
                        % ("client" if client else "server", e),
                        "tlslite-to-ref:%s" % s.kind)
        if (ct, pt) != (23, msg):
            return _res(case, False, True, "plaintext differs",
                        "tlslite-to-ref-plain")
        # reference -> tlslite
        peer = (sst if client else cst)
        wire = rr.protect(peer, 23, msg)
        try:
            got = r.recv(wire)
        except Exception as e:      # noqa
            return _res(case, False, True,
                        "tlslite cannot open reference record (%s role): %r"
                        % ("client" if client else "server", e),
                        "ref-to-tlslite:%s" % s.kind)
        if got != (23, msg):
            return _res(case, False, True, "plaintext differs: %r" % (got,),
                        "ref-to-tlslite-plain")
        cst, sst = ref_pair(v, s, master, cr, sr, etm=etm)
    return _res(case, True, True)


def do_tls13state(case):
    s = iana.SUITES[case["suite"]]
    hl = kdf.H[s.prf]().digest_size
    cl, sr = prg("tc%d" % case["s"], hl), prg("ts%d" % case["s"], hl)
    msg = prg("tm%d" % case["s"], case["n"])
    for client in (True, False):
        r = RL((3, 4), s, client, cl_secret=cl, sr_secret=sr)
        cst, sst = ref_pair((3, 4), s, cl_secret=cl, sr_secret=sr)
        mine, peer = (cst, sst) if client else (sst, cst)
        csec, ssec = cl, sr
        for gen in range(case["updates"] + 1):
            wire = r.send(23, msg)
            try:
                ct, pt = rr.unprotect(mine, wire)
            except rr.RefReject as e:
                return _res(case, False, True,
                            "generation %d: reference cannot open: %s" % (
                                gen, e), "tlslite-to-ref")
            if (ct, pt) != (23, msg):
                return _res(case, False, True, "plaintext differs",
                            "tlslite-to-ref-plain")
            wire = rr.protect(peer, 23, msg, inner_pad=gen * 3)
            try:
                got = r.recv(wire)
            except Exception as e:      # noqa
                return _res(case, False, True,
                            "generation %d: tlslite cannot open: %r" % (
                                gen, e), "ref-to-tlslite")
            if got != (23, msg):
                return _res(case, False, True, "plaintext differs",
                            "ref-to-tlslite-plain")
            if gen == case["updates"]:
                break
            # roll both directions one generation with the library's
            # key-update functions and with the reference
            ncl, nsr = r.rl.calcTLS1_3KeyUpdate_sender(
                s.id, bytearray(csec), bytearray(ssec))
            ncl, nsr = r.rl.calcTLS1_3KeyUpdate_reciever(
                s.id, bytearray(ncl), bytearray(nsr))
            csec = kdf.tls13_next_secret(s.prf, csec)
            ssec = kdf.tls13_next_secret(s.prf, ssec)
            if (bytes(ncl), bytes(nsr)) != (csec, ssec):
                return _res(case, False, True,
                            "updated secrets differ from HKDF-Expand-Label("
                            "'traffic upd')", "keyupdate-secret")
            cst, sst = ref_pair((3, 4), s, cl_secret=csec, sr_secret=ssec)
            mine, peer = (cst, sst) if client else (sst, cst)
    return _res(case, True, True)


# ---------------------------------------------------------------------------
lens = st.one_of(st.integers(0, 80), st.sampled_from(
    [0, 1, 15, 16, 17, 31, 32, 33, 47, 48, 63, 64, 65, 127, 128, 129, 255,
     256, 257]))
cuts = st.lists(st.integers(0, 40), max_size=4)
seedi = st.integers(0, 10 ** 6)


@st.composite
def cases(draw, tier):
    f = draw(st.sampled_from(FUNCS + ["gcm", "ccm", "chachapoly", "prf",
                                      "hkdf", "calc_key", "keyblock"]))
    c = {"f": f, "s": draw(seedi)}
    if f == "aes_cbc":
        c.update(kl=draw(st.sampled_from([16, 24, 32])),
                 nblocks=draw(st.integers(0, 6)), cuts=draw(cuts))
    elif f == "aes_ctr":
        c.update(kl=draw(st.sampled_from([16, 24, 32])), n=draw(lens),
                 ivlen=draw(st.sampled_from([8, 12, 13, 14, 15])),
                 cuts=draw(cuts), ff=draw(st.booleans()),
                 ctr=draw(st.one_of(st.none(), st.sampled_from(
                     [0, 1, 254, 255, 256, 65534, 65535, 2 ** 24 - 1,
                      2 ** 32 - 5]), st.integers(0, 2 ** 24))))
        if draw(st.integers(0, 2)) == 0:
            c["carry"] = draw(st.integers(1, 15))
            c["n"] = max(c["n"], 40)
    elif f in AEADS:
        alen = draw(st.one_of(lens, st.sampled_from(
            [0xfeff, 0xff00, 0xff01, 2 ** 16, 2 ** 16 + 1])
            if tier == "thorough" else lens))
        c.update(kl=draw(st.sampled_from([16, 32])), n=draw(lens),
                 alen=alen)
        if draw(st.booleans()):
            c["mut"] = [draw(st.sampled_from(["ct", "ct", "nonce", "aad",
                                             "trunc", "extend",
                                             "aad_trunc"])),
                        draw(st.integers(0, 400)), draw(st.integers(0, 7))]
    elif f == "chacha":
        c.update(n=draw(lens), ctr=draw(st.sampled_from(
            [0, 1, 2, 255, 256, 65535, 65536, 2 ** 24, 2 ** 31,
             2 ** 32 - 10])))
    elif f == "poly1305":
        c.update(n=draw(lens), edge=draw(st.sampled_from([0, 0, 1, 2, 3])))
    elif f == "rc4":
        c.update(kl=draw(st.sampled_from([16, 17, 32, 256])), n=draw(lens),
                 cuts=draw(cuts))
    elif f == "des3":
        c.update(nblocks=draw(st.integers(1, 5)), cuts=draw(cuts),
                 kl=draw(st.sampled_from([24, 24, 16])))
    elif f == "hmac":
        c.update(alg=draw(st.sampled_from(["md5", "sha1", "sha256",
                                           "sha384"])),
                 kl=draw(st.sampled_from([0, 1, 16, 64, 65, 128, 129])),
                 n=draw(lens))
    elif f == "prf":
        c.update(which=draw(st.sampled_from(["ssl", "tls10", "sha256",
                                             "sha384"])),
                 kl=draw(st.sampled_from([0, 1, 47, 48, 49, 64, 100])),
                 ll=draw(st.integers(0, 30)), sl=draw(st.integers(0, 80)),
                 n=draw(st.one_of(st.integers(0, 260), st.sampled_from(
                     [0, 1, 12, 16, 20, 32, 36, 48, 96, 104, 136]))))
    elif f == "hkdf":
        c.update(alg=draw(st.sampled_from(["sha256", "sha384"])),
                 which=draw(st.sampled_from(["expand", "label", "derive",
                                             "extract"])),
                 kl=draw(st.sampled_from([32, 48, 1, 64])),
                 ll=draw(st.integers(0, 40)), cl=draw(st.integers(0, 70)),
                 n=draw(st.one_of(st.integers(0, 200), st.sampled_from(
                     [12, 16, 32, 48, 64, 96]))))
    elif f == "calc_key":
        c.update(ver=draw(st.sampled_from([[3, 0], [3, 1], [3, 2],
                                           [3, 3]])),
                 prf=draw(st.sampled_from(["sha256", "sha384"])),
                 label=draw(st.sampled_from(
                     ["master secret", "key expansion",
                      "extended master secret", "client finished",
                      "server finished"])),
                 tl=draw(st.integers(0, 300)), cuts=draw(cuts),
                 n=draw(st.sampled_from([0, 1, 40, 72, 104, 136, 200])))
    elif f == "keyblock":
        ok = [s for s in usable_suites() if not s.tls13]
        s = draw(st.sampled_from(sorted(ok, key=lambda x: x.id)))
        vs = [v for v in ([3, 0], [3, 1], [3, 2], [3, 3])
              if s.defined_in(v) is not False]
        if s.cipher == "3des" and tier == "quick" and draw(
                st.integers(0, 3)):
            s = iana.SUITES[0x002F]
            vs = [[3, 0], [3, 1], [3, 2], [3, 3]]
        c.update(suite=s.id, ver=draw(st.sampled_from(vs)),
                 etm=draw(st.booleans()) and s.kind == "cbc",
                 n=draw(st.integers(0, 120)))
    elif f == "tls13state":
        c.update(suite=draw(st.sampled_from([0x1301, 0x1302, 0x1303, 0x1304,
                                             0x1305])),
                 n=draw(st.integers(0, 100)),
                 updates=draw(st.integers(0, 3)))
    return c


def strategy(tier):
    return cases(tier)


def budget(tier):
    return 40000 if tier == "quick" else 600000


def explicit(tier, seed):
    """Exhaustive single-bit flips over a short sealed message per AEAD."""
    n = 9 if tier == "quick" else 32
    for f in AEADS:
        total = n + AEADS[f][2]
        for pos in range(total):
            for bit in range(8):
                yield {"f": f, "s": seed, "kl": 16, "n": n, "alen": 13,
                       "mut": ["ct", pos, bit]}
        for pos in range(12):
            for bit in range(8):
                yield {"f": f, "s": seed, "kl": 16, "n": n, "alen": 13,
                       "mut": ["nonce", pos, bit]}
        for pos in range(13):
            for bit in range(8):
                yield {"f": f, "s": seed, "kl": 16, "n": n, "alen": 13,
                       "mut": ["aad", pos, bit]}
    # AAD length encodings around the 2-octet / 6-octet switch (SP 800-38C)
    for f in AEADS:
        for alen in (0xfeff, 0xff00, 0xff01, 0xffff, 2 ** 16, 2 ** 16 + 1):
            yield {"f": f, "s": seed, "kl": 16, "n": 5, "alen": alen}
    # AES-CTR: the carry into every byte of the counter block
    for j in range(1, 16):
        for kl in (16, 32):
            yield {"f": "aes_ctr", "s": seed, "kl": kl, "n": 70, "ivlen": 8,
                   "cuts": [16, 33], "ff": False, "ctr": None, "carry": j}
    # every PRF x version x label once
    for v in ([3, 0], [3, 1], [3, 2], [3, 3]):
        for prf in ("sha256", "sha384"):
            for label in ("master secret", "key expansion",
                          "extended master secret", "client finished",
                          "server finished"):
                yield {"f": "calc_key", "s": seed, "ver": v, "prf": prf,
                       "label": label, "tl": 123, "cuts": [3], "n": 104}
    # every registered suite x defined version key block, both EtM values
    for s in usable_suites():
        sid = s.id
        if s.tls13:
            yield {"f": "tls13state", "s": seed, "suite": sid, "n": 33,
                   "updates": 2}
            continue
        for v in ([3, 0], [3, 1], [3, 2], [3, 3]):
            if s.defined_in(v) is False:
                continue
            if s.cipher == "3des" and tier == "quick" and v != [3, 1]:
                continue
            for etm in ([False, True] if s.kind == "cbc" else [False]):
                yield {"f": "keyblock", "s": seed, "suite": sid, "ver": v,
                       "etm": etm, "n": 37}
