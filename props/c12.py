"""C12 - the CBC MAC-and-padding check accepts exactly the well-formed
records.  Oracle: the direct specification, built on stdlib hmac/hashlib."""
import hashlib

from hypothesis import strategies as st

from vlib.runner import good, bad
from vlib.refs.mac import record_mac

from tlslite.utils.constanttime import ct_check_cbc_mac_and_pad
from tlslite.utils import tlshashlib
from tlslite.mathtls import createHMAC, createMAC_SSL

ID = "C12"
LEVEL = "exploration"
RULE = ("case = (MAC, version, block size, data length, padding-length byte,"
        " corruption); body = data|MAC|padding built by the reference, then "
        "corrupted; oracle = direct RFC specification of MtE CBC records; "
        "non-trivial = padding longer than one block or a corruption inside "
        "the last 256 bytes; distinct = hash of the whole case. Explicit "
        "grids (every pad 0..255 x 4 lengths, every length 0..330 x 7 pads, "
        "all MAC x version pairs, 8 corruption classes) are enumerated, the "
        "rest is drawn by Hypothesis; plus the call site: a directly keyed "
        "RecordLayer per MAC-then-encrypt CBC suite (block 8 and 16) fed "
        "reference-sender records with legal, over-long, corrupted and "
        "truncated padding")
ASSUMPTIONS = [
    "functional equivalence only; no timing side channel is measured",
    "MAC objects are built the way RecordLayer builds them (tlshashlib "
    "constructors, createMAC_SSL for SSLv3, createHMAC otherwise)",
    "SSLv3 with padding length byte == block size is 'either' (RFC 6101 "
    "says < block size, the property says at most one block)",
]
MACS = {"md5": 16, "sha1": 20, "sha256": 32, "sha384": 48}
VERSIONS = [(3, 0), (3, 1), (3, 2), (3, 3)]
CORR = ["none", "data_first", "data_last", "mac_first", "mac_mid",
        "mac_last", "pad_first", "pad_mid", "pad_lastbyte_before_len",
        "len_plus1", "len_minus1", "truncate_front", "mac_each"]


def pairs():
    out = []
    for v in VERSIONS:
        for m in MACS:
            if v == (3, 0) and m not in ("md5", "sha1"):
                continue
            out.append((m, v))
    return out


def prg(seed, n):
    out = b""
    i = 0
    while len(out) < n:
        out += hashlib.sha256(b"%s/%d" % (seed.encode(), i)).digest()
        i += 1
    return out[:n]


def build(case):
    """Returns (body bytearray, key, seq, ctype, touched_last256: bool) or
    None when the corruption does not apply to this geometry."""
    m, v = case["mac"], tuple(case["ver"])
    dlen, p = case["dlen"], case["pad"]
    tag = "%s%s%d%d%d" % (m, v, dlen, p, case.get("salt", 0))
    key = prg("k" + tag, MACS[m])
    data = prg("d" + tag, dlen)
    seq = case.get("seq", 0)
    ctype = case.get("ctype", 23)
    macv = record_mac(m, key, seq, ctype, v, data)
    if v == (3, 0):
        # SSLv3 padding content is arbitrary
        padding = prg("p" + tag, p) + bytes([p])
    else:
        padding = bytes([p]) * (p + 1)
    body = bytearray(data + macv + padding)
    c = case["corr"]
    n = len(body)
    ml = MACS[m]
    mac_at = dlen
    pad_at = dlen + ml
    x = case.get("xor", 1) or 1
    pos = None
    if c == "none":
        pass
    elif c == "data_first":
        if dlen < 1:
            return None
        pos = 0
    elif c == "data_last":
        if dlen < 1:
            return None
        pos = dlen - 1
    elif c == "mac_first":
        pos = mac_at
    elif c == "mac_mid":
        pos = mac_at + ml // 2
    elif c == "mac_last":
        pos = mac_at + ml - 1
    elif c == "mac_each":
        pos = mac_at + case.get("idx", 0) % ml
    elif c == "pad_first":
        if p < 1:
            return None
        pos = pad_at
    elif c == "pad_mid":
        if p < 3:
            return None
        pos = pad_at + p // 2
    elif c == "pad_lastbyte_before_len":
        if p < 2:
            return None
        pos = n - 2
    elif c == "len_plus1":
        if p == 255:
            return None
        body[-1] = p + 1
    elif c == "len_minus1":
        if p == 0:
            return None
        body[-1] = p - 1
    elif c == "truncate_front":
        k = case.get("idx", 1) % (n) if n > 1 else 0
        if k == 0:
            return None
        del body[:k]
    else:
        raise ValueError(c)
    if pos is not None:
        body[pos] ^= x
    touched = c != "none" and (pos is None or pos >= n - 256)
    return body, key, seq, ctype, touched


def spec(body, m, v, bs, key, seq, ctype):
    """True / False / None(=either) by the specification."""
    ml = MACS[m]
    n = len(body)
    if n < ml + 1:
        return False
    p = body[-1]
    if p + 1 + ml > n:
        return False            # padding longer than the body can hold
    either = False
    if v == (3, 0):
        if p > bs:
            return False        # more than one block of padding
        if p == bs:
            either = True
    else:
        if any(b != p for b in body[n - 1 - p:n - 1]):
            return False
    data = bytes(body[:n - 1 - p - ml])
    macv = bytes(body[n - 1 - p - ml:n - 1 - p])
    if record_mac(m, key, seq, ctype, v, data) != macv:
        return False
    return None if either else True


def make_mac(m, v, key):
    digestmod = getattr(tlshashlib, m)
    if v == (3, 0):
        return createMAC_SSL(bytearray(key), digestmod=digestmod)
    return createHMAC(bytearray(key), digestmod)


def check_site(case):
    """The one call site (RecordLayer._decryptThenMAC) must hand the check
    the real block size / version / MAC: a directly keyed RecordLayer is fed
    records from the reference sender (C02's level-A machinery) for every
    MAC-then-encrypt CBC suite, including the 8-byte-block one."""
    from props import c02
    r = c02.check_rl(case["site"])
    r.labels = ["site"] + [x for x in r.labels if x != "A"]
    if not r.ok:
        r.sig = "call-site:" + r.sig
    return r


def check(case):
    if "site" in case:
        return check_site(case)
    m, v, bs = case["mac"], tuple(case["ver"]), case["bs"]
    b = build(case)
    if b is None:
        return good(nt=False, labels=["not-applicable-geometry"])
    body, key, seq, ctype, touched = b
    want = spec(body, m, v, bs, key, seq, ctype)
    mac = make_mac(m, v, key)
    import struct
    bbody, bseq = bytearray(body), bytearray(struct.pack(">Q", seq))
    got = ct_check_cbc_mac_and_pad(bbody, mac, bseq, ctype, v, bs)
    nt = (case["pad"] > bs) or touched
    labels = ["ver=%d.%d" % v, "corr=" + case["corr"],
              "spec=" + {True: "accept", False: "reject",
                         None: "either"}[want]]
    # a check: it leaves its arguments alone and says the same again
    if bytes(bbody) != bytes(body) or bytes(bseq) != struct.pack(">Q", seq):
        return bad("check-modifies-its-arguments",
                   "body %d -> %d bytes, sequence number %d -> %d bytes" % (
                       len(body), len(bbody), 8, len(bseq)), nt=nt,
                   labels=labels)
    if ct_check_cbc_mac_and_pad(bbody, mac, bseq, ctype, v, bs) != got:
        return bad("check-not-repeatable", "second call with the same "
                   "objects answers %r" % (not got), nt=nt, labels=labels)
    if case["pad"] > bs:
        labels.append("pad>block")
    if want is None or got == want:
        return good(nt=nt, labels=labels)
    kind = "accepts-malformed" if got else "rejects-wellformed"
    geom = "ssl3" if v == (3, 0) else "tls"
    shape = "pad-exceeds-body" if body[-1] + 1 + MACS[m] > len(body) \
        else "other"
    return bad("%s:%s:%s" % (kind, geom, shape),
               "case=%r got=%r want=%r len=%d lastbyte=%d" % (
                   case, got, want, len(body), body[-1]),
               nt=nt, labels=labels)


def fits(m, v, bs, dlen, p):
    """Could a conforming sender have produced (dlen, p)?"""
    if (dlen + MACS[m] + p + 1) % bs:
        return False
    if v == (3, 0) and p >= bs:
        return False
    return True


def explicit(tier, seed):
    corr = [c for c in CORR if c not in ("mac_each", "truncate_front")]
    dl_set = [0, 1, 13, 300] if tier == "thorough" else [0, 13]
    pads_long = range(256) if tier == "thorough" else \
        [0, 1, 7, 8, 9, 15, 16, 17, 31, 32, 127, 128, 200, 254, 255]
    for (m, v) in pairs():
        for bs in (8, 16):
            # grid 1: pad sweep
            for p in pads_long:
                for dl in dl_set:
                    for c in corr:
                        yield {"mac": m, "ver": list(v), "bs": bs,
                               "dlen": dl, "pad": p, "corr": c, "xor": 1}
            # grid 2: length sweep
            lens = range(0, 331) if tier == "thorough" else \
                [0, 1, 2, 15, 16, 17, 63, 64, 65, 255, 256, 257, 330]
            for dl in lens:
                for p in (0, 1, 15, 16, 17, 255):
                    for c in ("none", "mac_last", "len_plus1", "data_last"):
                        yield {"mac": m, "ver": list(v), "bs": bs,
                               "dlen": dl, "pad": p, "corr": c, "xor": 0x80}
            # every MAC byte
            for i in range(MACS[m]):
                yield {"mac": m, "ver": list(v), "bs": bs, "dlen": 5,
                       "pad": 3, "corr": "mac_each", "idx": i, "xor": 1}
    for c in site_cases(tier, seed):
        yield c


def site_cases(tier, seed):
    from props.c01 import triples
    from vlib import iana
    k = 0
    for sid, v, etm in triples():
        su = iana.SUITES[sid]
        if su.kind != "cbc" or etm or tuple(v) >= (3, 4) or su.draft:
            continue
        for ln in (0, 5, 44, 60):
            for m in ("legal_pad", "bad_pad", "long_pad_forged", "mte_short",
                      "ssl3_pad_over_block"):
                k += 1
                yield {"site": {"level": "A", "suite": sid, "ver": list(v),
                                "etm": False, "client": bool(k % 2), "m": m,
                                "lens": [3, ln], "pad": k, "salt": seed % 4}}
        # the sequence number the call site hands over, beyond 2^32
        for m in ("legal_pad", "wrong_seq"):
            k += 1
            yield {"site": {"level": "A", "suite": sid, "ver": list(v),
                            "etm": False, "client": bool(k % 2), "m": m,
                            "lens": [3, 20, 9], "pad": k, "salt": seed % 4,
                            "seq0": 2 ** 32 - 1}}


def strategy(tier):
    pr = pairs()

    @st.composite
    def case(draw):
        m, v = draw(st.sampled_from(pr))
        bs = draw(st.sampled_from([8, 16]))
        dlen = draw(st.one_of(st.integers(0, 40), st.integers(0, 600),
                              st.sampled_from([0, 255, 256, 257, 511, 512])))
        p = draw(st.one_of(st.integers(0, 255), st.integers(0, bs + 1)))
        c = draw(st.sampled_from(CORR))
        d = {"mac": m, "ver": list(v), "bs": bs, "dlen": dlen, "pad": p,
             "corr": c, "xor": draw(st.sampled_from([1, 2, 0x80, 0xff])),
             "seq": draw(st.sampled_from([0, 1, 255, 256, 2 ** 32,
                                          2 ** 64 - 1])),
             "ctype": draw(st.sampled_from([20, 21, 22, 23, 24])),
             "salt": draw(st.integers(0, 3))}
        if c in ("mac_each", "truncate_front"):
            d["idx"] = draw(st.integers(0, 700))
        return d
    return case()


def budget(tier):
    return 6000 if tier == "quick" else 120000


def exhaustive(tier):
    return False
