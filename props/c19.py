"""C19 - settings validation is pure and idempotent; compatible settings
connect."""
import copy

from hypothesis import strategies as st

from vlib.runner import good, bad, HarnessError
from vlib.det import DET
from vlib import scenario as sc
from vlib import iana, lattice

from tlslite.handshakesettings import HandshakeSettings
from tlslite.utils import cryptomath, cipherfactory

ID = "C19"
LEVEL = "exploration"
RULE = ("three case kinds: (purity) settings built from the lattice (valid "
        "by construction, differing from the defaults in >= 2 fields) are "
        "deep-snapshotted before validate() and compared afterwards, "
        "validate(validate(s)) must equal validate(s) field-wise, the "
        "result may name only loaded backends; (domain) one documented "
        "field at a time is set to an out-of-domain value of the documented "
        "kind on top of a lattice setting and validate() must raise "
        "ValueError and still not modify the receiver; (connect) lattice "
        "pairs for which an independent, deliberately under-approximating "
        "model finds a witness (highest common version, suite, group, "
        "signature scheme usable with the server key, key size inside the "
        "client window) must complete a loopback handshake, and so must "
        "endpoints sharing an external PSK (2- or 3-element configuration "
        "form), a PSK mode, a suite with the PSK's hash and a group, with "
        "or without a server certificate; (ortho) every "
        "accepted value of the settings that restrict nothing shared "
        "(certificate compression lists incl. empty, psk_modes incl. empty, "
        "ticket_count, padding / heartbeat / TACK / point-format switches, "
        "record_size_limit, max_early_data) on either or both sides, with "
        "and without client authentication and post-handshake "
        "authentication, must connect and carry data. non-trivial = "
        ">= 2 non-default fields / an out-of-domain value / a witnessed pair "
        "whose policies differ; distinct = hash(case)")
ASSUMPTIONS = [
    "the compatibility model is an under-approximation: pairs it cannot "
    "classify are 'unspecified' and never counted against the code",
    "documented domains are taken from the HandshakeSettings docstring and "
    "the module-level name lists",
]
MAX_WALL = {"quick": 200, "thorough": 3000}

FIELDS = None


def init(tier, seed):
    DET.install()


def snapshot(s):
    d = {}
    for k, v in vars(s).items():
        if callable(v):
            d[k] = ("callable", id(v))
        else:
            d[k] = copy.deepcopy(v)
    return d


def diff(a, b):
    return sorted(k for k in set(a) | set(b) if a.get(k) != b.get(k))


def connect_pure(copts, sopts, labels):
    """sc.connect, plus: the settings objects handed to the handshake calls
    (which validate them once more, into copies that share their lists) are
    what they were before. Returns (pair, violation or None)."""
    before = {"client": snapshot(copts["settings"]),
              "server": snapshot(sopts["settings"])}
    p = sc.connect(copts, sopts)
    for who, o in (("client", copts), ("server", sopts)):
        d = diff(before[who], snapshot(o["settings"]))
        if d:
            return p, bad("handshake-modifies-settings:%s:%s" % (
                who, ",".join(d)),
                "%s: %r -> %r" % (d[0], before[who].get(d[0]),
                                  vars(o["settings"]).get(d[0])),
                labels=labels)
    return p, None


BAD_VALUES = {
    "minKeySize": [511, 16385, 0, -1],
    "maxKeySize": [511, 16385, 100000],
    "cipherNames": [["aes512"], ["aes128", "des"], []],
    "macNames": [["sha512"], ["md4"]],
    "keyExchangeNames": [["ecdh_rsa"], ["psk"]],
    "cipherImplementations": [["openssh"], []],
    "certificateTypes": [["openpgp"], []],
    "minVersion": [(2, 0), (3, 5), (4, 0)],
    "maxVersion": [(3, 5), (2, 0)],
    "rsaSigHashes": [["sha3"], ["sha1", "md4"]],
    "ecdsaSigHashes": [["md5"], ["sha3_256"]],
    "dsaSigHashes": [["md5"]],
    "rsaSchemes": [["oaep"]],
    "more_sig_schemes": [["Ed25518"], ["rsa"]],
    "eccCurves": [["secp256r2"], ["x25519", "curve448"]],
    "dhGroups": [["ffdhe1024"], ["modp2048"]],
    "defaultCurve": ["secp256r2", "P-256"],
    "keyShares": [["secp256k1x"], ["ffdhe1024"]],
    "useEncryptThenMAC": [2, "yes", None],
    "useExtendedMasterSecret": [2, None],
    "requireExtendedMasterSecret": [2, "no"],
    "usePaddingExtension": [3, None],
    "use_heartbeat_extension": [2, None],
    "record_size_limit": [63, 2 ** 14 + 2, 0, 2 ** 16],
    "ticketCipher": ["aes192gcm", "rc4"],
    "ticketKeys": [[bytearray(15)], [bytearray(32), bytearray(33)]],
    "ticketLifetime": [0, -1, 7 * 24 * 3600 + 1],
    "ticket_count": [-1, 2 ** 16],
    "max_early_data": [0, -5],
    "psk_modes": [["psk_only"], ["psk_dhe_ke", "x"]],
    "pskConfigs": [[(b"id",)], [(b"id", b"s", "sha512")],
                   [(b"a", b"b", "sha256", 1)]],
    "ec_point_formats": [[1], [0, 7]],
    "certificate_compression_send": [["gzip"], ["zlib", "lzma"]],
    "certificate_compression_receive": [["gzip"]],
    "dc_valid_time": [7 * 24 * 3600 + 1],
}


def _installation_dependent():
    """compression algorithms this installation cannot perform in one
    direction must be refused for that direction"""
    from tlslite.utils.compression import compression_algo_impls as impl
    for alg in ("brotli", "zstd"):
        if not impl.get(alg + "_compress"):
            BAD_VALUES["certificate_compression_send"].append([alg])
            BAD_VALUES["certificate_compression_send"].append(["zlib", alg])
        if not impl.get(alg + "_decompress"):
            BAD_VALUES["certificate_compression_receive"].append([alg])
            BAD_VALUES["certificate_compression_receive"].append(
                ["zlib", alg])


_installation_dependent()
COMBOS = [
    ({"minVersion": (3, 3), "maxVersion": (3, 1)}, "min>max version"),
    ({"minKeySize": 4096, "maxKeySize": 2048}, "min>max key size"),
    ({"useExtendedMasterSecret": False,
      "requireExtendedMasterSecret": True}, "require EMS without use"),
    ({"use_heartbeat_extension": False,
      "heartbeat_response_callback": len}, "callback without heartbeat"),
    ({"eccCurves": ["secp256r1"], "dhGroups": ["ffdhe2048"],
      "keyShares": ["x25519"]}, "key share for disabled group"),
    ({"rsaSigHashes": [], "ecdsaSigHashes": [], "dsaSigHashes": [],
      "more_sig_schemes": [], "maxVersion": (3, 3)}, "no signature algs"),
]


def check(case):
    k = case["k"]
    if k == "pure":
        return check_pure(case)
    if k == "domain":
        return check_domain(case)
    if k == "connect":
        return check_connect(case)
    raise HarnessError(k)


def nondefault(d):
    dflt = HandshakeSettings()
    n = 0
    for key, v in d.items():
        cur = getattr(dflt, key)
        if isinstance(cur, tuple):
            cur = list(cur)
        if isinstance(v, tuple):
            v = list(v)
        if cur != v:
            n += 1
    return n


def check_pure(case):
    s = lattice.to_settings(case["s"])
    for key, v in (case.get("extra") or {}).items():
        setattr(s, key, v)
    labels = ["pure"]
    before = snapshot(s)
    try:
        out = s.validate()
    except ValueError as e:
        after = snapshot(s)
        d = diff(before, after)
        if d:
            return bad("validate-modifies-receiver-on-error:" + ",".join(d),
                       "fields %r changed although validate() raised %r" % (
                           d, e), labels=labels)
        return good(nt=False, labels=labels + ["rejected"])
    after = snapshot(s)
    d = diff(before, after)
    nt = nondefault(case["s"]) >= 2
    if d:
        return bad("validate-modifies-receiver:" + ",".join(d),
                   "fields changed: %r: %r -> %r" % (
                       d, [before[x] for x in d], [after[x] for x in d]),
                   nt=nt, labels=labels)
    # idempotence
    s1 = snapshot(out)
    try:
        out2 = out.validate()
    except ValueError as e:
        return bad("validate-rejects-own-output", repr(e), nt=nt,
                   labels=labels)
    s1b = snapshot(out)
    if diff(s1, s1b):
        return bad("validate-modifies-own-output:" + ",".join(
            diff(s1, s1b)), "", nt=nt, labels=labels)
    s2 = snapshot(out2)
    d = diff(s1, s2)
    if d:
        return bad("not-idempotent:" + ",".join(d),
                   "%r vs %r" % ([s1[x] for x in d], [s2.get(x) for x in d]),
                   nt=nt, labels=labels)
    # only available back-ends / algorithms
    impls = set(out.cipherImplementations)
    avail = {"python"}
    if cryptomath.m2cryptoLoaded:
        avail.add("openssl")
    if cryptomath.pycryptoLoaded:
        avail.add("pycrypto")
    if not impls <= avail:
        return bad("unavailable-implementation",
                   "%r not subset of %r" % (impls, avail), nt=nt,
                   labels=labels)
    if "3des" in out.cipherNames and not cipherfactory.tripleDESPresent:
        return bad("unavailable-cipher:3des", "", nt=nt, labels=labels)
    if tuple(out.maxVersion) < (3, 3) and (set(out.macNames) -
                                           {"sha", "md5"}):
        return bad("mac-unusable-for-version",
                   "macNames %r with maxVersion %r" % (out.macNames,
                                                       out.maxVersion),
                   nt=nt, labels=labels)
    for v in out.versions:
        if tuple(v) > tuple(out.maxVersion):
            return bad("versions-exceed-max", repr(out.versions), nt=nt,
                       labels=labels)
    return good(nt=nt, labels=labels)


def check_domain(case):
    s = lattice.to_settings(case["s"])
    labels = ["domain", "field=" + case["field"]]
    if case["field"] == "combo":
        vals, what = COMBOS[case["idx"] % len(COMBOS)]
        for key, v in vals.items():
            setattr(s, key, copy.deepcopy(v))
        what = "combo:" + what
    else:
        vals = BAD_VALUES[case["field"]]
        v = vals[case["idx"] % len(vals)]
        setattr(s, case["field"], copy.deepcopy(v))
        what = "%s=%r" % (case["field"], v)
        # some fields interact: keep the rest consistent with the bad one
        if case["field"] == "maxVersion" and tuple(v) < tuple(s.minVersion):
            s.minVersion = (3, 0)
    before = snapshot(s)
    try:
        s.validate()
    except ValueError:
        after = snapshot(s)
        d = diff(before, after)
        if d:
            return bad("validate-modifies-receiver-on-error:" + ",".join(d),
                       what, labels=labels)
        return good(labels=labels)
    except Exception as e:      # noqa
        return bad("domain-error-type:%s:%s" % (case["field"],
                                                type(e).__name__),
                   "%s raised %r instead of ValueError" % (what, e),
                   labels=labels)
    return bad("out-of-domain-accepted:" + (
        case["field"] if case["field"] != "combo" else what),
        "%s accepted by validate()" % what, labels=labels)


# ---------------------------------------------------------------------------
def witness(case):
    """True if the under-approximating model proves compatibility."""
    c, s = case["c"], case["s"]
    cred = case["cred"]
    lo = max(tuple(c["minVersion"]), tuple(s["minVersion"]))
    hi = min(tuple(c["maxVersion"]), tuple(s["maxVersion"]))
    if lo > hi:
        return None
    v = hi
    if v == (3, 0):
        return None         # SSLv3 has too many unstated interactions
    if c["requireExtendedMasterSecret"] and not s["useExtendedMasterSecret"]:
        return None
    if s["requireExtendedMasterSecret"] and not c["useExtendedMasterSecret"]:
        return None
    alg, size = lattice.CRED_INFO[cred]
    if alg == "rsa":
        if not (c["minKeySize"] <= size <= c["maxKeySize"]):
            return None
        kxs = ["rsa", "dhe_rsa", "ecdhe_rsa"]
    elif alg == "ecdsa":
        if size != "secp256r1":
            return None
        kxs = ["ecdhe_ecdsa"]
    else:
        return None
    curves13 = [x for x in c["eccCurves"] if x in s["eccCurves"] and
                x in lattice.CURVES13]
    curves = [x for x in c["eccCurves"] if x in s["eccCurves"]]
    ff = [x for x in c["dhGroups"] if x in s["dhGroups"]]
    if v == (3, 4):
        if not curves13:
            return None     # (FFDHE-only TLS 1.3 left unspecified)
        if alg == "rsa":
            if "pss" not in c["rsaSchemes"] or "pss" not in s["rsaSchemes"]:
                return None
            if not [h for h in ("sha256", "sha384", "sha512")
                    if h in c["rsaSigHashes"] and h in s["rsaSigHashes"]]:
                return None
        else:
            if "sha256" not in c["ecdsaSigHashes"] or \
                    "sha256" not in s["ecdsaSigHashes"]:
                return None
        for sid, su in iana.SUITES.items():
            if su.tls13 and su.cipher_setting in c["cipherNames"] and \
                    su.cipher_setting in s["cipherNames"] and \
                    "aead" in c["macNames"] and "aead" in s["macNames"]:
                return (v, sid)
        return None
    # TLS 1.0 - 1.2
    if alg == "ecdsa" and "secp256r1" not in c["eccCurves"]:
        return None
    sig_ok = True
    # (below TLS 1.2 the signature format is fixed, but the implementation
    # still intersects the lists when the client sends the extension; the
    # premise 'shared signature scheme' is evaluated the same way to stay an
    # under-approximation)
    if v <= (3, 3):
        if alg == "rsa":
            common = [h for h in c["rsaSigHashes"]
                      if h in s["rsaSigHashes"]]
            sig_ok = bool(common) and (
                ("pkcs1" in c["rsaSchemes"] and "pkcs1" in s["rsaSchemes"])
                or ("pss" in c["rsaSchemes"] and "pss" in s["rsaSchemes"]
                    and [h for h in common if h != "sha1" and
                         h != "sha224"]))
        else:
            sig_ok = bool([h for h in c["ecdsaSigHashes"]
                           if h in s["ecdsaSigHashes"]])
    for sid, su in sorted(iana.SUITES.items()):
        if su.tls13 or su.draft or su.defined_in(v) is not True:
            continue
        if su.kx_setting not in kxs:
            continue
        if su.cipher_setting not in c["cipherNames"] or \
                su.cipher_setting not in s["cipherNames"]:
            continue
        if su.mac_setting not in c["macNames"] or \
                su.mac_setting not in s["macNames"]:
            continue
        if su.kx_setting not in c["keyExchangeNames"] or \
                su.kx_setting not in s["keyExchangeNames"]:
            continue
        if not sig_ok:
            continue    # premise: a shared signature scheme (also for RSA kx)
        if su.kx == "ecdhe" and not curves:
            continue
        if su.kx == "dhe" and not ff:
            continue
        if su.kx == "dhe" and not all(
                c["minKeySize"] <= int(g[5:]) <= c["maxKeySize"]
                for g in c["dhGroups"]):
            continue    # client advertises groups outside its own window
        # the server must not be lured into a stronger-looking dead end:
        # require that *every* kx family it might prefer is also viable
        return (v, sid)
    return None


def all_viable(case, v):
    """Stricter: every certificate kx both sides enable is viable, so the
    server's own preference cannot pick a dead end the model missed."""
    c, s = case["c"], case["s"]
    curves = [x for x in c["eccCurves"] if x in s["eccCurves"]]
    ff = [x for x in c["dhGroups"] if x in s["dhGroups"]]
    ff_ok = all(c["minKeySize"] <= int(g[5:]) <= c["maxKeySize"]
                for g in c["dhGroups"])
    return bool(curves) and bool(ff) and ff_ok


def check_connect(case):
    labels = ["connect"]
    w = witness(case)
    if w is None or not all_viable(case, w[0]):
        return good(nt=False, labels=labels + ["unspecified"])
    copts, sopts = lattice.build_opts(case)
    try:
        copts["settings"] = copts["settings"].validate()
        sopts["settings"] = sopts["settings"].validate()
    except ValueError:
        return good(nt=False, labels=labels + ["invalid-settings"])
    DET.reseed("C19", case.get("salt", 0))
    p, r = connect_pure(copts, sopts, labels)
    if r:
        return r
    labels.append("ver=" + sc.VERNAME[w[0]])
    nt = case["c"] != case["s"]
    if not p.both_ok:
        return bad("compatible-settings-fail:%s:%s" % (
            sc.VERNAME[w[0]], lattice.CRED_INFO[case["cred"]][0]),
            "model witness: version %r suite %04x; client %r server %r" % (
                w[0], w[1], p.co, p.so), nt=nt, labels=labels)
    return good(nt=nt, labels=labels)


# ---------------------------------------------------------------------------
@st.composite
def cases(draw, tier):
    k = draw(st.sampled_from(["pure", "pure", "domain", "connect",
                              "connect"]))
    if k == "pure":
        c = {"k": k, "s": draw(lattice.one_side(draw(st.sampled_from(
            ["client", "server"]))))}
        extra = {}
        if draw(st.booleans()):
            extra["cipherImplementations"] = draw(lattice.subset(
                ["openssl", "pycrypto", "python"]))
        if draw(st.booleans()):
            extra["ticketKeys"] = [bytearray(32)]
            extra["ticket_count"] = draw(st.integers(0, 3))
        if draw(st.booleans()):
            extra["certificate_compression_send"] = draw(st.sampled_from(
                [[], ["zlib"]]))
            extra["certificate_compression_receive"] = draw(
                st.sampled_from([[], ["zlib"]]))
        c["extra"] = extra
        return c
    if k == "domain":
        field = draw(st.sampled_from(sorted(BAD_VALUES) + ["combo"] * 4))
        return {"k": k, "s": draw(lattice.one_side("client")),
                "field": field, "idx": draw(st.integers(0, 7))}
    if draw(st.integers(0, 4)) == 0:
        pc = draw(lattice.pair(flavours=("psk",)))
        pc["k"] = "connect_psk"
        pc["cred"] = "rsa"
        k = pc["psk"]
        k["same_secret"] = k["same_id"] = True
        if draw(st.booleans()):
            k["c_hash"] = draw(st.sampled_from(
                [k["hash"], None if k["hash"] in (None, "sha256")
                 else k["hash"], "sha256" if k["hash"] is None
                 else k["hash"]]))
        k["no_cert"] = draw(st.booleans())
        k["c_extra_first"] = draw(st.sampled_from([None, "sha256",
                                                   "sha384"]))
        k["s_extra_first"] = draw(st.sampled_from([None, None, "sha256",
                                                   "sha384"]))
        for key in ("c_npn", "s_npn", "c_alpn", "s_alpn"):
            pc[key] = None
        return pc
    pc = draw(lattice.pair(flavours=("cert",)))
    pc["k"] = "connect"
    pc["cred"] = draw(st.sampled_from(["rsa", "rsa", "ecdsa", "rsa3072"]))
    pc["ccred"] = None
    pc["reqCert"] = False
    pc["c_npn"] = pc["s_npn"] = None
    pc["c_alpn"] = pc["s_alpn"] = None
    return pc


def strategy(tier):
    return cases(tier)


def budget(tier):
    return 5000 if tier == "quick" else 110000


def explicit(tier, seed):
    base = {"minVersion": [3, 1], "maxVersion": [3, 4]}
    dflt = HandshakeSettings()
    d = {}
    for key in ("cipherNames", "macNames", "keyExchangeNames", "eccCurves",
                "dhGroups", "keyShares", "rsaSigHashes", "ecdsaSigHashes",
                "dsaSigHashes", "rsaSchemes", "more_sig_schemes",
                "minKeySize", "maxKeySize", "useEncryptThenMAC",
                "useExtendedMasterSecret", "requireExtendedMasterSecret",
                "record_size_limit", "defaultCurve"):
        d[key] = copy.deepcopy(getattr(dflt, key))
    d.update(base)
    yield {"k": "pure", "s": d, "extra": {}}
    yield {"k": "pure", "s": d, "extra": {
        "cipherImplementations": ["openssl", "pycrypto", "python"]}}
    for field in sorted(BAD_VALUES):
        for i in range(len(BAD_VALUES[field])):
            yield {"k": "domain", "s": d, "field": field, "idx": i}
    for i in range(len(COMBOS)):
        yield {"k": "domain", "s": d, "field": "combo", "idx": i}
    for v in ((3, 4), (3, 3), (3, 1)):
        for field in sorted(ORTHO):
            for idx in range(len(ORTHO[field])):
                for who in "csb":
                    for auth in (False, True):
                        yield {"k": "ortho", "ver": list(v), "field": field,
                               "idx": idx, "who": who, "auth": auth,
                               "tickets": idx % 2 == 1}
    # external PSK in each configuration form, widest and default-ish
    # policies, with and without a certificate to fall back to
    for hs, hc in ((None, None), (None, "sha256"), ("sha256", None),
                   ("sha256", "sha256"), ("sha384", "sha384")):
        for no_cert in (True, False):
            for modes in (["psk_dhe_ke"], ["psk_ke"],
                          ["psk_dhe_ke", "psk_ke"]):
                for side in (d, lattice.full_side("client")):
                    for extra in (None, "sha256", "sha384"):
                        yield {"k": "connect_psk", "flavour": "psk",
                               "c": copy.deepcopy(side),
                               "s": copy.deepcopy(side), "cred": "rsa",
                               "psk": {"hash": hs, "c_hash": hc,
                                       "same_secret": True, "same_id": True,
                                       "c_modes": modes, "s_modes": modes,
                                       "no_cert": no_cert,
                                       "c_extra_first": extra,
                                       "s_extra_first": extra and
                                       ("sha384" if extra == "sha256"
                                        else "sha256")}}
    # every suite the library lists, pinned settings on both sides with the
    # matching credential: the two sides obviously share it
    from props.c01 import negotiable
    for sid in negotiable():
        su = iana.SUITES[sid]
        for v in ((3, 1), (3, 3), (3, 4)):
            if su.defined_in(v) is not True:
                continue
            yield {"k": "pinned", "suite": sid, "ver": list(v)}


_orig_check = check


ORTHO = {
    # settings that restrict nothing the other side must share: any value
    # validate() accepts must still connect
    "certificate_compression_send": [None, [], ["zlib"]],
    "certificate_compression_receive": [None, [], ["zlib"]],
    "psk_modes": [None, [], ["psk_dhe_ke"], ["psk_ke"],
                  ["psk_ke", "psk_dhe_ke"]],
    "ticket_count": [None, 0, 1, 3],
    "usePaddingExtension": [None, False],
    "use_heartbeat_extension": [None, False],
    "heartbeat_response_callback": [None],
    "record_size_limit": [None, 64, 2 ** 14],
    "max_early_data": [None, 1],
    "sendFallbackSCSV": [None, False],
    "useExperimentalTackExtension": [None, True],
    "ec_point_formats": [None, [0]],
    # (shares other than the peer's first choice: HelloRetryRequest)
    "keyShares": [None, [], ["x25519"], ["secp521r1"], ["ffdhe2048"],
                  ["x448", "secp384r1"], ["ffdhe4096"], ["ffdhe6144"],
                  ["ffdhe8192"], ["secp384r1"], ["x448"], ["ffdhe3072"]],
    "dhGroups": [None, ["ffdhe8192"], ["ffdhe6144", "ffdhe4096"]],
    "eccCurves": [None, ["secp521r1"], ["x448"], ["brainpoolP256r1",
                                                  "secp384r1"]],
    "useExtendedMasterSecret": [None, False],
    "useEncryptThenMAC": [None, False],
}


def check_ortho(case):
    v = tuple(case["ver"])
    labels = ["ortho", "ver=" + sc.VERNAME[v], "field=" + case["field"],
              "who=" + case["who"]]
    kw = {"minVersion": v, "maxVersion": v}
    ckw, skw = dict(kw), dict(kw)
    val = ORTHO[case["field"]][case["idx"] % len(ORTHO[case["field"]])]
    if val is not None:
        if case["who"] in "cb":
            ckw[case["field"]] = copy.deepcopy(val)
        if case["who"] in "sb":
            skw[case["field"]] = copy.deepcopy(val)
    labels.append("val=%r" % (val,))
    try:
        cs = sc.mk_settings(**ckw).validate()
        ss = sc.mk_settings(**skw).validate()
    except ValueError:
        return good(nt=False, labels=labels + ["validate-refuses"])
    client, server = {"settings": cs}, {"settings": ss, "cred": "rsa"}
    if case.get("auth"):
        server["reqCert"] = True
        # (every client key type in turn; EdDSA exists from TLS 1.2 on)
        client["cred"] = ["c_rsa", "c_ecdsa", "c_ed25519" if v >= (3, 3)
                          else "c_rsa"][case["idx"] % 3]
        labels.append("ccred=" + client["cred"])
    if case.get("tickets"):
        ss.ticketKeys = [bytearray(b"o" * 32)]
    DET.reseed("C19o", v, case["field"], case["idx"], case["who"])
    p, r = connect_pure(client, server, labels)
    if r:
        return r
    ok = p.both_ok
    if ok and case.get("auth") and v == (3, 4) and not case.get("no_pha"):
        # post-handshake authentication uses the same settings
        from vlib.driver import drive
        outs, _ = drive({"s": p.s.request_post_handshake_auth(ss)}, p.link,
                        on_stall="leave")
        oc = sc.do_read(p, "c", 10, 0)
        os_ = sc.do_read(p, "s", 10, 0)
        if oc.state == "exc" or os_.state == "exc":
            return bad("compatible-settings-fail:pha:%s" % case["field"],
                       "%s=%r on %s: post-handshake authentication: client "
                       "%r server %r" % (case["field"], val, case["who"], oc,
                                         os_), labels=labels)
    if ok:
        sc.do_write(p, "s", b"x" * 100)
        d, last = sc.read_all(p, "c")
        ok = d == b"x" * 100
    if not ok:
        return bad("compatible-settings-fail:%s:%s" % (
            sc.VERNAME[v], case["field"]),
            "%s=%r on %s (everything else default, %s): client %r server %r"
            % (case["field"], val, case["who"],
               "client auth" if case.get("auth") else "no client auth",
               p.co, p.so), labels=labels)
    if case.get("tickets"):
        # the same two settings objects once more, the client offering what
        # the first connection left it with: resumed or not, it connects
        sc.do_close(p, "c")
        sc.do_close(p, "s")
        client["session"] = p.c.session
        q = sc.connect(client, server)
        labels.append("second:" + ("resumed" if q.both_ok and q.c.resumed
                                   else "full" if q.both_ok else "failed"))
        if not q.both_ok:
            return bad("compatible-settings-fail:second-connection:%s:%s" % (
                sc.VERNAME[v], case["field"]),
                "%s=%r on %s: first connection fine, second (session "
                "offered, same settings): client %r server %r" % (
                    case["field"], val, case["who"], q.co, q.so),
                labels=labels)
    return good(labels=labels)


def check_connect_psk(case):
    """Both sides hold the same external PSK (identity, secret, hash - the
    two-element form means SHA-256), share a TLS 1.3 suite with that PRF, a
    PSK mode and a group: the handshake succeeds, with or without a
    certificate on the server."""
    labels = ["connect-psk"]
    k = case["psk"]
    c, s = case["c"], case["s"]
    w = witness(dict(case, cred="rsa"))
    h_s, h_c = k["hash"] or "sha256", k["c_hash"] or "sha256"
    ok = w is not None and w[0] == (3, 4) and all_viable(case, w[0]) and \
        h_s == h_c and k["same_secret"] and k["same_id"] and \
        [m for m in k["c_modes"] if m in k["s_modes"]]
    if ok:
        ok = [su for su in iana.SUITES.values() if su.tls13 and
              su.prf == h_s and su.cipher_setting in c["cipherNames"] and
              su.cipher_setting in s["cipherNames"]]
    if not ok:
        return good(nt=False, labels=labels + ["unspecified"])
    copts, sopts = lattice.build_opts(case)
    try:
        copts["settings"] = copts["settings"].validate()
        sopts["settings"] = sopts["settings"].validate()
    except ValueError:
        return good(nt=False, labels=labels + ["invalid-settings"])
    DET.reseed("C19", case.get("salt", 0))
    p, r = connect_pure(copts, sopts, labels)
    if r:
        return r
    form = "%s/%s" % ("2-tuple" if k["hash"] is None else "3-tuple",
                      "2-tuple" if k["c_hash"] is None else "3-tuple")
    labels += ["psk-form=" + form,
               "no-cert" if k.get("no_cert") else "with-cert"]
    if not p.both_ok:
        return bad("compatible-settings-fail:psk:%s" % (
            "no-cert" if k.get("no_cert") else "with-cert"),
            "shared external PSK (%s, %s), suite, mode and group: client %r "
            "server %r" % (form, h_s, p.co, p.so), labels=labels)
    return good(labels=labels)


def check(case):    # noqa - extend dispatch with the pinned kind
    if case["k"] == "ortho":
        return check_ortho(case)
    if case["k"] == "connect_psk":
        return check_connect_psk(case)
    if case["k"] == "pinned":
        su = iana.SUITES[case["suite"]]
        v = tuple(case["ver"])
        DET.reseed("C19p", su.id, v)
        copts, sopts = sc.pin(su, v)
        copts["settings"] = copts["settings"].validate()
        sopts["settings"] = sopts["settings"].validate()
        p = sc.connect(copts, sopts)
        labels = ["pinned", "ver=" + sc.VERNAME[v]]
        if not p.both_ok:
            return bad("compatible-settings-fail:%04x" % su.id,
                       "both sides configured for exactly %s in %s with a "
                       "matching credential: client %r server %r" % (
                           su.name, sc.VERNAME[v], p.co, p.so),
                       labels=labels)
        return good(labels=labels)
    return _orig_check(case)
