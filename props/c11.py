"""C11 - RSA key transport gives an attacker no padding oracle."""
import hashlib

from hypothesis import strategies as st

from vlib.runner import good, bad, HarnessError, BaselineBroken
from vlib.det import DET
from vlib import scenario as sc
from vlib.refs import rsa as rrsa
from vlib.deviant import Deviant
from vlib.driver import describe_exc
from vlib.wire import records

from tlslite.constants import ContentType
from tlslite.api import parsePEMKey

ID = "C11"
LEVEL = "exploration"
RULE = ("(function level) ciphertexts are built by applying the public "
        "operation to a *chosen* encoded message: valid ones (message "
        "lengths 0..k-11, incl. 48) and every defect class - first byte != "
        "0, second != 2, zero inside the first eight padding bytes at each "
        "position, no separator at all, separator at every boundary "
        "position, EM in {0, 1, n-1}, random EM - plus publicly invalid "
        "inputs (length k+-1, value >= n); RSAKey.decrypt must equal the "
        "reference implicit-rejection function of (key, ciphertext), be "
        "None only for publicly invalid input, and be deterministic across "
        "repeated calls and fresh key objects. (wire level) in an RSA "
        "key-exchange handshake (SSLv3..TLS 1.2) a deviant client replaces "
        "the encrypted premaster by each class; everything the server does "
        "afterwards (records emitted, alert, exception, point of failure) "
        "must equal the control 'well-formed encryption of another random "
        "premaster'; (pmsver) an honest client whose premaster carries each "
        "of {offered, negotiated, foreign} version bytes at length 48 and "
        "at wrong lengths (47, 49; thorough 2..117): only the offered / "
        "negotiated version at length 48 may complete, everything else "
        "ends at Finished with bad_record_mac. non-trivial = ciphertext decrypting to a malformed EM; "
        "distinct = (key, class, position, seed)")
ASSUMPTIONS = [
    "functional equivalence only - no timing side channel is measured",
    "the reference follows the implicit-rejection construction the "
    "docstring of RSAKey.decrypt describes",
]
KEYS = ["rsa1024", "rsa", "rsa3072"]
CLASSES = ["valid", "valid48", "first_byte", "second_byte", "zero_in_ps",
           "no_separator", "sep_pos", "em_zero", "em_one", "em_nminus1",
           "random_em", "len_plus", "len_minus", "ge_n", "wrong_version",
           "len47", "len49", "empty", "one_byte"]
_keys = {}


def init(tier, seed):
    DET.install()


def key(name):
    if name not in _keys:
        if name.startswith("gen"):
            # a key made by generateRSAKey() (built empty, numbers assigned
            # afterwards) and one built through the constructor from numbers
            from tlslite.utils.keyfactory import generateRSAKey
            from tlslite.utils.python_rsakey import Python_RSAKey
            prev = DET.current
            DET.current = "keygen"
            DET.reseed("C11-keygen")
            try:
                g = generateRSAKey(1024, ["python"])
            finally:
                DET.current = prev
            if name == "gen_ctor":
                g = Python_RSAKey(g.n, g.e, g.d, g.p, g.q, g.dP, g.dQ,
                                  g.qInv)
            _keys[name] = g
        else:
            chain, k = sc.cred(name)
            _keys[name] = k
    return _keys[name]


def prg(tag, n):
    out = bytearray()
    i = 0
    while len(out) < n:
        out += hashlib.sha256(("%s|%d" % (tag, i)).encode()).digest()
        i += 1
    return bytes(out[:n])


def nonzero(tag, n):
    return bytes((b % 255) + 1 for b in prg(tag, n))


def build_ct(k_obj, cls, pos, seed, client_version=(3, 3)):
    """Returns (ciphertext bytes, publicly_invalid, malformed_em)."""
    n, e = k_obj.n, k_obj.e
    k = (n.bit_length() + 7) // 8
    tag = "%s/%d/%d" % (cls, pos, seed)

    def em_valid(msg):
        ps = nonzero("ps" + tag, k - 3 - len(msg))
        return b"\x00\x02" + ps + b"\x00" + msg
    pms48 = bytes(client_version) + prg("pms" + tag, 46)
    if cls == "valid":
        mlen = pos % (k - 10)
        em = em_valid(prg("m" + tag, mlen))
        return rrsa.encrypt_em(n, e, em), False, False
    if cls == "valid48":
        return rrsa.encrypt_em(n, e, em_valid(pms48)), False, False
    if cls == "wrong_version":
        bad_ver = bytes([(client_version[0] + 1 + pos) % 256,
                         (client_version[1] + pos) % 256])
        return rrsa.encrypt_em(n, e, em_valid(bad_ver + pms48[2:])), \
            False, False
    if cls == "empty":
        return b"", True, False
    if cls == "one_byte":
        return b"\x01", True, False
    if cls == "len47":
        return rrsa.encrypt_em(n, e, em_valid(pms48[:47])), False, False
    if cls == "len49":
        return rrsa.encrypt_em(n, e, em_valid(pms48 + b"x")), False, False
    em = bytearray(em_valid(pms48))
    if cls == "first_byte":
        em[0] = 1 + pos % 3
    elif cls == "second_byte":
        em[1] = [0, 1, 3, 0xff][pos % 4]
    elif cls == "zero_in_ps":
        em[2 + pos % 8] = 0
    elif cls == "no_separator":
        em = bytearray(b"\x00\x02" + nonzero("ns" + tag, k - 2))
    elif cls == "sep_pos":
        # separator at an arbitrary position (2..k-1), nothing else zero
        p = 2 + pos % (k - 2)
        em = bytearray(b"\x00\x02" + nonzero("sp" + tag, k - 2))
        em[p] = 0
        ok = p >= 10
        ct = rrsa.encrypt_em(n, e, bytes(em))
        return ct, False, not ok
    elif cls == "em_zero":
        em = bytearray(k)
    elif cls == "em_one":
        em = bytearray(k)
        em[-1] = 1
    elif cls == "em_nminus1":
        em = bytearray((n - 1).to_bytes(k, "big"))
    elif cls == "random_em":
        em = bytearray(prg("re" + tag, k))
        em[0] = 0
    elif cls == "len_plus":
        ct = rrsa.encrypt_em(n, e, em_valid(pms48))
        return ct + b"\x00", True, False
    elif cls == "len_minus":
        ct = rrsa.encrypt_em(n, e, em_valid(pms48))
        return ct[1:], True, False
    elif cls == "ge_n":
        return (n + pos % 3).to_bytes(k, "big") if (n + pos % 3).bit_length(
            ) <= 8 * k else n.to_bytes(k, "big"), True, False
    else:
        raise HarnessError(cls)
    ct = rrsa.encrypt_em(n, e, bytes(em))
    if ct is None:
        return None, False, False
    return ct, False, True


def check(case):
    if case["k"] in ("wire", "pmsver"):
        return check_wire(case)
    kname, cls = case["key"], case["cls"]
    k_obj = key(kname)
    labels = ["fn", "key=" + kname, "cls=" + cls]
    r = build_ct(k_obj, cls, case["pos"], case["seed"])
    if r[0] is None:
        return good(nt=False, labels=labels + ["em>=n"])
    ct, pub_invalid, malformed = r
    want = rrsa.decrypt_implicit_rejection(k_obj.n, k_obj.d, ct)
    got = k_obj.decrypt(bytearray(ct))
    nt = malformed
    if pub_invalid:
        if want is not None:
            raise HarnessError("reference accepts publicly invalid input")
        if got is not None:
            return bad("publicly-invalid-accepted:" + cls,
                       "decrypt returned %d bytes" % len(got), labels=labels)
        return good(nt=True, labels=labels)
    if got is None:
        return bad("failure-for-valid-length-ciphertext:" + cls,
                   "decrypt returned None for a ciphertext of the right "
                   "length below the modulus", nt=nt, labels=labels)
    if bytes(got) != want:
        return bad("differs-from-implicit-rejection:" + cls,
                   "got %d bytes, reference %d bytes" % (len(got),
                                                         len(want)),
                   nt=nt, labels=labels)
    # determinism: repeat, after other operations, on a fresh key object
    k_obj.decrypt(bytearray(rrsa.encrypt_em(
        k_obj.n, k_obj.e, b"\x00\x02" + nonzero("x", (k_obj.n.bit_length()
                                                      + 7) // 8 - 4) +
        b"\x00" + b"z")))
    again = k_obj.decrypt(bytearray(ct))
    if bytes(again) != want:
        return bad("not-deterministic:repeat:" + cls, "", nt=nt,
                   labels=labels)
    if case.get("fresh") and not kname.startswith("gen"):
        with open(sc.key_pem(kname)) as f:
            k2 = parsePEMKey(f.read(), private=True,
                             implementations=["python"])
        if bytes(k2.decrypt(bytearray(ct))) != want:
            return bad("not-deterministic:fresh-key:" + cls, "", nt=nt,
                       labels=labels)
    labels.append("len=%s" % ("48" if len(want) == 48 else "other"))
    return good(nt=nt, labels=labels)


# ---------------------------------------------------------------------------
def observe(ver, cls, pos, seed, cred_name):
    """Run an RSA-kx handshake with the CKE payload replaced; returns the
    server's observable behaviour."""
    v = sc.VER[ver]
    k_obj = key(cred_name)
    st_ = sc.mk_settings(minVersion=v, maxVersion=v, keyExchangeNames=["rsa"],
                         cipherNames=["aes128"], macNames=["sha"])
    state = {}

    def fn(dev, idx, ct, data):
        if data[0] != 16 or state.get("done"):
            return None
        state["done"] = True
        r = build_ct(k_obj, cls, pos, seed, client_version=v)
        if r[0] is None:
            state["skip"] = True
            return None
        c = r[0]
        state["malformed"] = r[2]
        if v == (3, 0):
            body = c
        else:
            body = len(c).to_bytes(2, "big") + c
        state["sent"] = True
        return [(ContentType.handshake,
                 b"\x10" + len(body).to_bytes(3, "big") + body)]

    def prepare(cc, scn):
        Deviant(cc, fn)
    DET.reseed("C11", ver, cred_name)       # same randomness for all classes
    p = sc.connect({"settings": st_}, {"cred": cred_name, "settings": st_},
                   prepare=prepare)
    if state.get("skip") or not state.get("sent"):
        return None, state
    swire = p.link.wire("s")
    recs, _ = records(swire)
    # records the server emitted after its ServerHelloDone flight
    tail = []
    seen_shd = False
    for r in recs:
        if seen_shd:
            tail.append((r["type"], r["len"], r["body"].hex()
                         if r["type"] == 21 else None))
        if r["type"] == 22 and r["body"][-4:] == b"\x0e\x00\x00\x00":
            seen_shd = True
    obs = {"server": describe_exc(p.so.exc) if p.so.exc else p.so.state,
           "tail": tail,
           "consumed": len(p.link.delivered("s")) - len(p.link.inp["s"].q),
           "closed": p.s.closed}
    return obs, state


def check_wire(case):
    if case["k"] == "pmsver":
        return check_pmsver(case)
    ver, cls = case["ver"], case["cls"]
    labels = ["wire", "ver=" + ver, "cls=" + cls]
    control, _ = observe(ver, "valid48", 0, case["seed"] + 1000, case["key"])
    if control is None:
        raise BaselineBroken("rsa-control-run", ver)
    obs, state = observe(ver, cls, case["pos"], case["seed"], case["key"])
    if obs is None:
        return good(nt=False, labels=labels + ["em>=n"])
    if control["server"] != "TLSLocalAlert(bad_record_mac)":
        return bad("control-not-bad-record-mac:" + ver, repr(control),
                   labels=labels)
    if cls in ("len_plus", "len_minus", "empty", "one_byte"):
        # the ciphertext length is public: so is the number of bytes read
        obs = dict(obs, consumed=control["consumed"])
    if obs != control:
        diffs = [k for k in obs if obs[k] != control[k]]
        return bad("server-behaviour-depends-on-malformation:%s:%s" % (
            cls, ",".join(diffs)),
            "class %s: %r  vs control %r" % (cls, obs, control),
            labels=labels)
    return good(nt=cls not in ("valid", "valid48"), labels=labels)


def check_pmsver(case):
    """The version bytes inside a *well-formed* premaster secret: only the
    version the client offered is acceptable (the negotiated one is
    tolerated for old clients: either); any other value must be treated
    exactly like a malformed ciphertext, i.e. the handshake dies at Finished
    with bad_record_mac although the client used the very premaster it
    encrypted."""
    import tlslite.keyexchange as kxm
    from tlslite.utils.cryptomath import getRandomBytes
    cmax, smax, pv = tuple(case["cmax"]), tuple(case["smax"]), \
        tuple(case["pv"])
    plen = case.get("plen", 48)
    labels = ["pmsver", "c=%s" % sc.VERNAME[cmax], "s=%s" % sc.VERNAME[smax],
              "pv=%d.%d" % pv, "plen=%s" % ("48" if plen == 48 else "other")]
    kw = dict(keyExchangeNames=["rsa"], cipherNames=["aes128"],
              macNames=["sha"])
    cst = sc.mk_settings(minVersion=(3, 0), maxVersion=cmax, **kw)
    sst = sc.mk_settings(minVersion=(3, 0), maxVersion=smax, **kw)
    orig = kxm.RSAKeyExchange.processServerKeyExchange

    def forged(self, srvPublicKey, serverKeyExchange):
        pm = getRandomBytes(plen)
        pm[0], pm[1] = pv
        self.encPremasterSecret = srvPublicKey.encrypt(pm)
        return pm
    DET.reseed("C11pv", cmax, smax, pv)
    kxm.RSAKeyExchange.processServerKeyExchange = forged
    try:
        p = sc.connect({"settings": cst}, {"cred": "rsa1024",
                                           "settings": sst})
    finally:
        kxm.RSAKeyExchange.processServerKeyExchange = orig
    neg = min(cmax, smax)
    srv = describe_exc(p.so.exc) if p.so.exc else p.so.state
    labels.append("server=" + srv)
    if plen != 48:
        # a well padded premaster of the wrong length is a malformation like
        # any other, whatever its first two bytes say (RFC 5246 7.4.7.1)
        if p.so.ok or p.co.ok:
            return bad("premaster-length-oracle:%d:version-%s" % (
                plen, "offered" if pv == cmax else "negotiated"
                if pv == neg else "other"),
                "a %d-byte premaster secret with version bytes %r was used: "
                "the handshake completed (offered %s, negotiated %s)" % (
                    plen, pv, sc.VERNAME[cmax], sc.VERNAME[neg]),
                labels=labels)
        if srv != "TLSLocalAlert(bad_record_mac)":
            return bad("server-behaviour-depends-on-malformation:pmslen",
                       "server ended with %s" % srv, labels=labels)
        return good(labels=labels)
    if pv == cmax:
        if not p.both_ok:
            return bad("correct-premaster-version-rejected:%s/%s" % (
                sc.VERNAME[cmax], sc.VERNAME[smax]), "%r %r" % (p.co, p.so),
                labels=labels)
        return good(nt=False, labels=labels)
    if pv == neg:
        return good(labels=labels + ["either"])
    if p.so.ok or p.co.ok:
        return bad("premaster-version-oracle:offered-%s:negotiated-%s" % (
            sc.VERNAME[cmax], sc.VERNAME[neg]),
            "premaster version %r (neither the offered nor the negotiated "
            "one) was accepted: the handshake completed" % (pv,),
            labels=labels)
    if srv != "TLSLocalAlert(bad_record_mac)":
        return bad("server-behaviour-depends-on-malformation:pmsver",
                   "server ended with %s" % srv, labels=labels)
    return good(labels=labels)


# ---------------------------------------------------------------------------
@st.composite
def cases(draw, tier):
    if draw(st.integers(0, 5)) == 0:
        return {"k": "wire",
                "ver": draw(st.sampled_from(["ssl3", "tls10", "tls11",
                                             "tls12"])),
                "cls": draw(st.sampled_from(
                    [c for c in CLASSES if c not in ("len_plus", "len_minus",
                                                     "ge_n")])),
                "pos": draw(st.integers(0, 400)),
                "seed": draw(st.integers(0, 50)),
                "key": draw(st.sampled_from(["rsa1024", "rsa"]))}
    return {"k": "fn", "key": draw(st.sampled_from(KEYS + ["rsa1024"] * 3)),
            "cls": draw(st.sampled_from(CLASSES)),
            "pos": draw(st.integers(0, 400)),
            "seed": draw(st.integers(0, 10 ** 6)),
            "fresh": draw(st.integers(0, 19)) == 0}


def strategy(tier):
    return cases(tier)


def budget(tier):
    return 2500 if tier == "quick" else 50000


def explicit(tier, seed):
    for kname in ((KEYS if tier == "thorough" else ["rsa1024", "rsa"]) +
                  ["gen", "gen_ctor"]):
        kb = {"rsa1024": 128, "rsa": 256, "rsa3072": 384, "gen": 128,
              "gen_ctor": 128}[kname]
        for cls in CLASSES:
            for pos in range(8 if cls in ("zero_in_ps", "first_byte",
                                          "second_byte", "ge_n") else 2):
                yield {"k": "fn", "key": kname, "cls": cls, "pos": pos,
                       "seed": seed, "fresh": pos == 0 and cls == "sep_pos"}
        # every separator position
        rng = range(0, kb - 2) if (tier == "thorough" or kname == "rsa1024")\
            else list(range(0, 16)) + list(range(kb - 12, kb - 2))
        for pos in rng:
            yield {"k": "fn", "key": kname, "cls": "sep_pos", "pos": pos,
                   "seed": seed}
    vs = [(3, 0), (3, 1), (3, 2), (3, 3)]
    for cmax in vs:
        for smax in vs + [(3, 4)]:
            for pv in vs + [(3, 4), (2, 0), (3, 255), (0, 0)]:
                yield {"k": "pmsver", "cmax": list(cmax),
                       "smax": list(smax), "pv": list(pv)}
            # wrong length with every version the server might compare with
            for pv in sorted({cmax, min(cmax, smax), (3, 4)}):
                for plen in (47, 49) + ((2, 46, 64, 117)
                                        if tier == "thorough" else ()):
                    yield {"k": "pmsver", "cmax": list(cmax),
                           "smax": list(smax), "pv": list(pv), "plen": plen}
    for ver in ("ssl3", "tls10", "tls11", "tls12"):
        for cls in CLASSES:
            if cls in ("len_plus", "len_minus", "ge_n") and \
                    tier != "thorough" and ver != "tls12":
                continue
            for pos in ((0, 7) if cls in ("zero_in_ps", "sep_pos",
                                          "wrong_version") else (0,)):
                yield {"k": "wire", "ver": ver, "cls": cls, "pos": pos,
                       "seed": seed, "key": "rsa1024"}
