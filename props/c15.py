"""C15 - every message and extension codec round-trips and enforces its
framing exactly.

Sources of well-formed encodings: (a) every handshake message real
endpoints emit in a catalogue of handshake flavours (harvested through a
harness-side send wrapper, so encrypted-phase messages are included),
(b) values built through create() from Hypothesis-drawn arguments.
Oracle: write(parse(b)) == b; every perturbed input (strict prefix, byte
appended inside/outside the outer length, +-1 at every offset of short
encodings) either raises a decode error or is itself well-formed, i.e.
re-encodes byte-identically."""
import hashlib
import os
import sys

from hypothesis import strategies as st

from vlib.runner import good, bad, HarnessError, BaselineBroken
from vlib.det import DET
from vlib import scenario as sc

from tlslite.utils.codec import Parser, DecodeError, BadCertificateError
from tlslite import messages as M
from tlslite import extensions as E
from tlslite.constants import (CertificateType, HandshakeType, ContentType,
                               ExtensionType)
from tlslite.errors import TLSIllegalParameterException, TLSDecodeError

ID = "C15"
LEVEL = "exploration"
RULE = ("case = (well-formed encoding, perturbation); encodings come from a "
        "deterministic corpus of all handshake messages sent in 16 handshake "
        "flavours (SSLv3..TLS 1.3, RSA/DHE/ECDHE/SRP/anon, client auth, "
        "tickets, HRR, PSK resumption, ALPN/NPN, compressed certificate) and "
        "from create() with drawn arguments for 18 message classes and 24 "
        "extension classes (list sizes biased to 0, 1, 255, 256), plus the "
        "non-handshake codecs (RecordHeader3/2, Alert, ChangeCipherSpec, "
        "Heartbeat, SessionTicketPayload v0/v1/v2, SSLv2 ClientHello / "
        "ServerHello / ClientMasterKey / Finished) with value-level "
        "equality of the parsed fields; the codec layer itself (sequences "
        "of Parser calls on drawn buffers against a reference reader, "
        "Writer.add against int.to_bytes, every truncation of every list "
        "shape); re-used objects (parse then create*/parse again must "
        "write like a fresh object); delegated credentials; known-answer "
        "encodings of empty vectors; "
        "perturbations: none, every strict prefix, byte appended inside / "
        "outside the outer length, +-1 on every field that looks like a "
        "length prefix, +-1 at every byte offset (blind sweep for "
        "encodings <= 300 bytes, sampled above), oversize fields for "
        "write(); non-trivial = encoding with at least one non-empty "
        "variable-length field (length >= 8 bytes) and a perturbation that "
        "changes a parsed byte; distinct = hash(encoding, perturbation)")
ASSUMPTIONS = [
    "accept = decode error (SyntaxError family / TLSIllegalParameter"
    "Exception / TLSDecodeError) or byte-identical re-encoding; anything "
    "else (other exception types, lenient acceptance) is a violation",
    "record-layer framing of these messages is C14/C08's domain",
]
DECODE_ERRORS = (SyntaxError, TLSIllegalParameterException, TLSDecodeError)
from tlslite.utils.codec import BadCertificateError     # noqa


def init(tier, seed):
    DET.install()
    pass


# ---------------------------------------------------------------------------
# corpus harvesting
# ---------------------------------------------------------------------------
_corpus = None


def _tap_conn(conn, who, log):
    """Instance-level wrapper recording every handshake message sent."""
    orig_send = conn._sendMsg
    orig_queue = conn._queue_message

    def rec(msg):
        try:
            if type(msg) is M.Message:
                return          # coalesced flush of already recorded messages
            if msg.contentType == ContentType.handshake:
                log.append((who, bytes(msg.write()), tuple(conn.version),
                            conn))
        except Exception:       # noqa
            pass

    def send(msg, *a, **kw):
        rec(msg)
        return orig_send(msg, *a, **kw)

    def queue(msg):
        rec(msg)
        return orig_queue(msg)
    conn._sendMsg = send
    conn._queue_message = queue


FLAVOURS = [
    ("ssl3-rsa", dict(v="ssl3", kx=["rsa"])),
    ("tls10-dhe", dict(v="tls10", kx=["dhe_rsa"])),
    ("tls11-ecdhe", dict(v="tls11", kx=["ecdhe_rsa"], reqCert=True,
                         ccred="c_rsa")),
    ("tls12-ecdhe-ecdsa", dict(v="tls12", kx=["ecdhe_ecdsa"], cred="ecdsa",
                               reqCert=True, ccred="c_ecdsa", alpn=True)),
    ("tls12-rsa-npn", dict(v="tls12", kx=["rsa"], npn=True, tickets=True)),
    ("tls12-dhe-dsa", dict(v="tls12", kx=["dhe_dsa"], cred="dsa")),
    ("tls12-srp", dict(v="tls12", srp=True)),
    ("tls12-srp-cert", dict(v="tls12", srp=True, cred="rsa")),
    ("tls12-anon", dict(v="tls12", anon=True)),
    ("tls12-ed25519", dict(v="tls12", kx=["ecdhe_ecdsa"], cred="ed25519")),
    ("tls13", dict(v="tls13", alpn=True, sni="example.com")),
    ("tls13-auth", dict(v="tls13", reqCert=True, ccred="c_rsa",
                        tickets=True)),
    ("tls13-hrr", dict(v="tls13", hrr=True)),
    ("tls13-ecdsa", dict(v="tls13", cred="p384", reqCert=True,
                         ccred="c_ed25519")),
    ("tls13-nocomp", dict(v="tls13", nocomp=True, cred="rsapss")),
    ("tls13-resume", dict(v="tls13", tickets=True, resume=True)),
]


def _run_flavour(name, f, log):
    v = sc.VER[f["v"]]
    ckw = dict(minVersion=v, maxVersion=v)
    skw = dict(minVersion=v, maxVersion=v)
    if "kx" in f:
        ckw["keyExchangeNames"] = f["kx"]
        skw["keyExchangeNames"] = f["kx"]
    if f.get("tickets"):
        skw["ticketKeys"] = [bytearray(b"k" * 32)]
        skw["ticket_count"] = 2
    if f.get("hrr"):
        ckw["keyShares"] = ["x25519"]
        skw["eccCurves"] = ["secp256r1", "secp384r1"]
        skw["keyShares"] = ["secp256r1"]
        ckw["eccCurves"] = ["x25519", "secp256r1"]
    if f.get("nocomp"):
        ckw["certificate_compression_receive"] = []
        ckw["certificate_compression_send"] = []
    client = {"settings": sc.mk_settings(**ckw)}
    server = {"settings": sc.mk_settings(**skw)}
    if f.get("srp"):
        client["mode"] = "srp"
        server["verifierDB"] = sc.srp_db()
        if f.get("cred"):
            server["cred"] = f["cred"]
    elif f.get("anon"):
        client["mode"] = "anon"
        server["anon"] = True
    else:
        server["cred"] = f.get("cred", "rsa")
    if f.get("reqCert"):
        server["reqCert"] = True
        client["cred"] = f["ccred"]
    if f.get("alpn"):
        client["alpn"] = [bytearray(b"h2"), bytearray(b"http/1.1")]
        server["alpn"] = [bytearray(b"http/1.1")]
    if f.get("npn"):
        client["nextProtos"] = [bytearray(b"http/1.1")]
        server["nextProtos"] = [bytearray(b"spdy/3"),
                                bytearray(b"http/1.1")]
    if f.get("sni"):
        client["serverName"] = f["sni"]

    def prepare(cc, scn):
        _tap_conn(cc, "c", log)
        _tap_conn(scn, "s", log)
    DET.reseed("C15", name)
    p = sc.connect(client, server, prepare=prepare)
    if not p.both_ok:
        raise BaselineBroken("corpus-flavour:" + name, "%r %r" % (p.co, p.so))
    # trigger post-handshake messages (tickets)
    sc.do_write(p, "s", b"x")
    sc.read_all(p, "c")
    if f.get("resume"):
        sess = p.c.session
        client2 = dict(client)
        client2["session"] = sess
        DET.reseed("C15", name, "resume")
        q = sc.connect(client2, server, prepare=prepare)
        if not q.both_ok:
            raise BaselineBroken("corpus-resume:" + name, "%r %r" % (q.co, q.so))
    return p


def corpus():
    """List of dicts {name, bytes, ctx}. Deterministic."""
    global _corpus
    if isinstance(_corpus, BaselineBroken):
        raise _corpus
    if _corpus is not None:
        return _corpus
    try:
        return _build_corpus()
    except BaselineBroken as e:
        _corpus = e
        raise


def _build_corpus():
    global _corpus
    out = []
    seen = set()
    for name, f in FLAVOURS:
        log = []
        p = _run_flavour(name, f, log)
        suite = p.c.session.cipherSuite
        ver = tuple(p.c.version)
        for who, data, v_at, conn in log:
            if len(data) < 4:
                continue
            t = data[0]
            key = hashlib.sha256(data).digest()
            if key in seen:
                continue
            seen.add(key)
            ctx = {"ver": ver, "suite": suite, "who": who}
            if t == HandshakeType.finished:
                ctx["hash_len"] = len(data) - 4
            out.append({"name": "%s/%s/%s" % (name, who,
                                              HandshakeType.toStr(t)),
                        "bytes": data, "ctx": ctx})
    _corpus = out
    return out


def parse_msg(data, ctx):
    """Parse a handshake message the way _getMsg dispatches it."""
    p = Parser(bytearray(data))
    t = p.get(1)
    ver = tuple(ctx["ver"])
    suite = ctx.get("suite")
    if t == HandshakeType.client_hello:
        return M.ClientHello().parse(p)
    if t == HandshakeType.server_hello:
        return M.ServerHello().parse(p)
    if t == HandshakeType.certificate:
        return M.Certificate(CertificateType.x509, ver).parse(p)
    if t == HandshakeType.compressed_certificate:
        return M.CompressedCertificate(CertificateType.x509, ver).parse(p)
    if t == HandshakeType.certificate_request:
        return M.CertificateRequest(ver).parse(p)
    if t == HandshakeType.certificate_verify:
        return M.CertificateVerify(ver).parse(p)
    if t == HandshakeType.server_key_exchange:
        return M.ServerKeyExchange(suite, ver).parse(p)
    if t == HandshakeType.server_hello_done:
        return M.ServerHelloDone().parse(p)
    if t == HandshakeType.client_key_exchange:
        return M.ClientKeyExchange(suite, ver).parse(p)
    if t == HandshakeType.finished:
        hl = ctx.get("hash_len")
        if hl is None and ver > (3, 3):
            hl = len(data) - 4
        return M.Finished(ver, hl).parse(p)
    if t == HandshakeType.next_protocol:
        return M.NextProtocol().parse(p)
    if t == HandshakeType.encrypted_extensions:
        return M.EncryptedExtensions().parse(p)
    if t == HandshakeType.new_session_ticket:
        if ver < (3, 4):
            return M.NewSessionTicket1_0().parse(p)
        return M.NewSessionTicket().parse(p)
    if t == HandshakeType.key_update:
        return M.KeyUpdate().parse(p)
    if t == HandshakeType.hello_request:
        return M.HelloRequest().parse(p)
    if t == HandshakeType.certificate_status:
        return M.CertificateStatus().parse(p)
    raise DecodeError("dispatch: unexpected handshake type %d" % t)


# ---------------------------------------------------------------------------
# value-level generation through create()
# ---------------------------------------------------------------------------
def prg(tag, n):
    out = bytearray()
    i = 0
    while len(out) < n:
        out += hashlib.sha256(("%s|%d" % (tag, i)).encode()).digest()
        i += 1
    return bytearray(out[:n])


def build_ext(spec):
    """spec = [name, args...] -> (extension object, parse flags)"""
    k = spec[0]
    a = spec[1:]
    if k == "sni":
        return E.SNIExtension().create(serverNames=[
            E.SNIExtension.ServerName(t, prg("sni%d" % i, n))
            for i, (t, n) in enumerate(a[0])]), {}
    if k == "alpn":
        return E.ALPNExtension().create([prg("alpn%d" % i, n)
                                         for i, n in enumerate(a[0])]), {}
    if k == "groups":
        return E.SupportedGroupsExtension().create(list(a[0])), {}
    if k == "ecpf":
        return E.ECPointFormatsExtension().create(list(a[0])), {}
    if k == "sigalgs":
        return E.SignatureAlgorithmsExtension().create(
            [tuple(x) for x in a[0]]), {}
    if k == "sigalgs_cert":
        return E.SignatureAlgorithmsCertExtension().create(
            [tuple(x) for x in a[0]]), {}
    if k == "versions":
        return E.SupportedVersionsExtension().create(
            [tuple(x) for x in a[0]]), {}
    if k == "srv_version":
        return E.SrvSupportedVersionsExtension().create(tuple(a[0])), \
            {"server": True}
    if k == "keyshare_c":
        return E.ClientKeyShareExtension().create(
            [E.KeyShareEntry().create(g, prg("ks%d" % i, n))
             for i, (g, n) in enumerate(a[0])]), {}
    if k == "keyshare_s":
        g, n = a[0]
        return E.ServerKeyShareExtension().create(
            E.KeyShareEntry().create(g, prg("kss", n))), {"server": True}
    if k == "keyshare_hrr":
        return E.HRRKeyShareExtension().create(a[0]), {"hrr": True}
    if k == "psk":
        ids = [E.PskIdentity().create(prg("pi%d" % i, n), age)
               for i, (n, age) in enumerate(a[0])]
        binders = [prg("pb%d" % i, n) for i, n in enumerate(a[1])]
        return E.PreSharedKeyExtension().create(ids, binders), {}
    if k == "psk_srv":
        return E.SrvPreSharedKeyExtension().create(a[0]), {"server": True}
    if k == "psk_modes":
        return E.PskKeyExchangeModesExtension().create(list(a[0])), {}
    if k == "cookie":
        return E.CookieExtension().create(prg("cookie", a[0])), {}
    if k == "rsl":
        return E.RecordSizeLimitExtension().create(a[0]), {}
    if k == "heartbeat":
        return E.HeartbeatExtension().create(a[0]), {}
    if k == "ticket":
        return E.SessionTicketExtension().create(prg("tkt", a[0])), {}
    if k == "padding":
        return E.PaddingExtension().create(a[0]), {}
    if k == "reneg":
        return E.RenegotiationInfoExtension().create(prg("ri", a[0])), {}
    if k == "status_request":
        return E.StatusRequestExtension().create(
            responder_id_list=[prg("rid%d" % i, n)
                               for i, n in enumerate(a[0])],
            request_extensions=prg("rex", a[1])), {}
    if k == "npn":
        return E.NPNExtension().create([prg("npn%d" % i, n)
                                        for i, n in enumerate(a[0])]), {}
    if k == "srp":
        return E.SRPExtension().create(prg("srp", a[0])), {}
    if k == "cert_type_c":
        return E.ClientCertTypeExtension().create(list(a[0])), {}
    if k == "cert_type_s":
        return E.ServerCertTypeExtension().create(a[0]), {"server": True}
    if k == "comp_cert":
        return E.CompressedCertificateExtension().create(list(a[0])), {}
    if k == "generic":
        return E.TLSExtension(extType=a[0]).create(prg("gen", a[1])), {}
    raise HarnessError(k)


def ext_bytes(spec):
    ext, flags = build_ext(spec)
    return bytes(ext.write()), flags


def parse_ext(data, flags):
    p = Parser(bytearray(data))
    return E.TLSExtension(server=flags.get("server", False),
                          hrr=flags.get("hrr", False),
                          cert=flags.get("cert", False)).parse(p), p


def build_msg(spec):
    """spec = {"cls":..., ...} -> (message bytes, ctx)"""
    c = spec["cls"]
    ver = tuple(spec.get("ver", (3, 3)))
    ctx = {"ver": ver, "suite": spec.get("suite", 0x002F)}
    exts = None
    if spec.get("exts") is not None:
        exts = [build_ext(e)[0] for e in spec["exts"]]
    if c == "client_hello":
        m = M.ClientHello().create(ver, prg("chr", 32),
                                   prg("sid", spec["sid"]),
                                   list(spec["suites"]), extensions=exts)
    elif c == "server_hello":
        m = M.ServerHello().create(ver, prg("shr", 32),
                                   prg("sid", spec["sid"]), spec["suite_sel"],
                                   extensions=exts)
    elif c == "cert_request":
        if ver >= (3, 4):
            m = M.CertificateRequest(ver).create(
                context=prg("ctx", spec["ctxlen"]), extensions=exts or [])
        else:
            m = M.CertificateRequest(ver).create(
                list(spec["ctypes"]), [prg("ca%d" % i, n)
                                       for i, n in enumerate(spec["cas"])],
                [tuple(x) for x in spec["sigalgs"]])
    elif c == "ske_dh":
        m = M.ServerKeyExchange(0x0033, ver).createDH(
            int.from_bytes(prg("p", spec["pl"]), "big") | 1,
            spec["g"], int.from_bytes(prg("ys", spec["yl"]), "big"))
        m.signature = prg("sig", spec["sl"])
        if ver >= (3, 3):
            m.hashAlg, m.signAlg = spec["sa"]
        ctx["suite"] = 0x0033
    elif c == "ske_ecdh":
        m = M.ServerKeyExchange(0xC013, ver).createECDH(
            3, spec["curve"], prg("pt", spec["ptl"]))
        m.signature = prg("sig", spec["sl"])
        if ver >= (3, 3):
            m.hashAlg, m.signAlg = spec["sa"]
        ctx["suite"] = 0xC013
    elif c == "ske_srp":
        m = M.ServerKeyExchange(0xC01D, ver).createSRP(
            int.from_bytes(prg("N", spec["pl"]), "big") | 1, spec["g"],
            prg("salt", spec["saltl"]),
            int.from_bytes(prg("B", spec["yl"]), "big"))
        ctx["suite"] = 0xC01D
    elif c == "cke_rsa":
        m = M.ClientKeyExchange(0x002F, ver).createRSA(prg("epms",
                                                           spec["n"]))
        ctx["suite"] = 0x002F
    elif c == "cke_dh":
        m = M.ClientKeyExchange(0x0033, ver).createDH(
            int.from_bytes(prg("yc", spec["n"]), "big"))
        ctx["suite"] = 0x0033
    elif c == "cke_ecdh":
        m = M.ClientKeyExchange(0xC013, ver).createECDH(prg("pt",
                                                            spec["n"]))
        ctx["suite"] = 0xC013
    elif c == "cke_srp":
        m = M.ClientKeyExchange(0xC01D, ver).createSRP(
            int.from_bytes(prg("A", spec["n"]), "big"))
        ctx["suite"] = 0xC01D
    elif c == "cert_verify":
        m = M.CertificateVerify(ver).create(
            prg("cv", spec["n"]),
            tuple(spec["sa"]) if ver >= (3, 3) else None)
    elif c == "finished":
        n = 36 if ver == (3, 0) else 12 if ver < (3, 4) else spec["hl"]
        m = M.Finished(ver, n).create(prg("fin", n))
        ctx["hash_len"] = n
    elif c == "nst13":
        m = M.NewSessionTicket().create(spec["lifetime"], spec["age_add"],
                                        prg("nonce", spec["noncel"]),
                                        prg("ticket", spec["tl"]),
                                        exts or [])
        ctx["ver"] = (3, 4)
    elif c == "nst10":
        m = M.NewSessionTicket1_0().create(spec["lifetime"],
                                           prg("ticket", spec["tl"]))
        ctx["ver"] = (3, 3)
    elif c == "enc_ext":
        m = M.EncryptedExtensions().create(exts or [])
        ctx["ver"] = (3, 4)
    elif c == "next_protocol":
        m = M.NextProtocol().create(prg("np", spec["n"]))
    elif c == "key_update":
        m = M.KeyUpdate().create(spec["t"])
        ctx["ver"] = (3, 4)
    elif c == "cert_status":
        m = M.CertificateStatus().create(1, prg("ocsp", spec["n"]))
    else:
        raise HarnessError(c)
    return bytes(m.write()), ctx


# ---------------------------------------------------------------------------
def reencode(kind, data, ctx):
    """parse + write for a handshake message or an extension"""
    if kind == "ext":
        obj, p = parse_ext(data, ctx)
        if p.getRemainingLength():
            raise DecodeError("trailing data after extension")
        return bytes(obj.write())
    obj = parse_msg(data, ctx)
    return bytes(obj.write())


def perturb(data, mut):
    k = mut[0]
    b = bytearray(data)
    if k == "none":
        return bytes(b), False
    if k == "prefix":
        n = mut[1] % len(b)
        return bytes(b[:n]), True
    if k == "append_outside":
        return bytes(b) + b"\x00", False
    if k == "append_inside":
        # grow the outermost length field by one and add a byte
        return None, True       # handled per kind
    if k == "len":
        # +-1 on a field that *looks like* a length prefix (its value, read
        # with width 1, 2 or 3, reaches a point inside the encoding): inner
        # lengths disagreeing with outer ones
        cands = []
        for w in (1, 2, 3):
            for o in range(1 if mut[-1] == "msg" else 0, len(b) - w):
                v = int.from_bytes(b[o:o + w], "big")
                if 0 < v and o + w + v <= len(b):
                    cands.append((o, w, v))
        if not cands:
            return bytes(b), False
        o, w, v = cands[mut[1] % len(cands)]
        nv = v + (1 if mut[2] else -1)
        if nv >= 256 ** w:
            return bytes(b), False
        b[o:o + w] = nv.to_bytes(w, "big")
        return bytes(b), True
    if k == "inc":
        # offset 0 of a message is the dispatch byte (message order is C06)
        pos = mut[1] % len(b)
        if pos == 0 and len(b) > 1 and mut[-1] == "msg":
            pos = 1
        b[pos] = (b[pos] + (1 if mut[2] else -1)) % 256
        return bytes(b), True
    raise HarnessError(k)


def encoding_for(case):
    src = case["src"]
    if src == "corpus":
        c = corpus()
        e = c[case["idx"] % len(c)]
        return "msg", e["bytes"], e["ctx"], e["name"]
    if src == "msg":
        data, ctx = build_msg(case["spec"])
        return "msg", data, ctx, case["spec"]["cls"]
    if src == "ext":
        data, flags = ext_bytes(case["spec"])
        return "ext", data, flags, "ext:" + case["spec"][0]
    raise HarnessError(src)


def check(case):
    if case["src"] == "oversize":
        return check_oversize(case)
    if case["src"] == "rec":
        return check_rec(case)
    if case["src"] == "raw":
        return check_raw(case)
    if case["src"] == "kat":
        return check_kat(case)
    if case["src"] == "overrun":
        return check_overrun(case)
    if case["src"] == "codec":
        return check_codec(case)
    if case["src"] == "reuse":
        return check_reuse(case)
    try:
        kind, data, ctx, name = encoding_for(case)
    except ValueError as e:
        # create()/write() refusing a value that does not fit is (2)
        return good(nt=False, labels=["write-refused"])
    cls = name.split("/")[-1]
    labels = ["src=" + case["src"], "cls=" + cls, "mut=" + case["mut"][0]]
    mut = case["mut"]
    if mut[0] == "append_inside":
        b = bytearray(data) + b"\x00"
        if kind == "msg":
            n = int.from_bytes(b[1:4], "big") + 1
            b[1:4] = n.to_bytes(3, "big")
        else:
            n = int.from_bytes(b[2:4], "big") + 1
            if n > 0xffff:
                return good(nt=False, labels=labels)
            b[2:4] = n.to_bytes(2, "big")
        pdata, changed = bytes(b), True
    else:
        pdata, changed = perturb(data, list(mut) + [kind])
    nt = len(data) >= 8 and (changed or mut[0] == "none")
    if mut[0] == "none":
        try:
            out = reencode(kind, data, ctx)
        except DECODE_ERRORS as e:
            return bad("wellformed-rejected:%s" % cls,
                       "%s: %r on its own encoding %s" % (
                           name, e, data[:40].hex()), nt=nt, labels=labels)
        if out != data:
            return bad("roundtrip-differs:%s" % cls,
                       "%s: %s -> %s" % (name, data[:60].hex(),
                                         out[:60].hex()), nt=nt,
                       labels=labels)
        return good(nt=nt, labels=labels)
    if mut[0] == "append_outside":
        # parser must not read past the declared length
        try:
            if kind == "ext":
                obj, p = parse_ext(pdata, ctx)
                out = bytes(obj.write())
                rest = p.getRemainingLength()
            else:
                obj = parse_msg(pdata, ctx)
                out = bytes(obj.write())
                rest = 1
        except DECODE_ERRORS as e:
            # strict (nothing accepted): the parser noticed the extra byte
            return good(nt=nt, labels=labels + ["outside-byte-rejected"])
        if out != data or rest != 1:
            return bad("reads-past-declared-length:%s" % cls,
                       "%s: re-encoding differs with one trailing byte" %
                       name, nt=nt, labels=labels)
        return good(nt=nt, labels=labels)
    try:
        out = reencode(kind, pdata, ctx)
    except BadCertificateError as e:
        if mut[0] == "prefix":
            # cutting an encoding short is a framing error (decode_error on
            # the wire), not a verdict on the certificate inside
            return bad("framing-error-reported-as-bad-certificate:%s" % cls,
                       "%s cut to %d of %d bytes: %r" % (
                           name, len(pdata), len(data), e), nt=nt,
                       labels=labels)
        return good(nt=nt, labels=labels + ["rejected"])
    except DECODE_ERRORS:
        return good(nt=nt, labels=labels + ["rejected"])
    except AssertionError:
        if kind == "msg" and pdata[0] == 12:
            # ServerKeyExchange naming hash or signature algorithm 0: a
            # value question (unknown algorithm), the framing was fine
            import traceback
            tb = traceback.extract_tb(sys.exc_info()[2])
            if tb[-1].name == "write":
                return good(nt=False, labels=labels + ["unknown-algorithm"])
        raise
    if out == pdata:
        return good(nt=nt, labels=labels + ["still-wellformed"])
    if cls == "next_protocol" and len(out) == len(pdata) and kind == "msg":
        # NextProtocol padding is opaque: its content is not significant
        n = pdata[4] if len(pdata) > 4 else 0
        if out[:5 + n + 1] == pdata[:5 + n + 1]:
            return good(nt=nt, labels=labels + ["opaque-padding"])
    return bad("lenient-parse:%s:%s" % (cls, mut[0]),
               "%s: perturbed input %s accepted, re-encodes as %s" % (
                   name, pdata[:48].hex(), out[:48].hex()), nt=nt,
               labels=labels)


# ---------------------------------------------------------------------------
# non-handshake codecs: record headers, alert, CCS, heartbeat, ticket
# payload, SSLv2 handshake messages
# ---------------------------------------------------------------------------
def _chain(n):
    from tlslite.x509certchain import X509CertChain
    c = sc.cred("rsa")[0]
    return X509CertChain(list(c.x509List) * n) if n else None


def rec_build(spec):
    """spec = [kind, args...] -> object with write()"""
    k = spec[0]
    if k == "alert":
        return M.Alert().create(spec[1], spec[2])
    if k == "ccs":
        return M.ChangeCipherSpec().create()
    if k == "rh3":
        return M.RecordHeader3().create(tuple(spec[1]), spec[2], spec[3])
    if k == "rh2":
        return M.RecordHeader2().create(spec[1], spec[2], bool(spec[3]))
    if k == "hb":
        h = M.Heartbeat()
        h.message_type = spec[1]
        h.payload = prg("hbp", spec[2])
        h.padding = prg("hbpad", spec[3])
        return h
    if k == "stp":
        return M.SessionTicketPayload().create(
            prg("ms", spec[1]), tuple(spec[2]), spec[3], spec[4],
            nonce=prg("nonce", spec[5]), client_cert_chain=_chain(spec[6]),
            encrypt_then_mac=bool(spec[7]),
            extended_master_secret=bool(spec[8]),
            server_name=prg("sn", spec[9]))
    if k == "ch2":
        c = M.ClientHello(ssl2=True)
        c.client_version = tuple(spec[1])
        c.cipher_suites = list(spec[2])
        c.session_id = prg("sid2", spec[3])
        c.random = prg("chal", spec[4])
        return c
    if k == "sh2":
        return M.ServerHello2().create(spec[1], spec[2], tuple(spec[3]),
                                       prg("cert2", spec[4]), list(spec[5]),
                                       prg("sid2", spec[6]))
    if k == "cmk":
        return M.ClientMasterKey().create(spec[1], prg("ck", spec[2]),
                                          prg("ek", spec[3]),
                                          prg("ka", spec[4]))
    if k == "fin2":
        cls = M.ClientFinished if spec[1] else M.ServerFinished
        return cls().create(prg("vd2", spec[2]))
    if k == "dc":
        return _dc_object(spec)
    raise HarnessError(k)


REC_FIELDS = {
    "alert": ("level", "description"), "ccs": ("type",),
    "rh3": ("type", "version", "length"),
    "rh2": ("length", "padding", "securityEscape"),
    "hb": ("message_type", "payload", "padding"),
    "stp": ("version", "master_secret", "protocol_version", "cipher_suite",
            "creation_time", "nonce", "encrypt_then_mac",
            "extended_master_secret", "server_name"),
    "ch2": ("client_version", "cipher_suites", "session_id", "random"),
    "sh2": ("session_id_hit", "certificate_type", "server_version",
            "certificate", "ciphers", "session_id"),
    "cmk": ("cipher", "clear_key", "encrypted_key", "key_argument"),
    "fin2": ("verify_data",),
    "dc": ("algorithm", "signature"),
}
# errors the callers of each parser treat as "malformed"
REC_ERRORS = {"stp": DECODE_ERRORS + (ValueError,)}


def rec_fields(k, o):
    out = []
    for f in REC_FIELDS[k]:
        v = getattr(o, f)
        if isinstance(v, (bytes, bytearray)):
            v = bytes(v)
        elif isinstance(v, (list, tuple)):
            v = tuple(v)
        elif isinstance(v, bool):
            v = int(v)
        out.append(v)
    if k == "stp":
        ch = o.client_cert_chain
        out.append(tuple(bytes(x.bytes) for x in ch.x509List) if ch else ())
    if k == "dc":
        out += [o.cred.valid_time, tuple(o.cred.dc_cert_verify_algorithm),
                bytes(o.cred.subject_public_key_info)]
    return out


def rec_parse(k, data, spec):
    """-> (object, bytes consumed)"""
    p = Parser(bytearray(data))
    if k == "alert":
        o = M.Alert().parse(p)
    elif k == "ccs":
        o = M.ChangeCipherSpec().parse(p)
    elif k == "rh3":
        o = M.RecordHeader3().parse(p)
    elif k == "rh2":
        o = M.RecordHeader2().parse(p)
    elif k == "hb":
        o = M.Heartbeat().parse(p)
    elif k == "stp":
        o = M.SessionTicketPayload().parse(p)
    elif k == "ch2":
        p.get(1)
        o = M.ClientHello(ssl2=True).parse(p)
    elif k == "sh2":
        p.get(1)
        o = M.ServerHello2().parse(p)
    elif k == "cmk":
        p.get(1)
        o = M.ClientMasterKey().parse(p)
    elif k == "fin2":
        p.get(1)
        o = (M.ClientFinished if spec[1] else M.ServerFinished)().parse(p)
    elif k == "dc":
        from tlslite.x509 import DelegatedCredential
        o = DelegatedCredential().parse(p)
    else:
        raise HarnessError(k)
    return o, p.index


def check_rec(case):
    spec = case["spec"]
    k = spec[0]
    mut = case["mut"]
    labels = ["src=rec", "cls=" + k, "mut=" + mut[0]]
    errs = REC_ERRORS.get(k, DECODE_ERRORS)
    try:
        obj = rec_build(spec)
        data = bytes(obj.write())
    except ValueError:
        return good(nt=False, labels=labels + ["write-refused"])
    nt = len(data) >= 2
    if mut[0] == "none":
        try:
            o2, used = rec_parse(k, data, spec)
            out = bytes(o2.write())
        except errs as e:
            return bad("wellformed-rejected:%s" % k, "%r on %s" % (
                e, data[:40].hex()), nt=nt, labels=labels)
        if used != len(data):
            return bad("parser-consumed-wrong-length:%s" % k,
                       "%d of %d" % (used, len(data)), nt=nt, labels=labels)
        if k == "ch2" and spec[4] < 32:
            # SSLv2 challenge shorter than 32 bytes: left-padded by design
            # into the 32-byte TLS client random
            return good(nt=False, labels=labels + ["ch2-challenge-padded"])
        if out != data:
            return bad("roundtrip-differs:%s" % k, "%s -> %s" % (
                data[:60].hex(), out[:60].hex()), nt=nt, labels=labels)
        a, b = rec_fields(k, obj), rec_fields(k, o2)
        if a != b:
            return bad("roundtrip-value-differs:%s" % k, "%r -> %r" % (
                a, b), nt=nt, labels=labels)
        return good(nt=nt, labels=labels)
    if mut[0] == "append_inside":
        return good(nt=False, labels=labels + ["no-outer-length"])
    if mut[0] == "append_outside":
        pdata = data + b"\x00"
    else:
        typed = k in ("ch2", "sh2", "cmk", "fin2")
        pdata, _ = perturb(data, list(mut) + ["msg" if typed else "rec"])
        if typed and pdata[:1] != data[:1]:
            return good(nt=False, labels=labels + ["dispatch-byte"])
    try:
        o2, used = rec_parse(k, pdata, spec)
        out = bytes(o2.write())
    except errs:
        return good(nt=nt, labels=labels + ["rejected"])
    except ValueError:
        # write() of the parsed value refuses: it was not well-formed
        return bad("lenient-parse:%s:%s" % (k, mut[0]),
                   "parsed %s but cannot re-encode" % pdata[:40].hex(),
                   nt=nt, labels=labels)
    if out == pdata[:used]:
        if used < len(pdata) and k in ("stp", "ccs"):
            # these parsers own the whole buffer
            return bad("reads-short:%s" % k, "", nt=nt, labels=labels)
        return good(nt=nt, labels=labels + ["still-wellformed"])
    if k == "rh2" and used == 3 and not pdata[2] and not pdata[0] & 0x40:
        # 3-byte header without padding or escape: second legal encoding
        return good(nt=nt, labels=labels + ["rh2-long-form"])
    if k == "ch2" and len(out) > len(pdata[:used]):
        # challenge shorter than 32 bytes is left-padded by design
        return good(nt=nt, labels=labels + ["ch2-challenge-padded"])
    if k == "stp" and used == len(pdata):
        # booleans are normalised (any non-zero byte -> 1)
        o3, _ = rec_parse(k, out, spec)
        if rec_fields(k, o3) == rec_fields(k, o2) and len(out) == len(pdata):
            return good(nt=nt, labels=labels + ["stp-bool-normalised"])
    return bad("lenient-parse:%s:%s" % (k, mut[0]),
               "perturbed %s accepted (%d used), re-encodes as %s" % (
                   pdata[:48].hex(), used, out[:48].hex()), nt=nt,
               labels=labels)


def rec_oversize(what):
    if what == "rh3_len":
        return M.RecordHeader3().create((3, 3), 23, 65536).write()
    if what == "rh2_len":
        return M.RecordHeader2().create(0x8000).write()
    if what == "rh2_len_pad":
        return M.RecordHeader2().create(0x4000, 1).write()
    if what == "alert_desc":
        return M.Alert().create(256, 2).write()
    if what == "hb_payload":
        h = M.Heartbeat()
        h.payload = prg("x", 65536)
        return h.write()
    if what == "stp_ms":
        return M.SessionTicketPayload().create(prg("m", 65536), (3, 3), 1,
                                               1).write()
    if what == "stp_nonce":
        return M.SessionTicketPayload().create(prg("m", 48), (3, 4), 1, 1,
                                               nonce=prg("n", 256)).write()
    if what == "stp_sn":
        return M.SessionTicketPayload().create(
            prg("m", 48), (3, 4), 1, 1,
            server_name=prg("n", 65536)).write()
    if what == "cmk_key":
        return M.ClientMasterKey().create(1, prg("c", 65536), b"",
                                          b"").write()
    if what == "sh2_cert":
        return M.ServerHello2().create(0, 1, (0, 2), prg("c", 65536), [],
                                       b"").write()
    if what == "ch2_sid":
        c = M.ClientHello(ssl2=True)
        c.client_version = (3, 1)
        c.cipher_suites = [1]
        c.session_id = prg("s", 65536)
        c.random = prg("r", 32)
        return c.write()
    return None


# ---------------------------------------------------------------------------
# the codec layer itself: Parser against a reference reader, Writer against
# int.to_bytes
# ---------------------------------------------------------------------------
class _RefReader(object):
    class Err(Exception):
        pass

    def __init__(self, data):
        self.b = bytes(data)
        self.i = 0
        self.chk = None

    def take(self, n):
        if n < 0 or self.i + n > len(self.b):
            raise self.Err()
        r = self.b[self.i:self.i + n]
        self.i += n
        return r

    def num(self, n):
        return int.from_bytes(self.take(n), "big")


def check_codec(case):
    """ops: list of [name, args...] applied to one buffer; results (values
    or 'decode error') and the final read position must match the reference
    reader after every operation."""
    from tlslite.utils.codec import Writer
    data = bytes.fromhex(case["hex"])
    labels = ["src=codec"]
    p = Parser(bytearray(data))
    r = _RefReader(data)
    nt = False
    for k, op in enumerate(case["ops"]):
        name = op[0]
        labels.append("op=" + name)
        exp = got = None
        try:
            if name == "get":
                exp = r.num(op[1])
            elif name == "fix":
                exp = r.take(op[1])
            elif name == "skip":
                r.take(op[1])
                exp = None
            elif name == "var":
                exp = r.take(r.num(op[1]))
            elif name == "fixlist":
                exp = [r.num(op[1]) for _ in range(op[2])]
            elif name == "varlist":
                n = r.num(op[2])
                if n % op[1]:
                    raise r.Err()
                # the whole list must be present
                blob = r.take(n)
                exp = [int.from_bytes(blob[i:i + op[1]], "big")
                       for i in range(0, n, op[1])]
            elif name == "vartuple":
                n = r.num(op[3])
                if n % (op[1] * op[2]):
                    raise r.Err()
                blob = r.take(n)
                flat = [int.from_bytes(blob[i:i + op[1]], "big")
                        for i in range(0, n, op[1])]
                exp = [tuple(flat[i:i + op[2]])
                       for i in range(0, len(flat), op[2])]
            elif name == "remaining":
                exp = len(data) - r.i
            else:
                raise HarnessError(name)
            ref_err = False
        except _RefReader.Err:
            ref_err = True
        try:
            if name == "get":
                got = p.get(op[1])
            elif name == "fix":
                got = bytes(p.getFixBytes(op[1]))
            elif name == "skip":
                p.skip_bytes(op[1])
            elif name == "var":
                got = bytes(p.getVarBytes(op[1]))
            elif name == "fixlist":
                got = list(p.getFixList(op[1], op[2]))
            elif name == "varlist":
                got = list(p.getVarList(op[1], op[2]))
            elif name == "vartuple":
                got = [tuple(x) for x in p.getVarTupleList(op[1], op[2],
                                                           op[3])]
            elif name == "remaining":
                got = p.getRemainingLength()
            real_err = False
        except DECODE_ERRORS:
            real_err = True
        if ref_err:
            nt = True
        if ref_err != real_err:
            return bad("parser-%s:%s" % (
                "reads-past-buffer" if ref_err else "rejects-wellformed",
                name), "buffer %s op %d %r: reference %s, Parser %s" % (
                    data.hex()[:80], k, op,
                    "error" if ref_err else repr(exp)[:60],
                    "error" if real_err else repr(got)[:60]),
                nt=True, labels=labels)
        if ref_err:
            break
        if got != exp or p.index != r.i:
            return bad("parser-differs:%s" % name,
                       "buffer %s op %d %r: reference %r at %d, Parser %r "
                       "at %d" % (data.hex()[:80], k, op, exp, r.i, got,
                                  p.index), nt=True, labels=labels)
    # Writer: add(x, n) either raises ValueError or equals to_bytes
    for x, n in case.get("adds", []):
        w = Writer()
        try:
            w.add(x, n)
            out = bytes(w.bytes)
        except ValueError:
            out = None
        want = x.to_bytes(n, "big") if x < 256 ** n else None
        if out != want:
            return bad("writer-add-%s" % ("wraps" if want is None
                                          else "differs"),
                       "add(%d, %d) -> %r" % (x, n, out), nt=True,
                       labels=labels)
    return good(nt=nt or bool(case.get("adds")), labels=labels)


@st.composite
def codec_case(draw):
    n = draw(st.sampled_from([0, 1, 2, 3, 4, 5, 8, 16, 40]))
    body = bytearray(draw(st.binary(min_size=n, max_size=n)))
    # make small length prefixes likely to be consistent
    if body and draw(st.booleans()):
        body[0] = draw(st.integers(0, len(body)))
    if len(body) > 1 and draw(st.booleans()):
        body[0] = 0
        body[1] = draw(st.integers(0, len(body)))
    w = st.sampled_from([1, 2, 3, 4])
    op = st.one_of(
        st.tuples(st.just("get"), st.integers(1, 5)),
        st.tuples(st.just("fix"), st.integers(0, 9)),
        st.tuples(st.just("skip"), st.integers(0, 9)),
        st.tuples(st.just("var"), st.integers(1, 3)),
        st.tuples(st.just("fixlist"), w, st.integers(0, 5)),
        st.tuples(st.just("varlist"), w, st.integers(1, 3)),
        st.tuples(st.just("vartuple"), st.integers(1, 2), st.integers(1, 3),
                  st.integers(1, 2)),
        st.tuples(st.just("remaining"))).map(list)
    adds = draw(st.lists(st.tuples(
        st.one_of(st.sampled_from([0, 255, 256, 65535, 65536, 2 ** 24 - 1,
                                   2 ** 24, 2 ** 32 - 1, 2 ** 32, 2 ** 40]),
                  st.integers(0, 2 ** 33)),
        st.integers(1, 5)).map(list), max_size=3))
    return {"src": "codec", "hex": bytes(body).hex(),
            "ops": draw(st.lists(op, min_size=1, max_size=4)),
            "adds": adds, "mut": ["none"]}


# ---------------------------------------------------------------------------
# re-used objects: create() after parse() must serialise like a fresh object
# ---------------------------------------------------------------------------
def check_reuse(case):
    """obj.parse(A); obj.create*(B) and a fresh object's create*(B) must
    write the same bytes (nothing of A may survive into the encoding)."""
    labels = ["src=reuse", "cls=" + case["cls"]]
    c = corpus()
    cls = case["cls"]
    if cls == "ske":
        cands = [e for e in c if e["bytes"][0] == 12]
        if not cands:
            return good(nt=False, labels=labels)
        e = cands[case["idx"] % len(cands)]
        ver = tuple(e["ctx"]["ver"])
        suite = e["ctx"].get("suite")
        used = parse_msg(e["bytes"], e["ctx"])
        fresh = M.ServerKeyExchange(suite, ver)
        from tlslite.constants import CipherSuite
        if suite in CipherSuite.srpAllSuites:
            kind = "srp"
        elif suite in CipherSuite.dhAllSuites:
            kind = "dh"
        elif suite in CipherSuite.ecdhAllSuites:
            kind = "ecdh"
        else:
            return good(nt=False, labels=labels)
        n = case["n"]
        args = None
        if kind == "dh":
            args = (int.from_bytes(prg("p", n) or b"\x01", "big") | 1, 2,
                    int.from_bytes(prg("y", n) or b"\x01", "big"))
            used.createDH(*args)
            fresh.createDH(*args)
        elif kind == "srp":
            args = (int.from_bytes(prg("N", n) or b"\x01", "big") | 1, 2,
                    prg("salt", 8),
                    int.from_bytes(prg("B", n) or b"\x01", "big"))
            used.createSRP(*args)
            fresh.createSRP(*args)
        else:
            args = (3, 23, prg("pt", n))
            used.createECDH(*args[:1], named_curve=args[1], point=args[2])
            fresh.createECDH(*args[:1], named_curve=args[1], point=args[2])
        for o in (used, fresh):
            o.hashAlg, o.signAlg = 4, 1
            o.signature = prg("sig", 64)
        try:
            a, b = bytes(used.write()), bytes(fresh.write())
        except ValueError:
            return good(nt=False, labels=labels + ["write-refused"])
        if a != b:
            return bad("reused-object-encodes-differently:ske:" + kind,
                       "after parse(%s...) then create%s: %s vs fresh %s" % (
                           e["bytes"][:12].hex(), kind.upper(),
                           a[:40].hex(), b[:40].hex()), labels=labels)
        back = M.ServerKeyExchange(suite, ver).parse(Parser(bytearray(a[1:])))
        if kind == "dh" and back.dh_Ys != args[2]:
            return bad("roundtrip-value-differs:ske", "dh_Ys", labels=labels)
        return good(labels=labels + ["kind=" + kind])
    # generic: parse one corpus message into an object, then parse another
    # message of the same type into the same object
    cands = {}
    for e in c:
        cands.setdefault((e["bytes"][0], tuple(e["ctx"]["ver"]),
                          e["ctx"].get("suite")), []).append(e)
    groups = [g for g in cands.values() if len(g) >= 2]
    if not groups:
        return good(nt=False, labels=labels)
    g = groups[case["idx"] % len(groups)]
    a, b = g[case["n"] % len(g)], g[(case["n"] + 1) % len(g)]
    if a["bytes"] == b["bytes"]:
        return good(nt=False, labels=labels + ["same"])
    try:
        obj = parse_msg(a["bytes"], a["ctx"])
        p = Parser(bytearray(b["bytes"]))
        p.get(1)
        obj.parse(p)
        out = bytes(obj.write())
    except DECODE_ERRORS + (ValueError,) as ex:
        return good(nt=False, labels=labels + ["reparse-refused"])
    if out != b["bytes"]:
        return bad("reused-object-encodes-differently:%s" % a["name"].split(
            "/")[-1], "parse(A) then parse(B) writes %s, B is %s" % (
                out[:40].hex(), b["bytes"][:40].hex()), labels=labels)
    return good(labels=labels + ["generic"])


# ---------------------------------------------------------------------------
# raw inputs (what the coverage-guided stage produces): selector + bytes
# ---------------------------------------------------------------------------
RAW_SUITES = [0x002f, 0x0033, 0xc013, 0xc01d, 0x0034, 0xc018, 0x1301,
              0xc02b]
RAW_VERS = [(3, 0), (3, 1), (3, 2), (3, 3), (3, 4)]


def raw_ctx(sel):
    """selector byte -> (kind, ctx)"""
    if sel & 0x80:
        return "ext", {"server": bool(sel & 1), "hrr": bool(sel & 2),
                       "cert": bool(sel & 4)}
    ver = RAW_VERS[sel % 5]
    suite = RAW_SUITES[(sel // 5) % len(RAW_SUITES)]
    # only combinations that can be the state of a connection
    if ver == (3, 4):
        suite = 0x1301
    elif suite == 0x1301:
        suite = 0x002f
    elif suite == 0xc02b and ver < (3, 3):
        suite = 0xc013
    return "msg", {"ver": ver, "suite": suite}


def selector_for(ctx):
    v = tuple(ctx["ver"])
    vi = RAW_VERS.index(v) if v in RAW_VERS else 3
    su = ctx.get("suite")
    si = RAW_SUITES.index(su) if su in RAW_SUITES else 0
    return vi + 5 * si


def check_raw(case):
    data = bytes.fromhex(case["hex"])
    kind, ctx = raw_ctx(case["sel"])
    labels = ["src=raw", "kind=" + kind]
    # framing is the defragmenter's business: the parser is handed exactly
    # the declared length, never less, never more
    if len(data) < 4:
        return good(nt=False, labels=labels)
    declared = int.from_bytes(data[1:4] if kind == "msg" else data[2:4],
                              "big")
    if len(data) < 4 + declared:
        return good(nt=False, labels=labels + ["incomplete"])
    data = data[:4 + declared]
    if kind == "msg":
        # message types the state machine never hands to a parser in this
        # version (order / applicability is C06's subject)
        t = data[0]
        v13 = ctx["ver"] == (3, 4)
        if (v13 and t in (0, 12, 14, 16, 22, 67)) or \
                (not v13 and t in (8, 24, 25)) or \
                (t == 12 and ctx["suite"] == 0x002f):
            return good(nt=False, labels=labels + ["not-dispatched"])
    cls = ("ext:%d" % int.from_bytes(data[:2], "big")) if kind == "ext" \
        else HandshakeType.toRepr(data[0]) or str(data[0])
    from tlslite.errors import TLSInternalError
    try:
        out = reencode(kind, data, ctx)
    except DECODE_ERRORS:
        return good(nt=len(data) >= 8, labels=labels + ["rejected"])
    except TLSInternalError as e:
        if "Multiple extensions" in str(e):
            # duplicates are refused when the list is first consulted
            return good(nt=False, labels=labels + ["duplicate-extensions"])
        raise
    except AssertionError:
        if kind == "msg" and data[0] == 12:
            # ServerKeyExchange naming hash or signature algorithm 0: a
            # value question (unknown algorithm), the framing was fine
            import traceback
            tb = traceback.extract_tb(sys.exc_info()[2])
            if tb[-1].name == "write":
                return good(nt=False, labels=labels + ["unknown-algorithm"])
        raise
    if out == data:
        return good(nt=len(data) >= 8, labels=labels + ["still-wellformed"])
    if kind == "msg" and data[0] in (12, 16, 25):
        # ... and a compressed certificate is compressed afresh
        # DH / SRP numbers with leading zero bytes (or none at all) denote
        # the same value and are re-encoded minimally: not a framing matter
        try:
            if reencode(kind, out, ctx) == out:
                return good(nt=False, labels=labels + ["value-normalised"])
        except DECODE_ERRORS:
            pass
    if kind == "msg" and data[0] == HandshakeType.next_protocol:
        # the padding is opaque and its length the sender's choice; the
        # writer always pads to a multiple of 32
        n = data[4] if len(data) > 4 else 0
        if out[4:5 + n] == data[4:5 + n]:
            return good(nt=False, labels=labels + ["opaque-padding"])
    return bad("lenient-parse:%s:raw" % cls,
               "input %s accepted, re-encodes as %s" % (
                   data[:48].hex(), out[:48].hex()), labels=labels)


def fuzz_seeds():
    return [bytes([selector_for(e["ctx"])]) + e["bytes"] for e in corpus()]


def fuzz_case(data):
    if len(data) < 2:
        return None
    return {"src": "raw", "sel": data[0], "hex": data[1:].hex(),
            "mut": ["raw"]}


def fuzz_stage(tier, seed):
    from vlib.fuzzstage import run_campaigns
    if tier == "quick":
        return run_campaigns("C15", seed, 20000, 4, 60, empty_corpus_procs=1)
    return run_campaigns("C15", seed, 400000, 16, 1500, empty_corpus_procs=2)


# ---------------------------------------------------------------------------
# fixed encodings: an empty vector still carries its length prefix
# (RFC 8446 3.4 / RFC 5246 4.3) - the value [] is not the value "absent"
# ---------------------------------------------------------------------------
EMPTY_KAT = {
    "keyshare_c": (lambda: E.ClientKeyShareExtension().create([]),
                   "003300020000", "client_shares"),
    "psk_modes": (lambda: E.PskKeyExchangeModesExtension().create([]),
                  "002d000100", "modes"),
    "groups": (lambda: E.SupportedGroupsExtension().create([]),
               "000a00020000", "groups"),
    "sigalgs": (lambda: E.SignatureAlgorithmsExtension().create([]),
                "000d00020000", "sigalgs"),
    "versions": (lambda: E.SupportedVersionsExtension().create([]),
                 "002b000100", "versions"),
    "alpn": (lambda: E.ALPNExtension().create([]), "001000020000",
             "protocol_names"),
    "ecpf": (lambda: E.ECPointFormatsExtension().create([]), "000b000100",
             "formats"),
    "comp": (lambda: E.CompressedCertificateExtension().create([]),
             "001b000100", "algorithms"),
}


def check_kat(case):
    name = case["name"]
    mk, want, field = EMPTY_KAT[name]
    labels = ["src=kat", "cls=" + name]
    obj = mk()
    got = bytes(obj.write()).hex()
    if got != want:
        return bad("encoding-differs-from-specification:ext:%s:empty" % name,
                   "empty list encodes as %s, the vector syntax gives %s" % (
                       got, want), labels=labels)
    back, p = parse_ext(bytes.fromhex(want), {})
    val = getattr(back, field)
    if val is None or list(val) != []:
        return bad("roundtrip-value-differs:ext:%s:empty" % name,
                   "[] parses back as %r" % (val,), labels=labels)
    return good(labels=labels)


def check_overrun(case):
    """An inner length that reaches beyond the end of its enclosing vector
    (here: cert_data of a TLS 1.3 CertificateEntry beyond certificate_list)
    is a framing error: DecodeError (decode_error on the wire), whatever the
    bytes in between look like."""
    cor = corpus()
    e = cor[case["idx"] % len(cor)]
    data = e["bytes"]
    labels = ["src=overrun"]
    if data[0] != 11 or tuple(e["ctx"]["ver"]) != (3, 4) or len(data) < 20:
        return good(nt=False, labels=labels + ["not-applicable"])
    b = bytearray(data)
    o = 4 + 1 + b[4]                    # certificate_list length field
    ll = int.from_bytes(b[o:o + 3], "big")
    if ll < 10:
        return good(nt=False, labels=labels + ["not-applicable"])
    first = o + 3                       # first entry: cert_data length field
    over = [ll - 2, ll, ll + 1, 0xffffff][case["how"] % 4]
    b[first:first + 3] = over.to_bytes(3, "big")
    labels.append("len=%s" % ["list-2", "list", "list+1", "max"][
        case["how"] % 4])
    try:
        parse_msg(bytes(b), e["ctx"])
    except BadCertificateError as ex:
        return bad("framing-error-reported-as-bad-certificate:certificate",
                   "%s: cert_data length %d in a certificate_list of %d "
                   "bytes: %r" % (e.get("name"), over, ll, ex),
                   labels=labels)
    except DECODE_ERRORS:
        return good(labels=labels)
    return bad("lenient-parse:certificate:overrun",
               "%s: cert_data length %d in a certificate_list of %d bytes "
               "accepted" % (e.get("name"), over, ll), labels=labels)


def _dc_object(spec):
    """DelegatedCredential with independent scheme fields."""
    from tlslite.x509 import DelegatedCredential, Credential
    from tlslite.utils.pem import dePem
    from vlib import ROOT
    pubs = ["serverDelCredRSAPSSPub.pem", "serverDelCredEd25519Pub.pem",
            "serverDelCredSECP256r1Pub.pem", "serverDelCredSECP384r1Pub.pem"]
    pub = dePem(open(os.path.join(ROOT, "assets", "keys",
                                  pubs[spec[1] % 4])).read(), "PUBLIC KEY")
    dc_alg = [(8, 9), (8, 7), (4, 3), (5, 3)][spec[1] % 4]
    alg = [(4, 3), (8, 4), (8, 7), (5, 3), (8, 9)][spec[2] % 5]
    cb = Credential.marshal(spec[3], dc_alg, pub)
    cred = Credential(valid_time=spec[3], dc_cert_verify_algorithm=dc_alg,
                      subject_public_key_info=pub, bytes=cb)
    return DelegatedCredential(cred=cred, algorithm=alg,
                               signature=prg("dcsig", spec[4]))


def check_oversize(case):
    """(2) write() must raise ValueError instead of wrapping a length."""
    what = case["what"]
    labels = ["src=oversize", "cls=" + what]
    try:
        if what == "sid":
            b = M.ClientHello().create((3, 3), prg("r", 32), prg("s", 256),
                                       [0x2f]).write()
        elif what == "alpn_name":
            b = E.ALPNExtension().create([prg("a", 256)]).write()
        elif what == "sni_name":
            b = E.SNIExtension().create(hostNames=[prg("h", 65536)]).write()
        elif what == "cookie":
            b = E.CookieExtension().create(prg("c", 65536)).write()
        elif what == "suites":
            b = M.ClientHello().create((3, 3), prg("r", 32), bytearray(),
                                       [0x2f] * 32768).write()
        elif what == "ticket":
            b = M.NewSessionTicket1_0().create(1, prg("t", 65536)).write()
        elif what == "nonce13":
            b = M.NewSessionTicket().create(1, 1, prg("n", 256),
                                            prg("t", 10), []).write()
        elif what == "npn":
            b = M.NextProtocol().create(prg("n", 256)).write()
        elif what == "groups":
            b = E.SupportedGroupsExtension().create([23] * 32768).write()
        elif what == "psk_binder":
            b = E.PreSharedKeyExtension().create(
                [E.PskIdentity().create(prg("i", 4), 0)],
                [prg("b", 256)]).write()
        elif what == "cv_sig":
            b = M.CertificateVerify((3, 3)).create(prg("s", 65536),
                                                   (4, 1)).write()
        elif what == "ext_payload":
            b = E.TLSExtension(extType=0xff0).create(prg("x",
                                                         65536)).write()
        elif what == "hs_body_2^24":
            # the 24-bit handshake length itself
            b = M.Finished((3, 3)).create(bytearray(1 << 24)).write()
        elif what == "hs_body_2^24+5":
            b = M.CertificateStatus().create(1, bytearray((1 << 24) + 1)
                                             ).write()
        elif what == "hs_body_2^24-1":
            b = M.Finished((3, 3)).create(bytearray((1 << 24) - 1)).write()
            if len(b) == (1 << 24) + 3 and b[:4] == b"\x14\xff\xff\xff":
                return good(labels=labels + ["largest-legal"])
            return bad("largest-handshake-body-misencoded",
                       "header %s for a body of 2^24-1 bytes" % bytes(
                           b[:4]).hex(), labels=labels)
        else:
            b = rec_oversize(what)
            if b is None:
                raise HarnessError(what)
    except ValueError:
        return good(labels=labels + ["ValueError"])
    except OverflowError as e:
        return bad("oversize-raises-%s:%s" % (type(e).__name__, what),
                   repr(e), labels=labels)
    return bad("oversize-wraps:%s" % what,
               "write() produced %d bytes instead of raising ValueError" %
               len(b), labels=labels)


# ---------------------------------------------------------------------------
sizes = st.sampled_from([0, 1, 2, 3, 16, 32, 255, 256, 257])
small = st.sampled_from([0, 1, 2, 5, 32])
u16 = st.one_of(st.sampled_from([0, 1, 23, 29, 255, 256, 0xffff]),
                st.integers(0, 0xffff))
u8 = st.integers(0, 255)
sa = st.tuples(st.integers(0, 8), st.integers(0, 8)).map(list)
# ServerKeyExchange.write() requires a non-zero (hash, signature) pair
sa1 = st.tuples(st.integers(1, 8), st.integers(1, 8)).map(list)


@st.composite
def ext_spec(draw):
    k = draw(st.sampled_from(
        ["sni", "alpn", "groups", "ecpf", "sigalgs", "sigalgs_cert",
         "versions", "srv_version", "keyshare_c", "keyshare_s",
         "keyshare_hrr", "psk", "psk_srv", "psk_modes", "cookie", "rsl",
         "heartbeat", "ticket", "padding", "reneg", "status_request", "npn",
         "srp", "cert_type_c", "cert_type_s", "comp_cert", "generic"]))
    if k == "sni":
        return [k, draw(st.lists(st.tuples(st.sampled_from([0, 0, 1, 255]),
                                           st.sampled_from([1, 5, 255, 300])
                                           ).map(list),
                                 min_size=1, max_size=3))]
    if k in ("alpn", "npn"):
        return [k, draw(st.lists(st.sampled_from([1, 2, 8, 255]),
                                 min_size=1, max_size=4))]
    if k in ("groups",):
        return [k, draw(st.lists(u16, min_size=1, max_size=6))]
    if k in ("ecpf", "psk_modes", "cert_type_c"):
        return [k, draw(st.lists(u8, min_size=1, max_size=4))]
    if k == "comp_cert":
        return [k, draw(st.lists(u16, min_size=1, max_size=3))]
    if k in ("sigalgs", "sigalgs_cert"):
        return [k, draw(st.lists(sa, min_size=1, max_size=6))]
    if k == "versions":
        return [k, draw(st.lists(st.tuples(st.just(3), st.integers(0, 5)
                                           ).map(list),
                                 min_size=1, max_size=5))]
    if k == "srv_version":
        return [k, [3, draw(st.integers(0, 5))]]
    if k == "keyshare_c":
        return [k, draw(st.lists(st.tuples(u16, st.sampled_from(
            [1, 32, 65, 256])).map(list), min_size=0, max_size=3))]
    if k == "keyshare_s":
        return [k, [draw(u16), draw(st.sampled_from([1, 32, 65, 133]))]]
    if k == "keyshare_hrr":
        return [k, draw(u16)]
    if k == "psk":
        n = draw(st.integers(1, 3))
        return [k, [[draw(st.sampled_from([1, 16, 100])),
                     draw(st.integers(0, 2 ** 32 - 1))] for _ in range(n)],
                [draw(st.sampled_from([32, 48, 255])) for _ in range(n)]]
    if k == "psk_srv":
        return [k, draw(u16)]
    if k in ("cookie",):
        return [k, draw(st.sampled_from([1, 2, 32, 255, 256, 1000]))]
    if k in ("ticket", "reneg", "srp"):
        return [k, draw(st.sampled_from([0, 1, 12, 32, 255]))]
    if k == "rsl":
        return [k, draw(u16)]
    if k in ("heartbeat", "cert_type_s"):
        return [k, draw(st.integers(0, 255))]
    if k == "padding":
        return [k, draw(st.sampled_from([0, 1, 100, 512]))]
    if k == "status_request":
        return [k, draw(st.lists(st.sampled_from([1, 20]), max_size=2)),
                draw(st.sampled_from([0, 5]))]
    return ["generic", draw(st.sampled_from([0xff0, 0xffff, 1234])),
            draw(st.sampled_from([0, 1, 40]))]


CH_EXTS = ["sni", "alpn", "groups", "ecpf", "sigalgs", "versions",
           "keyshare_c", "psk_modes", "cookie", "rsl", "heartbeat", "ticket",
           "padding", "reneg", "status_request", "srp", "cert_type_c",
           "comp_cert", "generic", "sigalgs_cert"]


@st.composite
def msg_spec(draw):
    c = draw(st.sampled_from(
        ["client_hello", "server_hello", "cert_request", "ske_dh",
         "ske_ecdh", "ske_srp", "cke_rsa", "cke_dh", "cke_ecdh", "cke_srp",
         "cert_verify", "finished", "nst13", "nst10", "enc_ext",
         "next_protocol", "key_update", "cert_status"]))
    ver = draw(st.sampled_from([[3, 0], [3, 1], [3, 2], [3, 3], [3, 4]]))
    d = {"cls": c, "ver": ver}
    if c == "client_hello":
        exts = draw(st.one_of(st.none(), st.lists(
            ext_spec().filter(lambda e: e[0] in CH_EXTS), max_size=5,
            unique_by=lambda e: e[0])))
        d.update(sid=draw(st.sampled_from([0, 1, 32])),
                 suites=draw(st.lists(u16, min_size=1, max_size=8)),
                 exts=exts)
    elif c == "server_hello":
        d.update(sid=draw(st.sampled_from([0, 32])), suite_sel=draw(u16),
                 exts=draw(st.one_of(st.none(), st.lists(
                     st.sampled_from([["reneg", 0], ["heartbeat", 1],
                                      ["rsl", 512], ["generic", 0xff0, 3],
                                      ["ticket", 0]]), max_size=3,
                     unique_by=lambda e: e[0]))))
    elif c == "cert_request":
        d.update(ctxlen=draw(st.sampled_from([0, 1, 32, 255])),
                 ctypes=draw(st.lists(u8, min_size=1, max_size=4)),
                 cas=draw(st.lists(st.sampled_from([1, 30, 300]),
                                   max_size=3)),
                 sigalgs=draw(st.lists(sa, min_size=1, max_size=5)),
                 exts=draw(st.lists(st.sampled_from(
                     [["sigalgs", [[4, 1], [8, 4]]], ["comp_cert", [1]],
                      ["generic", 0xff0, 2]]), max_size=3,
                     unique_by=lambda e: e[0])))
    elif c in ("ske_dh", "ske_srp"):
        d["ver"] = draw(st.sampled_from([[3, 0], [3, 1], [3, 2], [3, 3]]))
        d.update(pl=draw(st.sampled_from([1, 128, 256])),
                 g=draw(st.sampled_from([2, 5, 65537])),
                 yl=draw(st.sampled_from([1, 127, 128, 256])),
                 sl=draw(st.sampled_from([0, 1, 64, 256])), sa=draw(sa1),
                 saltl=draw(st.sampled_from([0, 1, 16, 255])))
    elif c == "ske_ecdh":
        d["ver"] = draw(st.sampled_from([[3, 1], [3, 2], [3, 3]]))
        d.update(curve=draw(u16), ptl=draw(st.sampled_from([1, 32, 65,
                                                            255])),
                 sl=draw(st.sampled_from([0, 1, 64, 256])), sa=draw(sa1))
    elif c.startswith("cke_"):
        d["ver"] = draw(st.sampled_from([[3, 0], [3, 1], [3, 2], [3, 3]]))
        d["n"] = draw(st.sampled_from([1, 32, 65, 128, 255, 256]))
    elif c == "cert_verify":
        d.update(n=draw(st.sampled_from([0, 1, 64, 256, 512])), sa=draw(sa))
    elif c == "finished":
        d["hl"] = draw(st.sampled_from([32, 48]))
    elif c == "nst13":
        d.update(lifetime=draw(st.integers(0, 2 ** 32 - 1)),
                 age_add=draw(st.integers(0, 2 ** 32 - 1)),
                 noncel=draw(st.sampled_from([0, 1, 8, 255])),
                 tl=draw(st.sampled_from([1, 32, 300])),
                 exts=draw(st.lists(st.just(["generic", 42, 4]),
                                    max_size=1)))
    elif c == "nst10":
        d.update(lifetime=draw(st.integers(0, 2 ** 32 - 1)),
                 tl=draw(st.sampled_from([0, 1, 32, 300])))
    elif c == "enc_ext":
        d["exts"] = draw(st.lists(st.sampled_from(
            [["alpn", [2]], ["rsl", 1000], ["heartbeat", 1],
             ["groups", [23, 24]], ["generic", 0xff0, 0]]), max_size=4,
            unique_by=lambda e: e[0]))
    elif c == "next_protocol":
        d["n"] = draw(st.sampled_from([0, 1, 8, 255]))
    elif c == "key_update":
        d["t"] = draw(st.integers(0, 2))
    elif c == "cert_status":
        d["n"] = draw(st.sampled_from([1, 100, 1000]))
    return d


@st.composite
def rec_spec(draw):
    k = draw(st.sampled_from(sorted(REC_FIELDS)))
    ver = draw(st.sampled_from([[3, 0], [3, 1], [3, 3], [3, 4], [2, 0],
                                [255, 255], [0, 0]]))
    u24s = st.lists(st.one_of(st.sampled_from([0, 1, 0xffffff, 0x010080]),
                              st.integers(0, 0xffffff)), max_size=4)
    if k == "alert":
        return [k, draw(u8), draw(u8)]
    if k == "ccs":
        return [k]
    if k == "rh3":
        return [k, ver, draw(u8), draw(u16)]
    if k == "rh2":
        return [k, draw(st.one_of(st.sampled_from(
            [0, 1, 0xff, 0x100, 0x3fff, 0x4000, 0x7fff]),
            st.integers(0, 0x7fff))), draw(st.sampled_from([0, 0, 1, 7, 255])),
            draw(st.booleans())]
    if k == "hb":
        return [k, draw(u8), draw(sizes), draw(st.sampled_from([0, 16, 17,
                                                                 255]))]
    if k == "stp":
        return [k, draw(st.sampled_from([0, 32, 48, 256])), ver, draw(u16),
                draw(st.one_of(st.sampled_from([0, 1, 2 ** 32, 2 ** 64 - 1]),
                               st.integers(0, 2 ** 64 - 1))),
                draw(st.sampled_from([0, 1, 32, 255])),
                draw(st.sampled_from([0, 0, 1, 2])), draw(st.booleans()),
                draw(st.booleans()), draw(st.sampled_from([0, 0, 1, 11,
                                                           256]))]
    if k == "ch2":
        return [k, ver, draw(u24s), draw(st.sampled_from([0, 16, 32])),
                draw(st.sampled_from([32, 32, 32, 16, 33]))]
    if k == "sh2":
        return [k, draw(u8), draw(u8), ver, draw(sizes), draw(u24s),
                draw(st.sampled_from([0, 16, 32]))]
    if k == "cmk":
        return [k, draw(st.integers(0, 0xffffff)), draw(sizes), draw(sizes),
                draw(st.sampled_from([0, 8, 16]))]
    if k == "dc":
        return [k, draw(st.integers(0, 3)), draw(st.integers(0, 4)),
                draw(st.sampled_from([0, 1, 604800, 2 ** 32 - 1])),
                draw(st.sampled_from([0, 64, 70, 256]))]
    return [k, draw(st.booleans()), draw(st.sampled_from([0, 1, 16, 32]))]


REC_EXPLICIT = [
    ["dc", 1, 0, 604800, 64], ["dc", 0, 2, 1, 256], ["dc", 2, 1, 0, 70],
    ["dc", 3, 4, 2 ** 32 - 1, 64],
    ["alert", 2, 40], ["alert", 1, 0], ["ccs"], ["rh3", [3, 3], 22, 0],
    ["rh3", [3, 1], 23, 0xffff], ["rh2", 0x7fff, 0, False],
    ["rh2", 0x3fff, 7, True], ["rh2", 5, 0, True], ["hb", 1, 0, 16],
    ["hb", 2, 32, 16], ["hb", 1, 3, 0],
    ["stp", 48, [3, 3], 0xc02f, 1700000000, 0, 0, False, False, 0],
    ["stp", 48, [3, 4], 0x1301, 1700000000, 32, 1, False, False, 0],
    ["stp", 48, [3, 3], 0x2f, 5, 0, 0, True, True, 11],
    ["stp", 32, [3, 4], 0x1302, 2 ** 64 - 1, 255, 2, True, False, 256],
    ["ch2", [3, 1], [0x010080, 0x2f, 0xff], 0, 32],
    ["ch2", [0, 2], [0x010080], 16, 32],
    ["sh2", 0, 1, [0, 2], 32, [0x010080, 0x020080], 16],
    ["cmk", 0x010080, 0, 32, 8], ["fin2", True, 16], ["fin2", False, 16],
]


def mut_strategy():
    return st.one_of(
        st.just(["none"]),
        st.tuples(st.just("prefix"), st.integers(0, 5000)).map(list),
        st.just(["append_outside"]), st.just(["append_inside"]),
        st.tuples(st.just("inc"), st.integers(0, 5000),
                  st.booleans()).map(list),
        st.tuples(st.just("len"), st.integers(0, 5000),
                  st.booleans()).map(list),
        st.tuples(st.just("len"), st.integers(0, 5000),
                  st.booleans()).map(list))


@st.composite
def cases(draw, tier):
    src = draw(st.sampled_from(["corpus", "corpus", "msg", "msg", "ext",
                                "rec", "codec", "reuse"]))
    if src == "codec":
        return draw(codec_case())
    if src == "reuse":
        return {"src": "reuse", "mut": ["none"],
                "cls": draw(st.sampled_from(["ske", "generic"])),
                "idx": draw(st.integers(0, 200)),
                "kind": draw(st.sampled_from(["dh", "srp", "ecdh"])),
                "n": draw(st.sampled_from([1, 2, 32, 65, 128, 256]))}
    c = {"src": src, "mut": draw(mut_strategy())}
    if src == "rec":
        c["spec"] = draw(rec_spec())
    elif src == "corpus":
        c["idx"] = draw(st.integers(0, 400))
    elif src == "msg":
        c["spec"] = draw(msg_spec())
    else:
        c["spec"] = draw(ext_spec())
    return c


def strategy(tier):
    return cases(tier)


def budget(tier):
    return 30000 if tier == "quick" else 400000


def explicit(tier, seed):
    n = len(corpus())
    for i in range(n):
        data = corpus()[i]["bytes"]
        yield {"src": "corpus", "idx": i, "mut": ["none"]}
        yield {"src": "corpus", "idx": i, "mut": ["append_outside"]}
        yield {"src": "corpus", "idx": i, "mut": ["append_inside"]}
        L = len(data)
        step = 1 if (L <= 300 or tier == "thorough") else max(1, L // 150)
        for k in range(0, L, step):
            yield {"src": "corpus", "idx": i, "mut": ["prefix", k]}
        for k in range(40 if tier == "quick" else 400):
            yield {"src": "corpus", "idx": i, "mut": ["len", k, True]}
            yield {"src": "corpus", "idx": i, "mut": ["len", k, False]}
        limit = L if (L <= 300 or tier == "thorough") else 120
        for k in range(0, limit):
            yield {"src": "corpus", "idx": i, "mut": ["inc", k, True]}
            yield {"src": "corpus", "idx": i, "mut": ["inc", k, False]}
    for what in ("sid", "alpn_name", "sni_name", "cookie", "suites",
                 "ticket", "nonce13", "npn", "groups", "psk_binder",
                 "cv_sig", "ext_payload", "hs_body_2^24",
                 "hs_body_2^24+5", "hs_body_2^24-1", "rh3_len", "rh2_len",
                 "rh2_len_pad", "alert_desc", "hb_payload", "stp_ms",
                 "stp_nonce", "stp_sn", "cmk_key", "sh2_cert", "ch2_sid"):
        yield {"src": "oversize", "what": what}
    for idx in range(12):
        for kind in ("dh", "srp", "ecdh"):
            for nn in (2, 128, 256):
                yield {"src": "reuse", "mut": ["none"], "cls": "ske",
                       "idx": idx, "kind": kind, "n": nn}
    for idx in range(30):
        for nn in range(3):
            yield {"src": "reuse", "mut": ["none"], "cls": "generic",
                   "idx": idx, "n": nn}
    # truncation inside every kind of list, directly at the codec layer
    for w_ in (1, 2, 3):
        for ll in (1, 2):
            for cnt in (1, 3):
                full = (cnt * w_).to_bytes(ll, "big") + bytes(range(
                    1, cnt * w_ + 1))
                for cut in range(len(full) + 1):
                    yield {"src": "codec", "hex": full[:cut].hex(),
                           "ops": [["varlist", w_, ll]], "adds": [],
                           "mut": ["none"]}
                    yield {"src": "codec", "hex": full[:cut].hex(),
                           "ops": [["var", ll], ["remaining"]], "adds": [],
                           "mut": ["none"]}
    for name in sorted(EMPTY_KAT):
        yield {"src": "kat", "name": name, "mut": ["none"]}
    # saved inputs of earlier findings of the coverage-guided stage
    import json as _json
    from vlib import ROOT as _ROOT
    reg = os.path.join(_ROOT, "assets", "regress", "c15_raw.json")
    if os.path.exists(reg):
        for c in _json.load(open(reg)):
            yield {k: v for k, v in c.items() if k != "note"}
    for i, e in enumerate(corpus()):
        if e["bytes"][0] == 11 and tuple(e["ctx"]["ver"]) == (3, 4):
            for how in range(4):
                yield {"src": "overrun", "idx": i, "how": how,
                       "mut": ["none"]}
    for spec in REC_EXPLICIT:
        try:
            L = len(rec_build(spec).write())
        except ValueError:
            L = 0
        yield {"src": "rec", "spec": spec, "mut": ["none"]}
        yield {"src": "rec", "spec": spec, "mut": ["append_outside"]}
        for k in range(0, min(L, 400)):
            yield {"src": "rec", "spec": spec, "mut": ["prefix", k]}
            yield {"src": "rec", "spec": spec, "mut": ["inc", k, True]}
            yield {"src": "rec", "spec": spec, "mut": ["inc", k, False]}
