"""C03 - both ends of a completed handshake agree on everything, within
both policies.  Oracle: view-vector equality + an independent containment
model evaluated on the raw settings and the IANA table."""
from hypothesis import strategies as st

from vlib.runner import good, bad, HarnessError
from vlib.det import DET
from vlib import scenario as sc
from vlib import iana, lattice, tap
from vlib.driver import describe_exc

from tlslite.errors import TLSLocalAlert, TLSRemoteAlert, TLSAlert, \
    TLSAbruptCloseError
from tlslite.constants import GroupName, SignatureScheme, HashAlgorithm, \
    SignatureAlgorithm

ID = "C03"
LEVEL = "exploration"
RULE = ("case = pair of HandshakeSettings restrictions constructed by "
        "vlib.lattice (version ranges, cipher/MAC/key-exchange/group/"
        "signature lists as subsets with drawn relation equal/nested/"
        "independent, key-size windows, EtM/EMS flags, record_size_limit) x "
        "flavour (certificate with 11 server key types, SRP, SRP+cert, "
        "anonymous) x client auth x ALPN/NPN/SNI; oracle = equality of both "
        "endpoints' view vectors and containment of every negotiated "
        "parameter in both raw policies; a directed grid on the widest "
        "policies varies one dimension at a time (key-size window x every "
        "credential type, single cipher / MAC / key exchange / group / "
        "hash); a third of the cases add a second connection offering the "
        "first one's session (cache, ticket, TLS 1.3 PSK) after one side's "
        "policy was narrowed so that it excludes what was negotiated - "
        "resumed or not, the second connection must lie in the policies in "
        "force; non-trivial = the two policies "
        "differ in at least one dimension and the handshake was attempted "
        "with validated settings; distinct = hash(case)")
ASSUMPTIONS = [
    "settings.versions is derived state; only minVersion/maxVersion are set",
    "containment is asserted only for dimensions the HandshakeSettings "
    "docstring promises to enforce",
    "FFDHE group/parameter size vs minKeySize is reported separately (known "
    "finding) - see known_findings.json",
]
MAX_WALL = {"quick": 240, "thorough": 3000}


def init(tier, seed):
    DET.install()


def view(conn, labels_out=None):
    s = conn.session
    v = {"version": tuple(conn.version),
         "suite": s.cipherSuite,
         "ems": bool(s.extendedMasterSecret),
         "etm_session": bool(s.encryptThenMAC),
         "etm_conn": bool(conn.encryptThenMAC),
         "appProto": bytes(s.appProto or b""),
         "next_proto": bytes(conn.next_proto) if conn.next_proto else None,
         "serverName": s.serverName or "",
         "srp": _text(s.srpUsername),
         }
    if conn.version == (3, 4):
        v["secrets"] = (bytes(s.cl_app_secret), bytes(s.sr_app_secret),
                        bytes(s.exporterMasterSecret),
                        bytes(s.resumptionMasterSecret))
    else:
        v["secrets"] = (bytes(s.masterSecret),)
    if conn.version >= (3, 1):
        v["exporter"] = (bytes(conn.keyingMaterialExporter(
            bytearray(b"EXPORTER-verif"), 37)),
            bytes(conn.keyingMaterialExporter(bytearray(b"x"), 1)))
    for name in ("serverCertChain", "clientCertChain"):
        ch = getattr(s, name)
        v[name] = None if ch is None else tuple(
            bytes(x.bytes) for x in ch.x509List)
    return v


def _text(x):
    if not x:
        return ""
    if isinstance(x, (bytes, bytearray)):
        return bytes(x).decode("utf-8", "replace")
    return str(x)


def differs(c, s):
    out = []
    for k in ("minVersion", "maxVersion", "cipherNames", "macNames",
              "keyExchangeNames", "eccCurves", "dhGroups", "rsaSigHashes",
              "ecdsaSigHashes", "dsaSigHashes", "rsaSchemes",
              "more_sig_schemes", "minKeySize", "maxKeySize",
              "useEncryptThenMAC", "useExtendedMasterSecret",
              "requireExtendedMasterSecret", "record_size_limit"):
        if c.get(k) != s.get(k):
            out.append(k)
    return out


GROUP_NAMES = dict((getattr(GroupName, n), n) for n in dir(GroupName)
                   if not n.startswith("_") and
                   isinstance(getattr(GroupName, n), int))


def check(case):
    DET.reseed("C03", case.get("salt", 0), repr(sorted(case["c"].items()))[:64])
    copts, sopts = lattice.build_opts(case)
    labels = ["flavour=" + case["flavour"]]
    # settings must validate on both sides (constructed to, but measure it)
    try:
        copts["settings"].validate()
        sopts["settings"].validate()
    except ValueError as e:
        return good(nt=False, labels=labels + ["invalid-settings"])
    if case.get("second"):
        from tlslite.api import SessionCache
        case = dict(case)
        case["_cache"] = sopts["sessionCache"] = SessionCache()
        if case["second"].get("tickets"):
            sopts["settings"].ticketKeys = [bytearray(b"K" * 32)]
    p = sc.connect(copts, sopts)
    diff = differs(case["c"], case["s"])
    nt = bool(diff)
    if not p.both_ok:
        labels.append("failed")
        # (c) both calls raised and at least one side saw/sent an alert
        if p.co.ok or p.so.ok:
            # one side believes the handshake completed: allowed only for
            # the side that sent the last flight (unavoidable); the other
            # must have failed with an alert the first side will read next
            done, other = ("c", p.so) if p.co.ok else ("s", p.co)
            labels.append("one-sided:" + done)
            o = sc.do_read(p, done, 10, 1)
            if o.state != "exc":
                return bad("one-side-completes-other-fails:%s" % done,
                           "client %r server %r; later read on completed "
                           "side gave %r" % (p.co, p.so, o), nt=nt,
                           labels=labels)
            return good(nt=nt, labels=labels)
        ce, se = p.co.exc, p.so.exc
        if not (isinstance(ce, (TLSAlert, TLSAbruptCloseError)) or
                isinstance(se, (TLSAlert, TLSAbruptCloseError))):
            from vlib.driver import exc_site
            return bad("fails-without-alert:%s@%s/%s@%s" % (
                type(ce).__name__, exc_site(ce), type(se).__name__,
                exc_site(se)),
                "client %r server %r" % (p.co, p.so), nt=nt, labels=labels)
        if not (isinstance(ce, TLSLocalAlert) or
                isinstance(se, TLSLocalAlert)):
            from vlib.driver import exc_site
            crash = [e for e in (ce, se) if not isinstance(
                e, (TLSAlert, TLSAbruptCloseError, OSError))]
            where = ("%s@%s" % (type(crash[0]).__name__, exc_site(crash[0]))
                     if crash else "%s/%s" % (describe_exc(ce),
                                              describe_exc(se)))
            return bad("fails-without-local-alert:" + where,
                "client %r server %r" % (p.co, p.so), nt=nt, labels=labels)
        labels.append("alert=" + describe_exc(ce if isinstance(
            ce, TLSLocalAlert) else se))
        return good(nt=nt, labels=labels)
    r = contain(p, case["c"], case["s"], case, nt, labels)
    if r is not None:
        return r
    if case.get("second"):
        r = second(p, case, nt, labels)
        if r is not None:
            return r
    return good(nt=nt, labels=labels)


NARROW = ["same", "drop_cipher", "drop_mac", "lower_max", "raise_min",
          "drop_kx", "no_etm", "no_ems", "drop_group", "only_other_cipher"]


def narrowed(pol, how, conn):
    """A copy of ``pol`` that no longer admits what ``conn`` negotiated in
    the named dimension (still a valid policy)."""
    import copy
    q = copy.deepcopy(pol)
    su = iana.SUITES[conn.session.cipherSuite]
    ver = tuple(conn.version)

    def without(key, val, pool):
        rest = [x for x in q[key] if x != val]
        if not rest:
            rest = [x for x in pool if x != val][:2]
        q[key] = rest
    if how == "drop_cipher":
        without("cipherNames", su.cipher_setting, lattice.CIPHERS)
    elif how == "only_other_cipher":
        q["cipherNames"] = [x for x in lattice.CIPHERS
                            if x != su.cipher_setting][:3]
    elif how == "drop_mac":
        without("macNames", su.mac_setting, lattice.MACS)
    elif how == "drop_kx" and not su.tls13:
        without("keyExchangeNames", su.kx_setting, lattice.KX_ALL)
    elif how == "lower_max" and ver > (3, 0):
        q["maxVersion"] = [ver[0], ver[1] - 1]
        q["minVersion"] = min(q["minVersion"], q["maxVersion"])
    elif how == "raise_min" and ver < (3, 4):
        q["minVersion"] = [ver[0], ver[1] + 1]
        q["maxVersion"] = max(q["maxVersion"], q["minVersion"])
    elif how == "no_etm":
        q["useEncryptThenMAC"] = False
    elif how == "no_ems":
        q["useExtendedMasterSecret"] = False
        q["requireExtendedMasterSecret"] = False
    elif how == "drop_group" and conn.ecdhCurve is not None:
        g = GROUP_NAMES.get(conn.ecdhCurve)
        if g in q["eccCurves"]:
            without("eccCurves", g, lattice.CURVES)
        if g in q["dhGroups"]:
            without("dhGroups", g, lattice.DHGROUPS + ["ffdhe4096"])
        q["keyShares"] = [k for k in q.get("keyShares", [])
                          if k in q["eccCurves"] + q["dhGroups"]]
    return q


def second(p, case, nt, labels):
    """A second connection that offers the first one's session while one
    side's policy no longer admits what was negotiated: whatever happens
    (resumption, full handshake, clean failure) must respect the policies
    in force *now*."""
    sec = case["second"]
    how, who = sec["how"], sec["who"]
    if p.c.version == (3, 4) or sec.get("tickets"):
        sc.do_write(p, "s", b"x")
        sc.read_all(p, "c")
    sess = p.c.session
    case2 = dict(case)
    case2["c"] = narrowed(case["c"], how, p.c) if who == "c" else case["c"]
    case2["s"] = narrowed(case["s"], how, p.c) if who == "s" else case["s"]
    copts, sopts = lattice.build_opts(case2)
    try:
        copts["settings"].validate()
        sopts["settings"].validate()
    except ValueError:
        return None
    copts["session"] = sess
    sopts["sessionCache"] = case["_cache"]
    if sec.get("tickets"):
        sopts["settings"].ticketKeys = [bytearray(b"K" * 32)]
    DET.reseed("C03-second", case.get("salt", 0), how, who)
    labels.append("second=%s:%s" % (who, how))
    try:
        p2 = sc.connect(copts, sopts)
    except ValueError:
        # the client API refuses a session that does not fit its settings
        labels.append("second-refused-by-api")
        return None
    if not p2.both_ok:
        ce, se = p2.co.exc, p2.so.exc
        if p2.co.ok or p2.so.ok:
            return None
        if isinstance(ce, ValueError):
            # the client API refuses a session that no longer fits the
            # caller's settings (documented precondition)
            labels.append("second-refused-by-api")
            return None
        if not (isinstance(ce, TLSLocalAlert) or
                isinstance(se, TLSLocalAlert)):
            from vlib.driver import exc_site
            crash = [e for e in (ce, se) if not isinstance(
                e, (TLSAlert, TLSAbruptCloseError, OSError))]
            if crash:
                return bad("second:fails-without-local-alert:%s@%s" % (
                    type(crash[0]).__name__, exc_site(crash[0])),
                    "client %r server %r" % (p2.co, p2.so), nt=nt,
                    labels=labels)
        labels.append("second-failed")
        return None
    resumed = bool(p2.c.resumed)
    labels.append("second-resumed" if resumed else "second-full")
    r = contain(p2, case2["c"], case2["s"], case2, True, labels,
                resumed=resumed)
    if r is not None:
        r.sig = "second:%s:" % ("resumed" if resumed else "full") + r.sig
        r.detail = "after narrowing %s by %s: %s" % (who, how, r.detail)
    return r


def contain(p, cpol, spol, case, nt, labels, resumed=False):
    """agreement + containment of a completed connection; None if fine"""
    labels.append("completed" if not resumed else "completed-resumed")
    # (a) agreement
    vc, vs = view(p.c), view(p.s)
    for k in sorted(vc):
        if resumed and k in ("serverCertChain", "clientCertChain"):
            continue
        if vc[k] != vs[k]:
            return bad("views-differ:%s" % k,
                       "client %r / server %r" % (
                           str(vc[k])[:80], str(vs[k])[:80]), nt=nt,
                       labels=labels)
    # (b) containment
    ver = tuple(p.c.version)
    sid = p.c.session.cipherSuite
    s = iana.SUITES.get(sid)
    if s is None:
        return bad("unknown-suite-negotiated", hex(sid), labels=labels)
    labels.append("ver=" + sc.VERNAME[ver])
    for who, pol in (("client", cpol), ("server", spol)):
        if not (tuple(pol["minVersion"]) <= ver <= tuple(pol["maxVersion"])):
            side = "above-max" if ver > tuple(pol["maxVersion"]) \
                else "below-min"
            return bad("version-outside-policy:%s-%s" % (who, side),
                       "negotiated %r, %s allows %r..%r" % (
                           ver, who, pol["minVersion"], pol["maxVersion"]),
                       nt=nt, labels=labels)
        if s.cipher_setting not in pol["cipherNames"]:
            return bad("cipher-outside-policy:%s" % who,
                       "%s not in %r" % (s.cipher_setting,
                                         pol["cipherNames"]),
                       nt=nt, labels=labels)
        if s.mac_setting not in pol["macNames"]:
            return bad("mac-outside-policy:%s:%s" % (who, s.mac_setting),
                       "%s (%s) with macNames %r" % (
                           s.name, s.mac_setting, pol["macNames"]), nt=nt,
                       labels=labels)
        if not s.tls13 and s.kx_setting not in pol["keyExchangeNames"]:
            return bad("kx-outside-policy:%s" % who,
                       "%s not in %r" % (s.kx_setting,
                                         pol["keyExchangeNames"]),
                       nt=nt, labels=labels)
    if s.defined_in(ver) is False:
        return bad("suite-undefined-in-version", "%s in %r" % (s.name, ver),
                   nt=nt, labels=labels)
    # PSK key-exchange mode (TLS 1.3): the one in use must be on both lists
    if case.get("flavour") == "psk" and ver == (3, 4) and \
            p.c.session.serverCertChain is None and not resumed:
        mode = "psk_dhe_ke" if p.c.ecdhCurve is not None else "psk_ke"
        labels.append("psk-mode=" + mode)
        k = case["psk"]
        for who, lst in (("client", k.get("c_modes")),
                         ("server", k.get("s_modes"))):
            if lst is not None and mode not in lst:
                return bad("psk-mode-outside-policy:%s:%s" % (who, mode),
                           "%s allows %r" % (who, lst), nt=nt, labels=labels)
    # group
    grp = p.c.ecdhCurve
    if grp is not None:
        gname = GROUP_NAMES.get(grp)
        for who, pol in (("client", cpol), ("server", spol)):
            allowed = list(pol["eccCurves"]) + list(pol["dhGroups"])
            if gname not in allowed:
                return bad("group-outside-policy:%s" % who,
                           "%s not in %r" % (gname, allowed), nt=nt,
                           labels=labels)
        labels.append("group=" + str(gname))
    # DH size (<= TLS 1.2)
    dhs = p.c.dhGroupSize
    if dhs is not None:
        c = cpol
        if not (c["minKeySize"] <= dhs <= c["maxKeySize"]):
            return bad("dh-size-outside-client-window",
                       "DH prime of %d bits, client window %d..%d" % (
                           dhs, c["minKeySize"], c["maxKeySize"]), nt=nt,
                       labels=labels)
    # peer key sizes
    for chain_name, pol_name, who in (("serverCertChain", "c", "client"),
                                      ("clientCertChain", "s", "server")):
        ch = getattr(p.c.session, chain_name)
        if ch is None:
            continue
        key = ch.getEndEntityPublicKey()
        alg = ch.x509List[0].certAlg
        pol = case[pol_name]
        if alg in ("rsa", "rsa-pss", "dsa"):
            n = len(key)
            if not (pol["minKeySize"] <= n <= pol["maxKeySize"]):
                return bad("peer-key-size-outside-policy:%s" % who,
                           "%s key of %d bits, window %d..%d" % (
                               alg, n, pol["minKeySize"],
                               pol["maxKeySize"]), nt=nt, labels=labels)
    # signature scheme used by the server (TLS >= 1.2)
    sa = p.c.serverSigAlg
    if sa is not None and ver >= (3, 3):
        err = sig_in_policy(sa, cpol)
        if err:
            return bad("sigalg-outside-client-policy:" + err[0], err[1],
                       nt=nt, labels=labels)
    # EMS / EtM
    ems = bool(p.c.session.extendedMasterSecret)
    if ver < (3, 4):
        if (cpol["requireExtendedMasterSecret"] or
                spol["requireExtendedMasterSecret"]) and not ems:
            return bad("ems-required-but-not-negotiated", "", nt=nt,
                       labels=labels)
        # (a resumed connection inherits the master secret, and with it
        # how that secret was derived: not a new negotiation)
        if ems and not resumed and not (
                cpol["useExtendedMasterSecret"] and
                spol["useExtendedMasterSecret"]):
            return bad("ems-negotiated-against-policy", "", nt=nt,
                       labels=labels)
        etm = bool(p.c.session.encryptThenMAC)
        if etm and not resumed and not (cpol["useEncryptThenMAC"] and
                        spol["useEncryptThenMAC"]):
            return bad("etm-negotiated-against-policy", "", nt=nt,
                       labels=labels)
    # ALPN: negotiated protocol must be offered by both
    ap = bytes(p.c.session.appProto or b"").decode()
    if ap:
        if ap not in (case.get("c_alpn") or []) or \
                ap not in (case.get("s_alpn") or []):
            return bad("alpn-outside-lists", ap, nt=nt, labels=labels)
        labels.append("alpn")
    # record limits: what one side may send is what the other accepts
    if p.c._send_record_limit > p.s._recv_record_limit or \
            p.s._send_record_limit > p.c._recv_record_limit:
        return bad("record-limits-disagree",
                   "client send %d / server recv %d; server send %d / "
                   "client recv %d" % (p.c._send_record_limit,
                                       p.s._recv_record_limit,
                                       p.s._send_record_limit,
                                       p.c._recv_record_limit), nt=nt,
                   labels=labels)
    return None




def sig_in_policy(sa, pol):
    """None if the (hash, sig) / scheme is allowed by the client's lists."""
    if isinstance(sa, tuple):
        h, sig = sa
        hname = HashAlgorithm.toRepr(h)
        if sig == SignatureAlgorithm.rsa:
            if hname not in pol["rsaSigHashes"] and hname != "intrinsic":
                return ("rsa-hash", "%s not in %r" % (hname,
                                                      pol["rsaSigHashes"]))
            if hname != "intrinsic" and "pkcs1" not in pol["rsaSchemes"]:
                return ("rsa-pkcs1", "pkcs1 not in %r" % pol["rsaSchemes"])
            if hname == "intrinsic":
                return None
        elif sig == SignatureAlgorithm.ecdsa:
            if hname not in pol["ecdsaSigHashes"]:
                return ("ecdsa-hash", "%s not in %r" % (
                    hname, pol["ecdsaSigHashes"]))
        elif sig == SignatureAlgorithm.dsa:
            if hname not in pol["dsaSigHashes"]:
                return ("dsa-hash", "%s not in %r" % (
                    hname, pol["dsaSigHashes"]))
        else:
            name = SignatureScheme.toRepr(sa)
            if name is None:
                return None
            return scheme_in_policy(name, pol)
        return None
    return None


def scheme_in_policy(name, pol):
    if name.startswith("rsa_pss"):
        h = name.rsplit("_", 1)[1]
        if "pss" not in pol["rsaSchemes"]:
            return ("rsa-pss", "pss not in %r" % pol["rsaSchemes"])
        if h not in pol["rsaSigHashes"]:
            return ("rsa-pss-hash", "%s not in %r" % (h,
                                                      pol["rsaSigHashes"]))
    elif name in ("ed25519", "ed448"):
        n = {"ed25519": "Ed25519", "ed448": "Ed448"}[name]
        if n not in pol["more_sig_schemes"]:
            return ("eddsa", "%s not in %r" % (n, pol["more_sig_schemes"]))
    elif name.startswith("ecdsa_"):
        h = name.rsplit("_", 1)[1]
        if h not in pol["ecdsaSigHashes"]:
            return ("ecdsa-hash", "%s not in %r" % (h,
                                                    pol["ecdsaSigHashes"]))
    return None


def explicit(tier, seed):
    """Directed grid on top of the widest policies: one dimension varied at
    a time, for every credential type and version."""
    L = lattice
    vers = [((3, 3), (3, 3)), ((3, 4), (3, 4)), ((3, 1), (3, 1))]

    def base(v, cred, ccred=None):
        c, s = L.full_side("client", *v), L.full_side("server", *v)
        case = {"c": c, "s": s, "flavour": "cert", "cred": cred,
                "ccred": ccred, "reqCert": bool(ccred), "c_alpn": None,
                "s_alpn": None, "c_npn": None, "s_npn": None, "sni": None,
                "salt": seed % 4}
        return case
    # key-size window of the verifier x type and size of the peer's key
    for v in vers:
        for lo, hi in L.KEYSIZES:
            for cred in L.SERVER_CREDS:
                case = base(v, cred)
                case["c"]["minKeySize"], case["c"]["maxKeySize"] = lo, hi
                if lo > 2048:
                    # keep the DH group inside the window, so that only the
                    # certificate key decides
                    case["c"]["dhGroups"] = ["ffdhe3072"]
                    case["s"]["dhGroups"] = ["ffdhe3072"]
                if hi < 2048:
                    case["c"]["keyExchangeNames"] = [
                        k for k in L.KX_ALL if not k.startswith("dh")]
                yield case
            for ccred in [x for x in L.CLIENT_CREDS if x]:
                case = base(v, "rsa", ccred)
                case["s"]["minKeySize"], case["s"]["maxKeySize"] = lo, hi
                yield case
    # one cipher / MAC / key exchange / group / hash at a time on one side
    for v in vers[:2]:
        for dim, pool in (("cipherNames", L.CIPHERS), ("macNames", L.MACS),
                          ("keyExchangeNames", L.KX_CERT),
                          ("eccCurves", L.CURVES), ("rsaSigHashes", L.HASHES),
                          ("ecdsaSigHashes", L.HASHES)):
            for x in pool:
                for who in "cs":
                    for cred in ("rsa", "ecdsa"):
                        case = base(v, cred)
                        case[who][dim] = [x]
                        yield case
    # a 1024-bit RSA key cannot produce RSA-PSS with SHA-512: one scheme and
    # one hash at a time on the side that owns the small key
    for v in vers:
        for scheme in (["pss"], ["pkcs1"]):
            for h in L.HASHES:
                case = base(v, "rsa1024")
                case["s"]["rsaSchemes"], case["s"]["rsaSigHashes"] = \
                    scheme, [h]
                yield case
                case = base(v, "rsa", "c_rsa")
                case["c"]["rsaSchemes"], case["c"]["rsaSigHashes"] = \
                    scheme, [h]
                yield case
    # TLS 1.3 only, and nothing TLS 1.3 could sign with (on either side):
    # refused by validate() or failing with an alert, never a crash
    for who in "cs":
        for schemes, rh, eh, more in (
                (["pkcs1"], L.HASHES, ["sha1"], []),
                (["pss"], ["sha1", "sha224"], ["sha224"], []),
                (["pkcs1"], ["sha256"], ["sha1", "sha224"], []),
                (["pkcs1"], ["sha256"], ["sha1"], ["Ed25519"])):
            case = base(((3, 4), (3, 4)), "rsa")
            case[who].update(rsaSchemes=schemes, rsaSigHashes=list(rh),
                             ecdsaSigHashes=eh, more_sig_schemes=more)
            yield case
    # extended master secret / encrypt-then-MAC flags x every version the
    # pair can end up in (SSLv3 knows neither)
    for lo, hi in (((3, 0), (3, 0)), ((3, 0), (3, 1)), ((3, 1), (3, 1)),
                   ((3, 0), (3, 3)), ((3, 3), (3, 3))):
        for cv in (((3, 0), (3, 4)), ((3, 0), (3, 3)), ((3, 0), (3, 1)),
                   ((3, 0), (3, 0)), (lo, hi)):
            for use_c, req_c, use_s, req_s in (
                    (True, False, True, True), (True, True, True, False),
                    (False, False, True, True), (True, True, False, False),
                    (True, False, True, False), (False, False, False, False)):
                case = base((lo, hi), "rsa")
                case["c"]["minVersion"], case["c"]["maxVersion"] = \
                    list(cv[0]), list(cv[1])
                case["c"]["useExtendedMasterSecret"] = use_c
                case["c"]["requireExtendedMasterSecret"] = req_c
                case["s"]["useExtendedMasterSecret"] = use_s
                case["s"]["requireExtendedMasterSecret"] = req_s
                case["c"]["useEncryptThenMAC"] = use_c
                case["s"]["useEncryptThenMAC"] = req_s or use_s
                yield case
    # external PSK: every pair of key-exchange-mode lists
    modes = [["psk_dhe_ke"], ["psk_ke"], ["psk_ke", "psk_dhe_ke"],
             ["psk_dhe_ke", "psk_ke"]]
    for cm in modes:
        for sm in modes:
            for h in ("sha256", "sha384"):
                case = base(((3, 4), (3, 4)), "rsa")
                case["flavour"] = "psk"
                case["psk"] = {"hash": h, "c_hash": h, "same_secret": True,
                               "same_id": True, "c_modes": cm, "s_modes": sm}
                yield case
    # resumption under a narrowed policy, every narrowing x mechanism
    for v in vers:
        for how in NARROW:
            for who in "sc":
                for tickets in (False, True):
                    case = base(v, "rsa")
                    case["second"] = {"how": how, "who": who,
                                      "tickets": tickets}
                    yield case

    # ... and an unchanged policy with asymmetric record_size_limit values:
    # the abbreviated handshake has its own copy of the extension code
    for v in vers:
        for cl, sl in ((8192, 1024), (700, 4096), (2 ** 14 + 1, 64)):
            for tickets in (False, True):
                case = base(v, "rsa")
                case["c"]["record_size_limit"] = cl
                case["s"]["record_size_limit"] = sl
                case["second"] = {"how": "same", "who": "s",
                                  "tickets": tickets}
                yield case


@st.composite
def with_second(draw):
    case = draw(lattice.pair(flavours=("cert", "cert", "cert", "srp")))
    case["second"] = {"how": draw(st.sampled_from(NARROW)),
                      "who": draw(st.sampled_from(["s", "s", "c"])),
                      "tickets": draw(st.booleans())}
    return case


def strategy(tier):
    return st.one_of(lattice.pair(), lattice.pair(), with_second())


def budget(tier):
    return 1600 if tier == "quick" else 40000
