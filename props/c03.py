"""C03 - both ends of a completed handshake agree on everything, within
both policies.  Oracle: view-vector equality + an independent containment
model evaluated on the raw settings and the IANA table."""
from hypothesis import strategies as st

from vlib.runner import good, bad, HarnessError
from vlib.det import DET
from vlib import scenario as sc
from vlib import iana, lattice, tap
from vlib.driver import describe_exc

from tlslite.errors import TLSLocalAlert, TLSRemoteAlert, TLSAlert, \
    TLSAbruptCloseError
from tlslite.constants import GroupName, SignatureScheme, HashAlgorithm, \
    SignatureAlgorithm

ID = "C03"
LEVEL = "exploration"
RULE = ("case = pair of HandshakeSettings restrictions constructed by "
        "vlib.lattice (version ranges, cipher/MAC/key-exchange/group/"
        "signature lists as subsets with drawn relation equal/nested/"
        "independent, key-size windows, EtM/EMS flags, record_size_limit) x "
        "flavour (certificate with 11 server key types, SRP, SRP+cert, "
        "anonymous) x client auth x ALPN/NPN/SNI; oracle = equality of both "
        "endpoints' view vectors and containment of every negotiated "
        "parameter in both raw policies; non-trivial = the two policies "
        "differ in at least one dimension and the handshake was attempted "
        "with validated settings; distinct = hash(case)")
ASSUMPTIONS = [
    "settings.versions is derived state; only minVersion/maxVersion are set",
    "containment is asserted only for dimensions the HandshakeSettings "
    "docstring promises to enforce",
    "FFDHE group/parameter size vs minKeySize is reported separately (known "
    "finding) - see known_findings.json",
]
MAX_WALL = {"quick": 240, "thorough": 3000}


def init(tier, seed):
    DET.install()


def view(conn, labels_out=None):
    s = conn.session
    v = {"version": tuple(conn.version),
         "suite": s.cipherSuite,
         "ems": bool(s.extendedMasterSecret),
         "etm_session": bool(s.encryptThenMAC),
         "etm_conn": bool(conn.encryptThenMAC),
         "appProto": bytes(s.appProto or b""),
         "next_proto": bytes(conn.next_proto) if conn.next_proto else None,
         "serverName": s.serverName or "",
         "srp": _text(s.srpUsername),
         }
    if conn.version == (3, 4):
        v["secrets"] = (bytes(s.cl_app_secret), bytes(s.sr_app_secret),
                        bytes(s.exporterMasterSecret),
                        bytes(s.resumptionMasterSecret))
    else:
        v["secrets"] = (bytes(s.masterSecret),)
    if conn.version >= (3, 1):
        v["exporter"] = (bytes(conn.keyingMaterialExporter(
            bytearray(b"EXPORTER-verif"), 37)),
            bytes(conn.keyingMaterialExporter(bytearray(b"x"), 1)))
    for name in ("serverCertChain", "clientCertChain"):
        ch = getattr(s, name)
        v[name] = None if ch is None else tuple(
            bytes(x.bytes) for x in ch.x509List)
    return v


def _text(x):
    if not x:
        return ""
    if isinstance(x, (bytes, bytearray)):
        return bytes(x).decode("utf-8", "replace")
    return str(x)


def differs(c, s):
    out = []
    for k in ("minVersion", "maxVersion", "cipherNames", "macNames",
              "keyExchangeNames", "eccCurves", "dhGroups", "rsaSigHashes",
              "ecdsaSigHashes", "dsaSigHashes", "rsaSchemes",
              "more_sig_schemes", "minKeySize", "maxKeySize",
              "useEncryptThenMAC", "useExtendedMasterSecret",
              "requireExtendedMasterSecret", "record_size_limit"):
        if c.get(k) != s.get(k):
            out.append(k)
    return out


GROUP_NAMES = dict((getattr(GroupName, n), n) for n in dir(GroupName)
                   if not n.startswith("_") and
                   isinstance(getattr(GroupName, n), int))


def check(case):
    DET.reseed("C03", case.get("salt", 0), repr(sorted(case["c"].items()))[:64])
    copts, sopts = lattice.build_opts(case)
    labels = ["flavour=" + case["flavour"]]
    # settings must validate on both sides (constructed to, but measure it)
    try:
        copts["settings"].validate()
        sopts["settings"].validate()
    except ValueError as e:
        return good(nt=False, labels=labels + ["invalid-settings"])
    p = sc.connect(copts, sopts)
    diff = differs(case["c"], case["s"])
    nt = bool(diff)
    if not p.both_ok:
        labels.append("failed")
        # (c) both calls raised and at least one side saw/sent an alert
        if p.co.ok or p.so.ok:
            # one side believes the handshake completed: allowed only for
            # the side that sent the last flight (unavoidable); the other
            # must have failed with an alert the first side will read next
            done, other = ("c", p.so) if p.co.ok else ("s", p.co)
            labels.append("one-sided:" + done)
            o = sc.do_read(p, done, 10, 1)
            if o.state != "exc":
                return bad("one-side-completes-other-fails:%s" % done,
                           "client %r server %r; later read on completed "
                           "side gave %r" % (p.co, p.so, o), nt=nt,
                           labels=labels)
            return good(nt=nt, labels=labels)
        ce, se = p.co.exc, p.so.exc
        if not (isinstance(ce, (TLSAlert, TLSAbruptCloseError)) or
                isinstance(se, (TLSAlert, TLSAbruptCloseError))):
            from vlib.driver import exc_site
            return bad("fails-without-alert:%s@%s/%s@%s" % (
                type(ce).__name__, exc_site(ce), type(se).__name__,
                exc_site(se)),
                "client %r server %r" % (p.co, p.so), nt=nt, labels=labels)
        if not (isinstance(ce, TLSLocalAlert) or
                isinstance(se, TLSLocalAlert)):
            from vlib.driver import exc_site
            crash = [e for e in (ce, se) if not isinstance(
                e, (TLSAlert, TLSAbruptCloseError, OSError))]
            where = ("%s@%s" % (type(crash[0]).__name__, exc_site(crash[0]))
                     if crash else "%s/%s" % (describe_exc(ce),
                                              describe_exc(se)))
            return bad("fails-without-local-alert:" + where,
                "client %r server %r" % (p.co, p.so), nt=nt, labels=labels)
        labels.append("alert=" + describe_exc(ce if isinstance(
            ce, TLSLocalAlert) else se))
        return good(nt=nt, labels=labels)
    labels.append("completed")
    # (a) agreement
    vc, vs = view(p.c), view(p.s)
    for k in sorted(vc):
        if vc[k] != vs[k]:
            return bad("views-differ:%s" % k,
                       "client %r / server %r" % (
                           str(vc[k])[:80], str(vs[k])[:80]), nt=nt,
                       labels=labels)
    # (b) containment
    ver = tuple(p.c.version)
    sid = p.c.session.cipherSuite
    s = iana.SUITES.get(sid)
    if s is None:
        return bad("unknown-suite-negotiated", hex(sid), labels=labels)
    labels.append("ver=" + sc.VERNAME[ver])
    for who, pol in (("client", case["c"]), ("server", case["s"])):
        if not (tuple(pol["minVersion"]) <= ver <= tuple(pol["maxVersion"])):
            side = "above-max" if ver > tuple(pol["maxVersion"]) \
                else "below-min"
            return bad("version-outside-policy:%s-%s" % (who, side),
                       "negotiated %r, %s allows %r..%r" % (
                           ver, who, pol["minVersion"], pol["maxVersion"]),
                       nt=nt, labels=labels)
        if s.cipher_setting not in pol["cipherNames"]:
            return bad("cipher-outside-policy:%s" % who,
                       "%s not in %r" % (s.cipher_setting,
                                         pol["cipherNames"]),
                       nt=nt, labels=labels)
        if s.mac_setting not in pol["macNames"]:
            return bad("mac-outside-policy:%s:%s" % (who, s.mac_setting),
                       "%s (%s) with macNames %r" % (
                           s.name, s.mac_setting, pol["macNames"]), nt=nt,
                       labels=labels)
        if not s.tls13 and s.kx_setting not in pol["keyExchangeNames"]:
            return bad("kx-outside-policy:%s" % who,
                       "%s not in %r" % (s.kx_setting,
                                         pol["keyExchangeNames"]),
                       nt=nt, labels=labels)
    if s.defined_in(ver) is False:
        return bad("suite-undefined-in-version", "%s in %r" % (s.name, ver),
                   nt=nt, labels=labels)
    # group
    grp = p.c.ecdhCurve
    if grp is not None:
        gname = GROUP_NAMES.get(grp)
        for who, pol in (("client", case["c"]), ("server", case["s"])):
            allowed = list(pol["eccCurves"]) + list(pol["dhGroups"])
            if gname not in allowed:
                return bad("group-outside-policy:%s" % who,
                           "%s not in %r" % (gname, allowed), nt=nt,
                           labels=labels)
        labels.append("group=" + str(gname))
    # DH size (<= TLS 1.2)
    dhs = p.c.dhGroupSize
    if dhs is not None:
        c = case["c"]
        if not (c["minKeySize"] <= dhs <= c["maxKeySize"]):
            return bad("dh-size-outside-client-window",
                       "DH prime of %d bits, client window %d..%d" % (
                           dhs, c["minKeySize"], c["maxKeySize"]), nt=nt,
                       labels=labels)
    # peer key sizes
    for chain_name, pol_name, who in (("serverCertChain", "c", "client"),
                                      ("clientCertChain", "s", "server")):
        ch = getattr(p.c.session, chain_name)
        if ch is None:
            continue
        key = ch.getEndEntityPublicKey()
        alg = ch.x509List[0].certAlg
        pol = case[pol_name]
        if alg in ("rsa", "rsa-pss", "dsa"):
            n = len(key)
            if not (pol["minKeySize"] <= n <= pol["maxKeySize"]):
                return bad("peer-key-size-outside-policy:%s" % who,
                           "%s key of %d bits, window %d..%d" % (
                               alg, n, pol["minKeySize"],
                               pol["maxKeySize"]), nt=nt, labels=labels)
    # signature scheme used by the server (TLS >= 1.2)
    sa = p.c.serverSigAlg
    if sa is not None and ver >= (3, 3):
        err = sig_in_policy(sa, case["c"])
        if err:
            return bad("sigalg-outside-client-policy:" + err[0], err[1],
                       nt=nt, labels=labels)
    # EMS / EtM
    ems = bool(p.c.session.extendedMasterSecret)
    if ver < (3, 4):
        if (case["c"]["requireExtendedMasterSecret"] or
                case["s"]["requireExtendedMasterSecret"]) and not ems:
            return bad("ems-required-but-not-negotiated", "", nt=nt,
                       labels=labels)
        if ems and not (case["c"]["useExtendedMasterSecret"] and
                        case["s"]["useExtendedMasterSecret"]):
            return bad("ems-negotiated-against-policy", "", nt=nt,
                       labels=labels)
        etm = bool(p.c.session.encryptThenMAC)
        if etm and not (case["c"]["useEncryptThenMAC"] and
                        case["s"]["useEncryptThenMAC"]):
            return bad("etm-negotiated-against-policy", "", nt=nt,
                       labels=labels)
    # ALPN: negotiated protocol must be offered by both
    ap = bytes(p.c.session.appProto or b"").decode()
    if ap:
        if ap not in (case.get("c_alpn") or []) or \
                ap not in (case.get("s_alpn") or []):
            return bad("alpn-outside-lists", ap, nt=nt, labels=labels)
        labels.append("alpn")
    # record limits: what one side may send is what the other accepts
    if p.c._send_record_limit > p.s._recv_record_limit or \
            p.s._send_record_limit > p.c._recv_record_limit:
        return bad("record-limits-disagree",
                   "client send %d / server recv %d; server send %d / "
                   "client recv %d" % (p.c._send_record_limit,
                                       p.s._recv_record_limit,
                                       p.s._send_record_limit,
                                       p.c._recv_record_limit), nt=nt,
                   labels=labels)
    return good(nt=nt, labels=labels)


def sig_in_policy(sa, pol):
    """None if the (hash, sig) / scheme is allowed by the client's lists."""
    if isinstance(sa, tuple):
        h, sig = sa
        hname = HashAlgorithm.toRepr(h)
        if sig == SignatureAlgorithm.rsa:
            if hname not in pol["rsaSigHashes"] and hname != "intrinsic":
                return ("rsa-hash", "%s not in %r" % (hname,
                                                      pol["rsaSigHashes"]))
            if hname != "intrinsic" and "pkcs1" not in pol["rsaSchemes"]:
                return ("rsa-pkcs1", "pkcs1 not in %r" % pol["rsaSchemes"])
            if hname == "intrinsic":
                return None
        elif sig == SignatureAlgorithm.ecdsa:
            if hname not in pol["ecdsaSigHashes"]:
                return ("ecdsa-hash", "%s not in %r" % (
                    hname, pol["ecdsaSigHashes"]))
        elif sig == SignatureAlgorithm.dsa:
            if hname not in pol["dsaSigHashes"]:
                return ("dsa-hash", "%s not in %r" % (
                    hname, pol["dsaSigHashes"]))
        else:
            name = SignatureScheme.toRepr(sa)
            if name is None:
                return None
            return scheme_in_policy(name, pol)
        return None
    return None


def scheme_in_policy(name, pol):
    if name.startswith("rsa_pss"):
        h = name.rsplit("_", 1)[1]
        if "pss" not in pol["rsaSchemes"]:
            return ("rsa-pss", "pss not in %r" % pol["rsaSchemes"])
        if h not in pol["rsaSigHashes"]:
            return ("rsa-pss-hash", "%s not in %r" % (h,
                                                      pol["rsaSigHashes"]))
    elif name in ("ed25519", "ed448"):
        n = {"ed25519": "Ed25519", "ed448": "Ed448"}[name]
        if n not in pol["more_sig_schemes"]:
            return ("eddsa", "%s not in %r" % (n, pol["more_sig_schemes"]))
    elif name.startswith("ecdsa_"):
        h = name.rsplit("_", 1)[1]
        if h not in pol["ecdsaSigHashes"]:
            return ("ecdsa-hash", "%s not in %r" % (h,
                                                    pol["ecdsaSigHashes"]))
    return None


def strategy(tier):
    return lattice.pair()


def budget(tier):
    return 1600 if tier == "quick" else 40000
