"""C02 - a record is accepted only if it is exactly what the peer sent next.

Level B: two real endpoints after a pinned handshake; the honest sender's
records are captured, an attacker transformation is applied and the result
injected; the receiver must accept exactly the honest prefix and reject the
first deviating record fatally.
Level A: a tlslite RecordLayer keyed directly, fed by the *reference sender*
(legal records with any padding must be accepted bit-exactly; insider
malformations must raise the documented exceptions)."""
import hashlib

from hypothesis import strategies as st

from vlib.runner import good, bad, HarnessError, BaselineBroken, inconclusive
from vlib.det import DET
from vlib import scenario as sc
from vlib import iana
from vlib.wire import records
from vlib.driver import drive, describe_exc
from vlib.rl import RL, ref_pair
from vlib.refs import record as rr
from props.c01 import triples, prg

from tlslite.errors import (TLSLocalAlert, TLSRemoteAlert, TLSBadRecordMAC,
                            TLSDecryptionFailed, TLSRecordOverflow,
                            TLSIllegalParameterException,
                            TLSUnexpectedMessage, TLSAbruptCloseError)
from tlslite.constants import AlertDescription as AD

ID = "C02"
LEVEL = "fault_enumeration"
RULE = ("per (suite, version, EtM) triple an honest sender emits 1-4 "
        "records (application data incl. empty, TLS 1.3 KeyUpdate); each "
        "case applies one attacker transformation (bit flip at a header/"
        "IV/body/tag position class, truncation/extension with or without "
        "length fix-up, splice, replay, swap, drop-then-continue, "
        "reflection, cross-connection, forged plaintext alert/CCS, unknown "
        "content type) to the captured stream; explicit grid = every triple "
        "x fixed transformation set, plus Hypothesis-drawn cases; level A "
        "feeds a directly keyed RecordLayer from the reference sender "
        "(legal paddings accepted; insider malformations rejected: bad "
        "padding byte, bit flip behind maximal padding, correct MAC over a "
        "ciphertext too short for IV/padding/MAC, SSLv3 padding beyond one "
        "block); level H splices an unprotected alert / handshake / "
        "application-data record into the protected part of the handshake "
        "at every record position (sender record size lowered so that the "
        "flight spans many records). "
        "non-trivial = the delivered byte stream differs from the honest "
        "one in a byte the receiver parses; distinct = hash(case)")
ASSUMPTIONS = [
    "transformations that leave only an incomplete record after the honest "
    "prefix are 'blocked' (no verdict; truncation of the stream is C17)",
    "reference sender/receiver validated in C09's self-test",
]
MAX_WALL = {"quick": 200, "thorough": 3000}

FATAL_OK = set([AD.bad_record_mac, AD.decryption_failed, AD.decode_error,
                AD.record_overflow, AD.unexpected_message,
                AD.illegal_parameter, AD.decrypt_error,
                AD.protocol_version])

TRANSFORMS = ["flip", "trunc", "extend", "splice", "replay", "replay_later",
              "swap", "drop",
              "reflect", "foreign", "plain_alert", "plain_ccs",
              "unknown_type", "empty_record", "zero_fill"]


def init(tier, seed):
    DET.install()


def vclass(v):
    return sc.VERNAME[tuple(v)]


def honest_records(p, side, items, salt):
    """Make ``side`` emit records for items; returns (list of record bytes,
    list of (kind, payload))."""
    link = p.link
    link.hold[side] = True
    conn = p.conn(side)
    plain = []
    for i, it in enumerate(items):
        if it[0] == "d":
            data = prg(b"C02/%d/%d" % (salt, i), it[1])
            o = sc.do_write(p, side, data)
            plain.append(("d", data))
        elif it[0] == "ku":
            outs, _ = drive({side: conn.send_keyupdate_request(0)}, link,
                            on_stall="leave")
            o = outs[side]
            plain.append(("ku", b""))
        else:
            raise HarnessError(it)
        if not o.ok:
            raise BaselineBroken("honest-sender", repr(o))
    raw = bytes(link.out[side].q)
    del link.out[side].q[:]
    recs, end = records(raw)
    if end != len(raw):
        raise HarnessError("honest stream does not frame")
    link.hold[side] = False
    return [r["hdr"] + r["body"] for r in recs], plain


def expected_plain(plain, v, suite):
    """Application bytes per honest record, in record order, as a flat list
    aligned with the records the sender emits."""
    out = []
    return out


def apply_transform(case, H, ctx):
    """Returns the delivered byte string and a description."""
    t = case["t"]
    i = case.get("i", 0) % len(H)
    R = bytearray(H[i])
    D = [bytes(x) for x in H]
    if t == "flip":
        pos = case["pos"]
        n = len(R)
        idx = {"type": 0, "ver_major": 1, "ver_minor": 2, "len_hi": 3,
               "len_lo": 4, "body_first": 5, "body_mid": 5 + (n - 5) // 2,
               "body_last": n - 1, "tag_first": max(5, n - 16),
               "iv_last": min(n - 1, 5 + 15)}.get(pos)
        if idx is None:
            idx = 5 + case.get("off", 0) % max(1, n - 5)
        if idx >= n:
            return None
        R[idx] ^= case.get("mask", 1) or 1
        D[i] = bytes(R)
    elif t == "trunc":
        k = 1 + case.get("n", 0) % max(1, min(len(R) - 5, 40))
        if len(R) - 5 < k:
            return None
        body = R[5:len(R) - k]
        if case.get("fix", True):
            D[i] = bytes(R[:3]) + len(body).to_bytes(2, "big") + bytes(body)
        else:
            D[i] = bytes(R[:5]) + bytes(body)
    elif t == "extend":
        k = 1 + case.get("n", 0) % 40
        extra = prg(b"ext", k)
        body = bytes(R[5:]) + extra
        if case.get("fix", True):
            D[i] = bytes(R[:3]) + len(body).to_bytes(2, "big") + body
        else:
            D[i] = bytes(R) + extra
    elif t == "splice":
        j = (i + 1) % len(H)
        if j == i:
            return None
        A, B = H[i], H[j]
        cut = 5 + case.get("n", 0) % max(1, min(len(A), len(B)) - 5)
        body = A[5:cut] + B[cut:]
        D[i] = A[:3] + len(body).to_bytes(2, "big") + body
    elif t == "replay":
        D.insert(i + 1, D[i])
    elif t == "replay_later":
        # ... or further down the stream (behind a KeyUpdate: the same
        # sequence number in the next key epoch)
        D.insert(i + 1 + case.get("n", 0) % (len(D) - i), D[i])
    elif t == "swap":
        if len(H) < 2:
            return None
        i = i % (len(H) - 1)
        D[i], D[i + 1] = D[i + 1], D[i]
    elif t == "drop":
        if len(H) < 2:
            return None
        i = i % (len(H) - 1)
        del D[i]
    elif t == "reflect":
        if not ctx.get("reflect"):
            return None
        D.insert(i, ctx["reflect"])
    elif t == "foreign":
        if not ctx.get("foreign"):
            return None
        D.insert(i, ctx["foreign"])
    elif t == "plain_alert":
        lvl, desc = case.get("alert", [1, 0])
        D.insert(i, bytes([21, R[1], R[2], 0, 2, lvl, desc]))
    elif t == "plain_ccs":
        D.insert(i, bytes([20, R[1], R[2], 0, 1, 1]))
    elif t == "unknown_type":
        R[0] = case.get("ctype", 0x80)
        D[i] = bytes(R)
    elif t == "empty_record":
        D.insert(i, bytes([case.get("ctype", 23), R[1], R[2], 0, 0]))
    elif t == "zero_fill":
        D[i] = bytes(R[:5]) + b"\x00" * (len(R) - 5)
    else:
        raise HarnessError(t)
    return b"".join(D)


def check_hs(case):
    """Level H: a record spliced into the *handshake* once the victim's
    read direction is protected. The forged record is unprotected (alert,
    handshake bytes, application data); the peer never sent it, so it must
    not be acted upon: the victim has to end with a locally raised alert,
    never with the forged alert's meaning, a clean close or a completed
    handshake."""
    v = tuple(case["ver"])
    vic = case["dir"]                   # victim = receiver
    src = "s" if vic == "c" else "c"
    k = case["k"]
    labels = ["H", "ver=" + vclass(v), "vic=" + vic, "forged=" + case["f"]]
    kw = dict(minVersion=v, maxVersion=v)
    copts = {"settings": sc.mk_settings(**kw)}
    sopts = {"settings": sc.mk_settings(**kw), "cred": "rsa"}
    if case.get("auth"):
        sopts["reqCert"] = True
        copts["cred"] = "c_rsa"
    state = {"prot": 0, "done": False, "seen_ccs": False}
    lvl, desc = case.get("alert", [2, 40])
    forged = {"alert": bytes([21, 3, 3, 0, 2, lvl, desc]),
              "hs": bytes([22, 3, 3, 0, 4, 0, 0, 0, 0]),
              "appdata": bytes([23, 3, 3, 0, 5]) + b"hello",
              "alert1": bytes([21, 3, 3, 0, 1, lvl])}[case["f"]]
    if v < (3, 4):
        forged = forged[:1] + bytes(v) + forged[3:]

    def mitm(direction, idx, rec):
        raw = rec["hdr"] + rec["body"]
        if direction != src + "2" + vic:
            return [raw]
        if state["done"]:
            return []
        if v == (3, 4):
            protected = rec["type"] == 23
        else:
            protected = state["seen_ccs"]
            if rec["type"] == 20:
                state["seen_ccs"] = True
        if not protected:
            return [raw]
        if state["prot"] == k:
            state["done"] = True
            return [forged]
        state["prot"] += 1
        return [raw]
    DET.reseed("C02-H", v, vic, case.get("auth"))
    rs = case.get("rs")

    def prepare(cc, scn):
        # a small sender record size splits the protected flight into many
        # records, so every k is a real position
        if rs:
            (cc if src == "c" else scn).recordSize = rs
    p = sc.connect(copts, sopts, mitm=mitm, prepare=prepare)
    if not state["done"]:
        return good(nt=False, labels=labels + ["not-reached"])
    out = p.co if vic == "c" else p.so
    labels.append("k=%d" % k)
    if v == (3, 4) and k == 0 and case["f"] in ("alert", "alert1"):
        # the first record of the handshake epoch may legitimately be an
        # unprotected alert (the peer may have failed before it had keys)
        return good(nt=False, labels=labels + ["either"])
    if out.ok:
        return bad("forged-handshake-record-ignored:%s:%s" % (
            vclass(v), case["f"]),
            "victim %s completed the handshake although record %d of the "
            "protected flight was replaced by %s" % (vic, k, forged.hex()),
            labels=labels)
    e = out.exc
    if isinstance(e, TLSLocalAlert):
        return good(labels=labels + ["local=" + str(e.description)])
    if isinstance(e, TLSRemoteAlert) or e is None:
        return bad("forged-plaintext-record-accepted:%s:%s" % (
            vclass(v), case["f"]),
            "victim %s acted on the unprotected record %s spliced in as "
            "protected record %d: %s" % (vic, forged.hex(), k,
                                         describe_exc(e) if e else out),
            labels=labels)
    if isinstance(e, (TLSAbruptCloseError,)):
        # the victim waits for more and sees our EOF: it did not accept it
        return good(labels=labels + ["eof"])
    return bad("forged-handshake-record:%s" % type(e).__name__,
               describe_exc(e), labels=labels)


def check_early(case):
    """Level E: records the server cannot decrypt while it is prepared to
    skip rejected 0-RTT data. Only max_early_data bytes *in total* may be
    dropped silently; beyond that the garbage must end the connection."""
    from vlib.deviant import Deviant
    from vlib import tap
    n, sz, M = case["n"], case["size"], case["budget"]
    labels = ["E", "n=%d" % n, "size=%d" % sz]
    k1, k2 = bytearray(b"1" * 32), bytearray(b"2" * 32)
    st_ = dict(minVersion=(3, 4), maxVersion=(3, 4))
    DET.reseed("C02-E", n, sz)
    p0 = sc.connect({"settings": sc.mk_settings(**st_)},
                    {"cred": "rsa", "settings": sc.mk_settings(
                        ticketKeys=[k1], **st_)})
    if not p0.both_ok:
        raise BaselineBroken("early:first", "%r %r" % (p0.co, p0.so))
    sc.do_write(p0, "s", b"x")
    sc.read_all(p0, "c")
    state = {}

    def fn(dev, idx, ct, data):
        if ct != 22 or data[0] != 1 or state.get("done"):
            return None
        h = tap.parse_client_hello(data[4:])
        exts = tap.ext_list(h)
        if not exts or exts[-1][0] != 41:
            return None
        state["done"] = True
        exts.insert(len(exts) - 1, (42, b""))       # early_data
        return [(ct, tap.build_client_hello(h["version"], h["random"],
                                            h["session_id"], h["suites"],
                                            exts))]

    srv12 = case.get("srv12")
    frag = case.get("frag") and not srv12

    def mitm(direction, idx, rec):
        raw = rec["hdr"] + rec["body"]
        junk = [bytes([23 if not srv12 else 22, 3, 3]) +
                sz.to_bytes(2, "big") + prg(b"early%d" % i, sz)
                for i in range(n)]
        if direction == "c2s" and not state.get("inj") and frag:
            # behind the first *protected* fragment of the client's flight
            # (with a compatibility CCS in between): the server has read
            # with the handshake keys, nothing may be skipped any more
            if rec["type"] == 23:
                state["inj"] = True
                return [raw, b"\x14\x03\x03\x00\x01\x01"] + junk
            return [raw]
        if direction == "c2s" and not state.get("inj"):
            if not srv12 and idx == 0:
                state["inj"] = True
                return [raw] + junk
            if srv12 and rec["type"] == 20:
                # the server settled for TLS 1.2: behind the client's CCS
                # nothing may be skipped any more
                state["inj"] = True
                return [raw] + junk
        return [raw]

    def prepare(cc, scn):
        Deviant(cc, fn)
        if frag:
            cc.recordSize = 20      # the client's Finished spans records
    cst = dict(st_)
    sst = dict(st_)
    if srv12:
        cst["minVersion"] = (3, 3)
        sst["minVersion"] = sst["maxVersion"] = (3, 3)
        labels.append("server-tls12")
    p = sc.connect({"settings": sc.mk_settings(**cst),
                    "session": p0.c.session},
                   {"cred": "rsa", "settings": sc.mk_settings(
                       ticketKeys=[k2], max_early_data=M, **sst)},
                   mitm=mitm, prepare=prepare)
    if not state.get("done") or not state.get("inj"):
        return good(nt=False, labels=labels + ["not-applied"])
    total = n * sz
    if srv12:
        srv = describe_exc(p.so.exc) if p.so.exc else p.so.state
        labels.append("server=" + srv)
        if p.so.ok or not isinstance(p.so.exc, TLSLocalAlert):
            return bad("undecryptable-record-skipped:tls12-after-ccs",
                       "ClientHello offered TLS 1.3 + PSK + early_data, the "
                       "server negotiated TLS 1.2; %d forged record(s) behind "
                       "the client's ChangeCipherSpec: server ended with %s"
                       % (n, srv), labels=labels)
        return good(labels=labels)
    srv = describe_exc(p.so.exc) if p.so.exc else p.so.state
    labels.append("server=" + srv)
    if frag:
        labels.append("after-protected-fragment")
        if p.so.ok or not isinstance(p.so.exc, TLSLocalAlert):
            return bad("undecryptable-record-skipped:after-protected-record",
                       "%d forged record(s) of %d bytes (and a CCS) between "
                       "two fragments of the client's protected flight: "
                       "server ended with %s" % (n, sz, srv), labels=labels)
        return good(labels=labels)
    if total >= 2 * M:
        if p.so.ok or not isinstance(p.so.exc, TLSLocalAlert):
            return bad("undecryptable-records-skipped-beyond-budget",
                       "%d records of %d bytes (total %d) against "
                       "max_early_data %d: server ended with %s" % (
                           n, sz, total, M, srv), labels=labels)
        return good(labels=labels + ["over-budget-rejected"])
    if p.so.state == "exc" and not isinstance(
            p.so.exc, (TLSLocalAlert, TLSRemoteAlert, TLSAbruptCloseError)):
        return bad("early-data-skip:%s" % type(p.so.exc).__name__, srv,
                   labels=labels)
    return good(nt=total > 0, labels=labels + ["within-budget"])


def check(case):
    if case.get("level") == "A":
        return check_rl(case)
    if case.get("level") == "E":
        return check_early(case)
    if case.get("level") == "H":
        return check_hs(case)
    sid, v, etm = case["suite"], tuple(case["ver"]), case["etm"]
    suite = iana.SUITES[sid]
    salt = case.get("salt", 0)
    labels = ["B", "ver=" + vclass(v), "kind=" + suite.kind, "t=" + case["t"]]
    pin_kw = {}
    if case.get("hrr") and v == (3, 4):
        # the handshake goes through a HelloRetryRequest (the client's
        # compatibility CCS then precedes its second ClientHello)
        pin_kw = {"c_extra": {"keyShares": ["x25519"],
                              "eccCurves": ["x25519", "secp256r1"]},
                  "s_extra": {"eccCurves": ["secp256r1", "secp384r1"],
                              "keyShares": ["secp256r1"]}}
        labels.append("hrr")
    DET.reseed("C02", sid, v, etm, salt)
    copts, sopts = sc.pin(suite, v, etm=etm, **pin_kw)
    p = sc.connect(copts, sopts)
    if not p.both_ok:
        raise BaselineBroken("pinned-handshake:%04x:%s" % (sid, sc.VERNAME[v]), "%r %r" % (p.co, p.so))
    side = case["dir"]              # sender
    dst = "s" if side == "c" else "c"
    items = [it for it in case["items"] if it[0] != "ku" or v == (3, 4)]
    if not items:
        items = [["d", 7]]
    ctx = {}
    if case["t"] == "reflect":
        # a record the *receiver* sent earlier in the opposite direction
        p.link.hold[dst] = True
        o = sc.do_write(p, dst, prg(b"reflect", 33))
        raw = bytes(p.link.out[dst].q)
        recs, _ = records(raw)
        ctx["reflect"] = recs[-1]["hdr"] + recs[-1]["body"]
        # deliver it honestly afterwards so both ends stay in step
        p.link.hold[dst] = False
        p.link.pump()
        sc.read_all(p, side)
    if case["t"] == "foreign":
        DET.reseed("C02-foreign", sid, v, etm, salt)
        c2, s2 = sc.pin(suite, v, etm=etm, **pin_kw)
        q = sc.connect(c2, s2)
        fr, _ = honest_records(q, side, [["d", 20]], salt + 1)
        ctx["foreign"] = fr[-1]
        DET.current = "main"
    H, plain = honest_records(p, side, items, salt)
    honest = b"".join(H)
    delivered = apply_transform(case, H, ctx)
    if delivered is None:
        return good(nt=False, labels=labels + ["not-applicable"])
    if delivered == honest:
        return good(nt=False, labels=labels + ["identity"])
    # model: accepted prefix = common leading records
    Drecs, dend = records(delivered)
    Dl = [r["hdr"] + r["body"] for r in Drecs]
    k = 0
    while k < len(Dl) and k < len(H) and Dl[k] == H[k]:
        k += 1
    # application bytes carried by the first k honest records: the honest
    # sender may split one write over several records, so recover the
    # per-record plaintext with the reference receiver? Not needed: compare
    # the received byte string with a prefix of all honest data and bound
    # it by record count through a second honest run (below).
    all_data = b"".join(d for kind, d in plain if kind == "d")
    # how much application data the first k records carry: replay honest
    # prefix into a fresh identical pair
    exp_prefix = None
    if k > 0:
        DET.reseed("C02", sid, v, etm, salt)
        c2, s2 = sc.pin(suite, v, etm=etm, **pin_kw)
        q = sc.connect(c2, s2)
        if case["t"] == "reflect":
            q.link.hold[dst] = True
            sc.do_write(q, dst, prg(b"reflect", 33))
            q.link.hold[dst] = False
            q.link.pump()
            sc.read_all(q, side)
        H2, _ = honest_records(q, side, items, salt)
        if H2 != H:
            raise HarnessError("honest run is not reproducible")
        q.link.inject(dst, b"".join(H[:k]))
        exp_prefix, last = sc.read_all(q, dst)
        if last is not None and last.state == "exc":
            raise BaselineBroken("honest-prefix-rejected", repr(last))
    else:
        exp_prefix = b""
    deviating = k < len(Dl) or (dend < len(delivered) and False)
    first_bad = Dl[k] if k < len(Dl) else None
    # deliver to the real receiver
    p.link.inject(dst, delivered)
    got = bytearray()
    final = None
    conn = p.conn(dst)
    for _ in range(64):
        o = sc.do_read(p, dst, 1 << 20, 1)
        if o.state == "done" and o.value:
            got += o.value
            continue
        final = o
        break
    got = bytes(got)
    sig_base = "%s:%s:%s" % (vclass(v) if v in ((3, 0), (3, 4)) else "tls",
                             suite.kind + ("+etm" if etm and
                                           suite.kind == "cbc" else ""),
                             case["t"] + (":" + case["pos"]
                                          if case["t"] == "flip" else ""))
    if not all_data.startswith(got):
        return bad("data-not-a-prefix:" + sig_base,
                   "receiver returned %d bytes that are not a prefix of the "
                   "%d sent" % (len(got), len(all_data)), labels=labels)
    if first_bad is None:
        # only an incomplete tail deviates: receiver is blocked
        if got != exp_prefix:
            return bad("prefix-data-differs:" + sig_base,
                       "got %d bytes expected %d" % (len(got),
                                                     len(exp_prefix)),
                       labels=labels)
        return good(nt=True, labels=labels + ["blocked-tail"])
    labels.append("deviating-record")
    if got != exp_prefix:
        return bad("accepted-beyond-prefix:" + sig_base,
                   "receiver returned %d application bytes, the honest "
                   "prefix (%d records) carries %d; final=%r" % (
                       len(got), k, len(exp_prefix), final), labels=labels)
    if final is None or final.state != "exc":
        # the deviating record was absorbed silently
        if final is not None and final.state == "done" and not final.value \
                and conn.closed:
            return bad("forged-record-ends-stream-cleanly:" + sig_base,
                       "read() returned %r (clean end of data) after a "
                       "forged record" % (bytes(final.value),),
                       labels=labels)
        return bad("deviating-record-not-rejected:" + sig_base,
                   "final read state %r, closed=%r" % (final, conn.closed),
                   labels=labels)
    e = final.exc
    if isinstance(e, TLSRemoteAlert) and case["t"] == "plain_alert":
        return bad("forged-plaintext-alert-accepted:" + sig_base,
                   "unauthenticated alert surfaced as %s" % describe_exc(e),
                   labels=labels)
    if not isinstance(e, TLSLocalAlert):
        return bad("rejected-with-%s:%s" % (type(e).__name__, sig_base),
                   "exception %r" % (e,), labels=labels)
    if e.description not in FATAL_OK:
        return bad("alert-%s:%s" % (AD.toStr(e.description), sig_base),
                   "", labels=labels)
    if not conn.closed:
        return bad("not-closed:" + sig_base, "", labels=labels)
    if conn.session is not None and conn.session.resumable:
        return bad("still-resumable:" + sig_base, "", labels=labels)
    # the fatal alert must have gone out: the peer sees it
    o = sc.do_read(p, side, 100, 1)
    if not (o.state == "exc" and isinstance(o.exc, TLSRemoteAlert) and
            o.exc.description == e.description):
        return bad("no-fatal-alert-on-wire:" + sig_base,
                   "peer read gave %r" % (o,), labels=labels)
    labels.append("alert=" + AD.toStr(e.description))
    return good(nt=True, labels=labels)


# ---------------------------------------------------------------------------
# level A: RecordLayer fed by the reference sender
# ---------------------------------------------------------------------------
RL_EXC = (TLSBadRecordMAC, TLSDecryptionFailed, TLSRecordOverflow,
          TLSIllegalParameterException, TLSUnexpectedMessage)


def check_rl(case):
    sid, v, etm = case["suite"], tuple(case["ver"]), case["etm"]
    s = iana.SUITES[sid]
    labels = ["A", "ver=" + vclass(v), "kind=" + s.kind, "m=" + case["m"]]
    salt = case.get("salt", 0)
    hl = 48 if s.prf == "sha384" else 32
    master = prg(b"A-m%d" % salt, 48)
    cr, sr = prg(b"A-cr%d" % salt, 32), prg(b"A-sr%d" % salt, 32)
    cls, srs = prg(b"A-cs%d" % salt, hl), prg(b"A-ss%d" % salt, hl)
    client = case["client"]
    r = RL(v, s, client, master, cr, sr, cl_secret=cls, sr_secret=srs,
           etm=etm)
    cst, sst = ref_pair(v, s, master, cr, sr, cl_secret=cls, sr_secret=srs,
                        etm=etm)
    peer = sst if client else cst
    if case.get("seq0"):
        # deep into the connection: both counters start here (the 64-bit
        # sequence number is part of every MAC / nonce)
        r.rl._readState.seqnum = case["seq0"]
        peer.seq = case["seq0"]
        labels.append("seq0=2^%d%+d" % (
            (case["seq0"] + 8).bit_length() - 1,
            case["seq0"] - (1 << ((case["seq0"] + 8).bit_length() - 1))))
    msgs = [prg(b"A-msg%d/%d" % (salt, i), n)
            for i, n in enumerate(case["lens"])]
    m = case["m"]
    # honest records with chosen legal padding first
    for i, msg in enumerate(msgs[:-1]):
        wire = rr.protect(peer, 23, msg)
        got = r.recv(wire)
        if got != (23, msg):
            return bad("legal-record-refused:%s" % s.kind, repr(got),
                       labels=labels)
    msg = msgs[-1]
    kw = {}
    expect_ok = True
    if m == "legal_pad":
        if s.kind == "cbc" and v < (3, 4):
            bs = s.block
            unp = len(msg) + (0 if (etm and s.kind == "cbc") else s.mac_len)
            base = (bs - 1 - unp % bs) % bs
            if v == (3, 0):
                kw["pad_len"] = base
            else:
                room = (255 - base) // bs
                kw["pad_len"] = base + bs * (case["pad"] % (room + 1))
        elif v == (3, 4):
            kw["inner_pad"] = case["pad"] % 300
        wire = rr.protect(peer, 23, msg, **kw)
    elif m == "inner_zero" and v == (3, 4):
        # inner plaintext consisting only of zeros (no content type)
        st_ = peer
        inner = b"\x00" * (1 + case["pad"] % 40)
        hdr = bytes([23, 3, 3]) + (len(inner) + s.tag_len).to_bytes(2, "big")
        from vlib.refs import aead
        wire = hdr + aead.seal(s.cipher, st_.key,
                               rr._xor_nonce(st_.iv, st_.seq), inner, hdr,
                               s.tag_len)
        expect_ok = False
    elif m == "outer_type" and v == (3, 4):
        wire = rr.protect(peer, 23, msg, outer_type=22)
        expect_ok = False
    elif m == "outer_version" and v == (3, 4):
        wire = rr.protect(peer, 23, msg, rec_version=(3, 4))
        expect_ok = None        # RFC 8446: MUST be ignored? 5.1 says
        #                         legacy_record_version MUST be ignored
    elif m == "overflow13" and v == (3, 4):
        wire = rr.protect(peer, 23, b"x" * (2 ** 14 + 1))
        expect_ok = False
    elif m == "overflow" and v < (3, 4):
        wire = rr.protect(peer, 23, b"x" * (2 ** 14 + 1))
        expect_ok = False
    elif m == "max_record":
        wire = rr.protect(peer, 23, b"y" * (2 ** 14))
        msg = b"y" * (2 ** 14)
    elif m == "bad_pad" and s.kind == "cbc" and v > (3, 0):
        # good MAC, one wrong padding byte (insider / padding oracle shape)
        wire = bad_padding_record(peer, s, v, etm, msg, case["pad"])
        if wire is None:
            return good(nt=False, labels=labels)
        expect_ok = False
    elif m == "long_pad_forged" and s.kind == "cbc" and (3, 0) < v < (3, 4):
        # legal long padding, one bit of the record flipped in flight: the
        # MAC (wherever it sits behind up to 255 padding bytes) must fail
        bs = s.block
        unp = len(msg) + (0 if etm else s.mac_len)
        base = (bs - 1 - unp % bs) % bs
        room = (255 - base) // bs
        sel = case["pad"]
        kw["pad_len"] = base + bs * (room - (sel % 3 if room >= 2 else 0))
        w = bytearray(rr.protect(peer, 23, msg, **kw))
        body_len = len(w) - 5
        # positions: first body byte (IV or first block), a byte in the
        # middle of the data, or a byte drawn anywhere before the last two
        # blocks (flipping those could yield another valid padding only
        # with a valid MAC, which stays impossible - but keep the claim
        # simple: data / MAC region)
        lim = max(1, body_len - (kw["pad_len"] + 1) - bs -
                  (s.mac_len if etm else 0))
        pos = [0, lim // 2, (sel // 3) % lim][sel % 3] if lim > 1 else 0
        w[5 + pos] ^= 1 << (sel % 8)
        wire = bytes(w)
        expect_ok = False
    elif m == "etm_degenerate" and s.kind == "cbc" and etm and v < (3, 4):
        # insider with the MAC key: correct MAC over a ciphertext that is
        # too short to hold padding (IV only / nothing / one block whose
        # padding byte overruns)
        bs = s.block
        iv = bytes((peer.seq * 7 + i) & 0xff for i in range(bs)) \
            if v >= (3, 2) else b""
        nblocks = case["pad"] % 2
        if nblocks:
            ctb = peer._cbc(iv or peer.chain_iv,
                            b"\x00" * (bs - 1) + bytes([bs + case["pad"] %
                                                        200]), True)
        else:
            ctb = b""
        enc = iv + ctb
        body = enc + peer._mac(23, enc)
        peer.seq += 1
        wire = bytes([23, v[0], v[1]]) + len(body).to_bytes(2, "big") + body
        expect_ok = False
    elif m == "mte_short" and s.kind == "cbc" and not etm and v < (3, 4):
        # ciphertext of one or two blocks: no room for MAC + padding
        bs = s.block
        iv = bytes((peer.seq * 7 + i) & 0xff for i in range(bs)) \
            if v >= (3, 2) else b""
        n = 1 + case["pad"] % 2
        if n * bs >= s.mac_len + 1:
            n = 1
        if n * bs >= s.mac_len + 1:
            return good(nt=False, labels=labels + ["not-applicable"])
        ptb = b"\x00" * (n * bs - 1) + bytes([case["pad"] % (n * bs)])
        enc = peer._cbc(iv or peer.chain_iv, ptb, True)
        body = iv + enc
        peer.seq += 1
        wire = bytes([23, v[0], v[1]]) + len(body).to_bytes(2, "big") + body
        expect_ok = False
    elif m == "ssl3_pad_over_block" and s.kind == "cbc" and v == (3, 0):
        # SSLv3: padding may not exceed one block (good MAC, arbitrary
        # padding content, length byte in [block, 255] where it fits)
        bs = s.block
        unp = len(msg) + s.mac_len
        base = (bs - 1 - unp % bs) % bs
        extra = 1 + case["pad"] % 3
        pl = base + bs * extra
        if pl > 255:
            return good(nt=False, labels=labels + ["not-applicable"])
        mac = peer._mac(23, msg)
        padding = prg(b"A-pad", pl) + bytes([pl])
        enc = peer._cbc(peer.chain_iv, msg + mac + padding, True)
        peer.chain_iv = enc[-bs:]
        peer.seq += 1
        wire = bytes([23, 3, 0]) + len(enc).to_bytes(2, "big") + enc
        # (a length byte equal to the block size - padding of block+1
        # bytes in all - is where readings of the SSLv3 text differ: either)
        expect_ok = None if pl == bs else False
    elif m == "wrong_seq":
        peer.seq += 1 + case["pad"] % 3
        wire = rr.protect(peer, 23, msg)
        expect_ok = False
    elif m == "other_type":
        wire = rr.protect(peer, 23, msg)
        w = bytearray(wire)
        if v < (3, 4):
            w[0] = 22
        else:
            w[0] = 21
        wire = bytes(w)
        expect_ok = False
    else:
        return good(nt=False, labels=labels + ["not-applicable"])
    try:
        got = r.recv(wire)
    except RL_EXC as e:
        if expect_ok:
            return bad("legal-record-refused:%s:%s" % (s.kind, m),
                       "%r (kw=%r)" % (e, kw), labels=labels)
        return good(labels=labels + ["exc=" + type(e).__name__])
    if got == "blocked":
        raise HarnessError("complete record left receiver blocked")
    if expect_ok is None:
        return good(labels=labels + ["either"])
    if not expect_ok:
        return bad("malformed-record-accepted:%s:%s:%s" % (
            vclass(v) if v in ((3, 0), (3, 4)) else "tls", s.kind, m),
            "returned %r" % (got[0],), labels=labels)
    if got != (23, msg):
        return bad("legal-record-altered:%s:%s" % (s.kind, m),
                   "type %r, %d bytes" % (got[0], len(got[1])),
                   labels=labels)
    return good(labels=labels)


def bad_padding_record(st_, s, v, etm, msg, sel):
    """CBC record with correct MAC and one corrupted padding byte."""
    from vlib.refs import aes as raes
    bs = s.block
    if etm:
        return None
    mac = st_._mac(23, msg)
    unp = len(msg) + s.mac_len
    base = (bs - 1 - unp % bs) % bs
    pad_len = base + bs        # at least two padding bytes + length byte
    if pad_len < 1:
        pad_len += bs
    padding = bytearray([pad_len]) * (pad_len + 1)
    padding[sel % pad_len] ^= 0x01      # never the length byte itself
    if v >= (3, 2):
        iv = bytes(range(bs))
    else:
        iv = st_.chain_iv
    enc = st_._cbc(iv, msg + mac + bytes(padding), True)
    st_.chain_iv = enc[-bs:]
    st_.seq += 1
    body = (iv if v >= (3, 2) else b"") + enc
    return bytes([23, v[0], v[1]]) + len(body).to_bytes(2, "big") + body


# ---------------------------------------------------------------------------
POS = ["type", "ver_major", "ver_minor", "len_hi", "len_lo", "body_first",
       "body_mid", "body_last", "tag_first", "iv_last", "any"]


@st.composite
def caseB(draw, tier):
    sid, v, etm = draw(st.sampled_from(triples()))
    items = draw(st.lists(st.one_of(
        st.tuples(st.just("d"), st.sampled_from([0, 1, 2, 15, 16, 17, 31, 32,
                                                 100, 300])),
        st.tuples(st.just("ku"))), min_size=1, max_size=4))
    t = draw(st.sampled_from(TRANSFORMS + ["flip"] * 4))
    c = {"level": "B", "suite": sid, "ver": list(v), "etm": etm,
         "dir": draw(st.sampled_from(["c", "s"])),
         "items": [list(x) for x in items], "t": t,
         "i": draw(st.integers(0, 3)), "salt": draw(st.integers(0, 3))}
    if tuple(v) == (3, 4) and draw(st.integers(0, 3)) == 0:
        c["hrr"] = True
    if t == "flip":
        c["pos"] = draw(st.sampled_from(POS))
        c["mask"] = draw(st.sampled_from([1, 2, 0x40, 0x80, 0xff]))
        c["off"] = draw(st.integers(0, 400))
    elif t in ("trunc", "extend", "splice", "replay_later"):
        c["n"] = draw(st.integers(0, 60))
        c["fix"] = draw(st.booleans())
    elif t == "plain_alert":
        c["alert"] = draw(st.sampled_from([[1, 0], [2, 0], [2, 40],
                                           [1, 90], [2, 20]]))
    elif t in ("unknown_type", "empty_record"):
        c["ctype"] = draw(st.sampled_from([0, 1, 19, 25, 0x7f, 0x80, 0x81,
                                           0xff, 20, 21, 22, 23, 24]))
        if t == "unknown_type" and c["ctype"] in (20, 21, 22, 23, 24):
            c["ctype"] = 0x80
    return c


@st.composite
def caseA(draw, tier):
    sid, v, etm = draw(st.sampled_from(triples()))
    s = iana.SUITES[sid]
    if s.draft:
        sid, s = 0xCCA8, iana.SUITES[0xCCA8]
        v, etm = (3, 3), False
    return {"level": "A", "suite": sid, "ver": list(v), "etm": etm,
            "client": draw(st.booleans()),
            "m": draw(st.sampled_from(
                ["legal_pad"] * 4 + ["inner_zero", "outer_type",
                                     "outer_version", "bad_pad", "bad_pad",
                                     "wrong_seq", "other_type",
                                     "long_pad_forged", "long_pad_forged",
                                     "etm_degenerate", "mte_short",
                                     "ssl3_pad_over_block"])),
            "lens": draw(st.lists(st.one_of(
                st.sampled_from([0, 1, 15, 16, 17, 47, 200]),
                st.integers(0, 300)), min_size=1, max_size=3)),
            "pad": draw(st.integers(0, 600)),
            "salt": draw(st.integers(0, 5)),
            "seq0": draw(st.sampled_from([0, 0, 0, 2 ** 16 - 1, 2 ** 32 - 2,
                                          2 ** 32 - 1, 2 ** 32, 2 ** 48 - 1,
                                          2 ** 63 - 1]))}


@st.composite
def caseH(draw, tier):
    return {"level": "H", "ver": list(draw(st.sampled_from(
        [(3, 1), (3, 3), (3, 4), (3, 4)]))),
        "dir": draw(st.sampled_from(["c", "s"])),
        "k": draw(st.integers(0, 12)), "auth": draw(st.booleans()),
        "rs": draw(st.sampled_from([None, 64, 64, 300])),
        "f": draw(st.sampled_from(["alert", "alert", "hs", "appdata",
                                   "alert1"])),
        "alert": [draw(st.sampled_from([1, 2])),
                  draw(st.sampled_from([0, 10, 20, 40, 42, 80, 90, 100]))]}


def strategy(tier):
    return st.one_of(caseB(tier), caseB(tier), caseA(tier), caseH(tier))


def budget(tier):
    return 1500 if tier == "quick" else 40000


def explicit(tier, seed):
    fixed = [
        {"t": "flip", "pos": "type", "mask": 1},
        {"t": "flip", "pos": "ver_minor", "mask": 1},
        {"t": "flip", "pos": "len_lo", "mask": 1},
        {"t": "flip", "pos": "body_first", "mask": 0x80},
        {"t": "flip", "pos": "body_last", "mask": 1},
        {"t": "trunc", "n": 0, "fix": True},
        {"t": "extend", "n": 0, "fix": True},
        {"t": "replay"}, {"t": "swap"}, {"t": "drop"}, {"t": "reflect"},
        {"t": "plain_alert", "alert": [1, 0]},
        {"t": "unknown_type", "ctype": 0x80},
        {"t": "empty_record", "ctype": 23},
        {"t": "empty_record", "ctype": 21},
    ]
    for n, sz in ((1, 100), (3, 500), (2, 1000), (5, 900), (8, 600),
                  (40, 120), (3, 2000), (30, 1000)):
        yield {"level": "E", "n": n, "size": sz, "budget": 2000}
        if n <= 3:
            yield {"level": "E", "n": n, "size": min(sz, 300),
                   "budget": 2000, "srv12": True}
            yield {"level": "E", "n": n, "size": min(sz, 300),
                   "budget": 2000, "frag": True}
    for v in ((3, 4), (3, 3), (3, 1)):
        for d in "cs":
            for auth in (False, True):
                for k in range(6):
                    for f, al in (("alert", [2, 40]), ("alert", [1, 0]),
                                  ("hs", None), ("appdata", None)):
                        # one message per record (the splice falls on a
                        # message boundary) and messages cut into pieces
                        for rs in ((None, 64) if k < 5 else (64, 200)):
                            c = {"level": "H", "ver": list(v), "dir": d,
                                 "k": k, "auth": auth, "f": f, "rs": rs}
                            if al:
                                c["alert"] = al
                            yield c
    tr = triples()
    for k, (sid, v, etm) in enumerate(tr):
        if iana.SUITES[sid].cipher == "3des" and tier == "quick" and k % 3:
            pass
        sel = fixed if tier == "thorough" else \
            [fixed[(k + j) % len(fixed)] for j in range(5)]
        for j, f in enumerate(sel):
            c = {"level": "B", "suite": sid, "ver": list(v), "etm": etm,
                 "dir": "cs"[(k + j) % 2],
                 "items": [["d", 20], ["d", 0], ["d", 33]], "i": 1,
                 "salt": seed % 4}
            c.update(f)
            yield c
        if v == (3, 4):
            # forged unprotected records at read sequence number 0
            for d in "cs":
                for f in ({"t": "plain_alert", "alert": [1, 0]},
                          {"t": "plain_alert", "alert": [2, 40]},
                          {"t": "plain_ccs"},
                          {"t": "empty_record", "ctype": 21}):
                    c = {"level": "B", "suite": sid, "ver": list(v),
                         "etm": etm, "dir": d,
                         "items": [["d", 20], ["ku"], ["d", 5]], "i": 0,
                         "salt": seed % 4}
                    c.update(f)
                    yield c
                    yield dict(c, hrr=True)
                # a record of the old key epoch replayed behind the KeyUpdate
                for i0 in (0, 2):
                    for n in range(4 - i0):
                        yield {"level": "B", "suite": sid, "ver": list(v),
                               "etm": etm, "dir": d,
                               "items": [["d", 20], ["ku"], ["d", 5], ["ku"],
                                         ["d", 9]], "i": i0, "n": n,
                               "t": "replay_later", "salt": seed % 4}
        if iana.SUITES[sid].draft:
            continue
        if iana.SUITES[sid].kind == "cbc" and v < (3, 4):
            for j, ln in enumerate((44, 47, 60, 33, 0, 108)):
                for m in ("long_pad_forged", "etm_degenerate", "mte_short",
                          "ssl3_pad_over_block"):
                    yield {"level": "A", "suite": sid, "ver": list(v),
                           "etm": etm, "client": bool(k % 2), "m": m,
                           "lens": [5, ln], "pad": k + 3 * j + j // 3,
                           "salt": seed % 4}
        # records on both sides of sequence number 2^32 (and 2^16, 2^48)
        for q in ((2 ** 32 - 1,) if tier == "quick" else
                  (2 ** 16 - 1, 2 ** 32 - 2, 2 ** 32 - 1, 2 ** 48 - 1)):
            for m in ("legal_pad", "wrong_seq"):
                yield {"level": "A", "suite": sid, "ver": list(v),
                       "etm": etm, "client": bool(k % 2), "m": m,
                       "lens": [5, 18, 7], "pad": k, "salt": seed % 4,
                       "seq0": q}
        for m in ("legal_pad", "bad_pad", "wrong_seq", "other_type",
                  "inner_zero", "outer_type", "overflow", "overflow13",
                  "max_record"):
            if m in ("overflow", "overflow13", "max_record") and (
                    tier == "quick" and k % 7):
                continue
            yield {"level": "A", "suite": sid, "ver": list(v), "etm": etm,
                   "client": bool(k % 2), "m": m, "lens": [5, 18],
                   "pad": k * 7 + 3, "salt": seed % 4}
