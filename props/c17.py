"""C17 - closure, truncation and transport failures are contained and
reported faithfully."""
import hashlib

from hypothesis import strategies as st

from vlib.runner import good, bad, HarnessError, BaselineBroken
from vlib.det import DET
from vlib import scenario as sc
from vlib.wire import Link, records
from vlib.driver import drive, describe_exc, exc_site
from vlib.deviant import RawMsg
from props.c08 import opts_for, FLAVOURS

from tlslite.api import TLSConnection
from tlslite.errors import (TLSAbruptCloseError, TLSRemoteAlert,
                            TLSLocalAlert, TLSClosedConnectionError,
                            BaseTLSException)
from tlslite.constants import AlertDescription as AD, AlertLevel

ID = "C17"
LEVEL = "fault_enumeration"
RULE = ("(handshake) for each of 12 handshake flavours a fault-free run "
        "records both byte streams; then for each endpoint x direction "
        "(recv, send) x fault kind (EOF, ECONNRESET, EPIPE) the scripted "
        "socket delivers/accepts exactly up to stream offset o and then "
        "faults, o ranging over every record boundary, boundary +1..+5, "
        "middle and last body byte of every record (quick: all of these for "
        "4 flavours, a stride for the rest; thorough: all) plus drawn "
        "offsets; (data phase) every placement of close_notify / warning "
        "alert / fatal alert / raw EOF relative to k data records x "
        "closeSocket x ignoreAbruptClose x reader read(min) in {1, within, "
        "beyond the data}, close orders, reads and writes "
        "after close; close() that waits for the peer's close_notify "
        "(closeSocket=False) with application data / post-handshake "
        "messages of the peer in flight; the reader's courtesy close_notify "
        "hitting a dead transport; close_notify at alert level 2 / 0 / 255; "
        "(peer alert) the peer aborts the handshake with an unprotected "
        "fatal alert in place of its k-th record, k over every position "
        "where that alert is unprotected (for TLS 1.3 also instead of the "
        "client's second flight): the call raises exactly that remote "
        "alert. non-trivial = the fault fired / the closure event was "
        "delivered; distinct = (scenario, endpoint, direction, offset, "
        "kind) or the data-phase case")
ASSUMPTIONS = [
    "a would-block inside sendall() is not modelled (blocking-complete)",
    "the peer of a failed endpoint may legitimately report completion when "
    "it had already received the victim's complete last flight",
]
MAX_WALL = {"quick": 240, "thorough": 3000}
FL = [f for f in sorted(FLAVOURS) if f != "any" and
      not FLAVOURS[f].get("c08_only")]
FULL_QUICK = ("tls12-ecdhe-auth", "tls13", "tls10-dhe", "tls13-hrr")


def init(tier, seed):
    DET.install()


_base = {}


def baseline(name):
    if name not in _base:
        client, server = opts_for(name)
        DET.reseed("C17", name)
        p = sc.connect(client, server)
        if not p.both_ok:
            raise BaselineBroken("flavour:" + name, "%r %r" % (p.co, p.so))
        streams = {}
        for side in "cs":
            rx = p.link.delivered(side)
            tx = p.link.wire(side)
            streams[side] = {"recv": rx, "send": tx, "need": len(tx)}
        if tuple(p.c.version) == (3, 4):
            # TLS 1.3 servers send tickets after their Finished inside the
            # same call: the client is complete without them. The first
            # record under the application keys marks that point.
            from vlib.tap import RefView
            rv = RefView(p)
            idx = rv._locate13("s")
            recs, _ = records(p.link.wire("s"))
            if idx < len(recs):
                streams["s"]["need"] = recs[idx]["off"]
        streams["ver"] = tuple(p.c.version)
        _base[name] = streams
    return _base[name]


def offsets_for(stream, full, seed=0):
    recs, end = records(stream)
    offs = set([0, len(stream)])
    for k, r in enumerate(recs):
        b = r["off"]
        n = r["hl"] + r["len"]
        cand = [b, b + 1, b + 2, b + 3, b + 4, b + 5, b + n // 2, b + n - 1]
        if not full:
            cand = [b, b + 3, b + n - 1] if k % 2 == 0 else [b + 1]
        for o in cand:
            if 0 <= o <= len(stream):
                offs.add(o)
    return sorted(offs)


def check(case):
    if case["k"] == "hs":
        return check_hs(case)
    if case["k"] == "alert":
        return check_alert(case)
    return check_data(case)


HRR_RANDOM = bytes.fromhex("CF21AD74E59A6111BE1D8C021E65B891"
                           "C2A211167ABB8C5E079E09E2C8A8339C")


def alert_positions(name, side):
    """Record indices of ``side``'s honest stream at which that side could
    instead abort with an *unprotected* fatal alert."""
    base = baseline(name)
    recs, _ = records(base[side]["send"])
    ver13 = base["ver"] == (3, 4)
    pos = []
    for i, r in enumerate(recs):
        if not ver13:
            # everything up to and instead of the first ChangeCipherSpec
            pos.append(i)
            if r["type"] == 20:
                break
            continue
        if r["type"] not in (20, 22):
            if side == "c":
                # the client's second flight: it switches its write keys
                # only when it sends it, an abort before that is plaintext
                pos.append(i)
            break
        pos.append(i)
        if side == "s" and r["type"] == 22 and r["body"][:1] == b"\x02" \
                and r["body"][6:38] != HRR_RANDOM:
            break       # keys change right after a real ServerHello
    return pos


def check_alert(case):
    """The peer aborts the handshake with a fatal alert at a point where
    that alert is unprotected: the receiver reports exactly that alert."""
    name, side, desc = case["fl"], case["side"], case["desc"]
    pos = alert_positions(name, side)
    at = pos[case["pos"] % len(pos)]
    labels = ["alert", "fl=" + name, "aborting=" + side, "at=%d" % at,
              "desc=%d" % desc]
    client, server = opts_for(name)
    DET.reseed("C17", name)
    direction = "c2s" if side == "c" else "s2c"
    state = {"done": False}

    def mitm(d, idx, rec):
        if d != direction:
            return [rec["hdr"] + rec["body"]]
        if idx < at:
            return [rec["hdr"] + rec["body"]]
        if state["done"]:
            return []
        state["done"] = True
        ver = rec["hdr"][1:3] if rec["hl"] == 5 else b"\x03\x01"
        return [b"\x15" + ver + b"\x00\x02" + bytes([2, desc])]

    link = Link(mitm=mitm)
    cs, ss = link.sock("c"), link.sock("s")
    cc, scn = TLSConnection(cs), TLSConnection(ss)
    outs, verdict = drive({"c": sc.client_gen(cc, client),
                           "s": sc.server_gen(scn, server)}, link,
                          max_steps=50000, on_stall="leave")
    victim = "s" if side == "c" else "c"
    vconn = scn if victim == "s" else cc
    vout = outs[victim]
    where = "%s:%s" % (victim, "tls13" if baseline(name)["ver"] == (3, 4)
                       else "tls12-")
    if not state["done"]:
        return good(nt=False, labels=labels + ["not-reached"])
    if verdict in ("spin", "budget"):
        return bad("hang-on-peer-alert:" + where, repr(case), labels=labels)
    if vout.ok:
        return bad("completes-despite-fatal-alert:" + where, repr(case),
                   labels=labels)
    if vout.state != "exc":
        return bad("blocked-after-fatal-alert:" + where, repr(vout),
                   labels=labels)
    e = vout.exc
    if not (isinstance(e, TLSRemoteAlert) and e.description == desc):
        return bad("peer-alert-not-surfaced:" + where,
                   "peer aborted with fatal alert %d in place of its record "
                   "%d; the call raised %s" % (desc, at, describe_exc(e)),
                   labels=labels)
    if not vconn.closed:
        return bad("not-closed-after-fatal-alert:" + where, "",
                   labels=labels)
    if usable(vconn.session):
        return bad("resumable-after-fatal-alert:" + where, "", labels=labels)
    return good(labels=labels)


def usable(sess):
    """Would this session still be offered / accepted for resumption: the
    flag and the library's own notion (valid() is what the client consults
    before offering a session and the cache before handing one out)."""
    return sess is not None and bool(sess.resumable or sess.valid())


def acceptable_transport_exc(e):
    return isinstance(e, (OSError, TLSAbruptCloseError, TLSRemoteAlert))


def check_hs(case):
    name, side, direction, off, kind = (case["fl"], case["side"],
                                        case["dir"], case["off"],
                                        case["kind"])
    labels = ["hs", "fl=" + name, "victim=" + side, "dir=" + direction,
              "kind=" + kind]
    base = baseline(name)
    total = len(base[side][direction])
    off = off % (total + 1)
    client, server = opts_for(name)
    DET.reseed("C17", name)
    link = Link()
    cs, ss = link.sock("c"), link.sock("s")
    vsock = cs if side == "c" else ss
    if direction == "recv":
        vsock.rx_fault = (off, kind if kind != "pipe" else "reset")
    else:
        vsock.tx_fault = (off, kind if kind != "eof" else "pipe")
    cc, scn = TLSConnection(cs), TLSConnection(ss)
    outs, verdict = drive({"c": sc.client_gen(cc, client),
                           "s": sc.server_gen(scn, server)}, link,
                          max_steps=50000)
    vconn, pconn = (cc, scn) if side == "c" else (scn, cc)
    vout, pout = (outs["c"], outs["s"]) if side == "c" else \
        (outs["s"], outs["c"])
    fired = vsock.fault_fired is not None
    labels.append("fired" if fired else "not-fired")
    if verdict in ("spin", "budget"):
        return bad("hang-on-transport-fault:%s:%s" % (direction, kind),
                   repr(case), labels=labels)
    where = "%s:%s:%s" % (direction, kind, side)
    if not fired:
        # fault beyond what the handshake needs: it must complete normally
        if not (vout.ok and pout.ok):
            # an EOF at exactly the end of the stream can race with nothing:
            # only flag if the fault can not have mattered
            return bad("fails-without-fault:" + where,
                       "victim %r peer %r (offset %d of %d)" % (
                           vout, pout, off, total), nt=False, labels=labels)
        return good(nt=False, labels=labels)
    # --- the fault fired -------------------------------------------------
    if vout.ok:
        # possible only if the fault hit after the victim was done (e.g. a
        # send fault while flushing nothing) - then it never mattered
        return bad("completes-despite-transport-fault:" + where,
                   "victim reported a complete handshake although its "
                   "socket faulted at offset %d of %d" % (off, total),
                   labels=labels)
    e = vout.exc
    if vout.state != "exc":
        return bad("blocked-after-transport-fault:" + where, repr(vout),
                   labels=labels)
    if not isinstance(e, (BaseTLSException, OSError)):
        return bad("unrelated-exception:%s@%s" % (type(e).__name__,
                                                  exc_site(e)), repr(case),
                   labels=labels)
    if not acceptable_transport_exc(e):
        return bad("transport-fault-reported-as-%s:%s" % (
            describe_exc(e), where), "offset %d of %d" % (off, total),
            labels=labels)
    if not vconn.closed:
        return bad("not-closed-after-transport-fault:" + where, "",
                   labels=labels)
    if usable(vconn.session):
        return bad("resumable-after-transport-fault:" + where,
                   "fault at %d of %d" % (off, total), labels=labels)
    labels.append("victim-exc=" + describe_exc(e))
    # the other endpoint
    if pout.state == "exc":
        pe = pout.exc
        if not isinstance(pe, (BaseTLSException, OSError)):
            return bad("unrelated-exception:%s@%s" % (
                type(pe).__name__, exc_site(pe)), "peer; " + repr(case),
                labels=labels)
        labels.append("peer-exc=" + describe_exc(pe))
    elif pout.ok:
        # legitimate only if the peer had received the victim's complete
        # last flight: everything the victim sends in the honest run
        sent = len(link.wire(side))
        need = base[side]["need"]
        if sent < need:
            return bad("peer-completes-without-victims-last-flight:" + where,
                       "victim sent %d of %d bytes" % (sent, need),
                       labels=labels)
        labels.append("peer-completed-last-flight-race")
    else:
        return bad("peer-blocked-after-victim-failure:" + where, repr(pout),
                   labels=labels)
    return good(labels=labels)


# ---------------------------------------------------------------------------
def prg(tag, n):
    out = bytearray()
    i = 0
    while len(out) < n:
        out += hashlib.sha256(b"%s|%d" % (tag, i)).digest()
        i += 1
    return bytes(out[:n])


def check_data(case):
    name = case["fl"]
    ev = case["event"]          # close_notify / warning / fatal / eof /
    #                             eof_mid_record / close_both
    k = case["nrec"]            # data records before the event
    labels = ["data", "fl=" + name, "event=" + ev, "nrec=%d" % k,
              "closeSocket=%r" % case["closeSocket"],
              "ignoreAbrupt=%r" % case["ignoreAbrupt"]]
    client, server = opts_for(name)
    DET.reseed("C17d", name)
    p = sc.connect(client, server)
    if not p.both_ok:
        raise BaselineBroken("flavour:" + name, "%r %r" % (p.co, p.so))
    sender, reader = case["sender"], ("s" if case["sender"] == "c" else "c")
    rconn, sconn = p.conn(reader), p.conn(sender)
    rconn.ignoreAbruptClose = case["ignoreAbrupt"]
    rconn.closeSocket = case["closeSocket"]
    # drain tickets etc.
    sc.do_write(p, "s", b"")
    if ev == "close_inflight":
        # post-handshake control messages (TLS 1.3 tickets) are consumed
        # first, so that only application data is in flight ...
        sc.read_all(p, "c")
    sent = bytearray()
    for i in range(k):
        d = prg(b"C17/%d" % i, 100 + 37 * i)
        o = sc.do_write(p, sender, d)
        if not o.ok:
            raise BaselineBroken("data-write", repr(o))
        sent += d
    # the event
    if ev == "fatal_then_send":
        return fatal_then_send(case, p, sender, reader, labels)
    if ev in ("close_inflight", "close_inflight_ctrl"):
        # ... or, for _ctrl, tickets / a KeyUpdate are what is in flight
        if ev == "close_inflight_ctrl" and sender == "c" and \
                tuple(p.c.version) == (3, 4):
            drive({"c": p.c.send_keyupdate_request(0)}, p.link,
                  on_stall="leave")
        return close_inflight(case, p, sender, reader, sent, labels)
    if case.get("reply_fails"):
        # the peer closes its socket right after its close_notify: the
        # courtesy reply of the reader hits a dead transport
        raw = rconn.sock
        while hasattr(raw, "socket"):
            raw = raw.socket
        raw.tx_fault = (raw.tx_total, "pipe")
        labels.append("reply-fails")
    if ev == "close_notify" and case.get("cn_level", 1) != 1:
        # the closure alert is identified by its description; tlslite-ng
        # itself sends it at level fatal when a checker rejects the peer
        o = drive({sender: sconn._sendMsg(RawMsg(21, bytes(
            [case["cn_level"], AD.close_notify])))}, p.link,
            on_stall="leave")[0][sender]
        labels.append("close-notify-level=%d" % case["cn_level"])
    elif ev == "close_notify":
        o = sc.do_close(p, sender)
    elif ev == "warning":
        o = drive({sender: sconn._sendMsg(RawMsg(21, bytes(
            [AlertLevel.warning, AD.user_canceled])))}, p.link,
            on_stall="leave")[0][sender]
    elif ev == "fatal":
        o = drive({sender: sconn._sendMsg(RawMsg(21, bytes(
            [AlertLevel.fatal, case.get("desc", AD.internal_error)])))},
            p.link, on_stall="leave")[0][sender]
    elif ev == "eof":
        p.link.out[sender].eof = True
        p.link.pump()
    elif ev == "reset":
        # the transport breaks (ECONNRESET) once what is in flight has been
        # read: never an end of data, whatever ignoreAbruptClose says
        raw = rconn.sock
        while hasattr(raw, "socket"):
            raw = raw.socket
        p.link.pump()
        raw.rx_fault = (raw.rx_total + len(p.link.inp[reader].q), "reset")
    elif ev == "eof_mid_record":
        # deliver only part of one more record, then EOF
        p.link.hold[sender] = True
        sc.do_write(p, sender, prg(b"tail", 300))
        raw = bytes(p.link.out[sender].q)
        del p.link.out[sender].q[:]
        p.link.hold[sender] = False
        cut = 1 + case.get("cut", 7) % (len(raw) - 1)
        p.link.inject(reader, raw[:cut])
        sent += prg(b"tail", 300)
        p.link.out[sender].eof = True
        p.link.pump()
    else:
        raise HarnessError(ev)
    # reader side: read until something other than data happens
    # rmin > 1: a reader that asks for at least rmin bytes ("fill the buffer
    # or fail"); what is already buffered when the stream ends must not turn
    # a truncation into an end of data
    rmin = case.get("rmin", 1)
    if rmin != 1:
        labels.append("rmin=%s" % ("beyond" if rmin > len(sent) else
                                   "within"))
    got = bytearray()
    final = None
    for _ in range(200):
        o = sc.do_read(p, reader, 1 << 16, rmin)
        if o.state == "done" and o.value:
            got += o.value
            continue
        final = o
        break
    got = bytes(got)
    where = "%s:%s" % (ev, "tls13" if tuple(sc.VER.get(
        FLAVOURS[name].get("v") or "tls13")) == (3, 4) else "tls12-")
    if not bytes(sent).startswith(got):
        return bad("data-not-a-prefix:" + where, "", labels=labels)
    # (a failing read(min=n) keeps what it had buffered: completeness is
    # only owed where the stream ends in an orderly way)
    if ev in ("close_notify", "warning", "fatal", "eof", "reset") and \
            got != bytes(sent) and (rmin == 1 or ev == "close_notify" or (
                ev == "eof" and case["ignoreAbrupt"])):
        return bad("data-lost-before-closure:" + where,
                   "got %d of %d bytes before the %s" % (
                       len(got), len(sent), ev), labels=labels)
    if final is None:
        raise HarnessError("reader never stopped")
    fs = final.state if final.exc is None else describe_exc(final.exc)
    labels.append("final=" + fs)
    sess = rconn.session
    cache = server.get("sessionCache")
    if cache is not None and reader == "s" and sess is not None and \
            sess.sessionID and (ev == "fatal" or (
                ev in ("eof", "eof_mid_record") and
                not case["ignoreAbrupt"])):
        # what the *cache* hands out for this id is what the next client
        # gets to resume - also when this connection was itself resumed
        try:
            still = cache[sess.sessionID]
        except KeyError:
            still = None
        if usable(still):
            return bad("cached-session-resumable-after-failure:" + where,
                       "connection %s; the session cache still returns a "
                       "resumable session for its id" % fs, labels=labels)
        labels.append("cache-checked")
    if ev == "close_notify":
        if not (final.state == "done" and not final.value):
            return bad("orderly-close-not-clean:" + where, fs, labels=labels)
        if not rconn.closed:
            return bad("orderly-close-not-closed:" + where, "",
                       labels=labels)
        if sess is None or not sess.resumable:
            return bad("orderly-close-kills-resumability:" + where, "",
                       labels=labels)
        if case.get("reply_fails"):
            return good(labels=labels)
        # reads stay empty, writes raise the closed-connection error
        o2 = sc.do_read(p, reader, 10, 1)
        if not (o2.state == "done" and not o2.value):
            return bad("read-after-close:" + where, repr(o2), labels=labels)
        o3 = sc.do_write(p, reader, b"late")
        if not (o3.state == "exc" and isinstance(
                o3.exc, TLSClosedConnectionError)):
            return bad("write-after-close:" + where, repr(o3), labels=labels)
        if sess.resumable is not True:
            return bad("write-after-close-kills-resumability:" + where, "",
                       labels=labels)
        return good(labels=labels)
    if ev == "reset":
        if not (final.state == "exc" and isinstance(
                final.exc, (OSError, TLSAbruptCloseError))):
            return bad("transport-reset-reported-as-clean-end:" + where,
                       "final read: %s (ignoreAbruptClose=%r)" % (
                           fs, case["ignoreAbrupt"]), labels=labels)
        if not rconn.closed:
            return bad("not-closed-after-reset:" + where, "", labels=labels)
        if usable(sess):
            return bad("resumable-after-transport-reset:" + where,
                       "ignoreAbruptClose=%r" % case["ignoreAbrupt"],
                       labels=labels)
        return good(labels=labels)
    if ev in ("eof", "eof_mid_record"):
        if case["ignoreAbrupt"] and ev == "eof":
            if not (final.state == "done" and not final.value):
                return bad("ignored-abrupt-close-not-clean:" + where, fs,
                           labels=labels)
            return good(labels=labels)
        if ev == "eof_mid_record" and case["ignoreAbrupt"]:
            # truncated record: either outcome documented as 'ignore'
            if final.state == "exc" and not isinstance(
                    final.exc, (BaseTLSException, OSError)):
                return bad("unrelated-exception:%s" % type(
                    final.exc).__name__, where, labels=labels)
            return good(labels=labels)
        if not (final.state == "exc" and isinstance(final.exc,
                                                    TLSAbruptCloseError)):
            return bad("truncation-reported-as-clean-end:" + where,
                       "final read: %s" % fs, labels=labels)
        if not rconn.closed:
            return bad("not-closed-after-eof:" + where, "", labels=labels)
        if usable(sess):
            return bad("resumable-after-abrupt-close:" + where, "",
                       labels=labels)
        return good(labels=labels)
    if ev == "fatal":
        desc = case.get("desc", AD.internal_error)
        if not (final.state == "exc" and isinstance(final.exc,
                                                    TLSRemoteAlert) and
                final.exc.description == desc):
            return bad("fatal-alert-not-surfaced:" + where, fs,
                       labels=labels)
        if usable(sess):
            return bad("resumable-after-fatal-alert:" + where, "",
                       labels=labels)
        if not rconn.closed:
            return bad("not-closed-after-fatal-alert:" + where, "",
                       labels=labels)
        return good(labels=labels)
    if ev == "warning":
        # tlslite closes on any warning alert: it must surface it and close
        if final.state == "exc" and isinstance(final.exc, TLSRemoteAlert):
            if not rconn.closed:
                return bad("not-closed-after-warning:" + where, "",
                           labels=labels)
            return good(labels=labels)
        if final.state == "blocked":
            return good(labels=labels + ["warning-ignored"])
        return bad("warning-alert-handling:" + where, fs, labels=labels)
    raise HarnessError(ev)


def fatal_then_send(case, p, sender, reader, labels):
    """The peer sent a fatal alert and hung up; before reading it, the local
    side tries to *send* a post-handshake handshake message (KeyUpdate) into
    the dead transport: the failure must close the connection and kill the
    session like any other fatal failure."""
    rconn, sconn = p.conn(reader), p.conn(sender)
    if tuple(rconn.version) != (3, 4):
        return good(nt=False, labels=labels + ["not-applicable"])
    desc = case.get("desc", AD.internal_error)
    drive({sender: sconn._sendMsg(RawMsg(21, bytes([AlertLevel.fatal,
                                                    desc])))}, p.link,
          on_stall="leave")
    raw = rconn.sock
    while hasattr(raw, "socket"):
        raw = raw.socket
    raw.tx_fault = (raw.tx_total, "pipe")
    outs, _ = drive({reader: rconn.send_keyupdate_request(0)}, p.link,
                    on_stall="leave")
    o = outs[reader]
    fs = o.state if o.exc is None else describe_exc(o.exc)
    labels.append("final=" + fs)
    if o.state == "exc" and not isinstance(o.exc, (BaseTLSException,
                                                   OSError)):
        return bad("unrelated-exception:%s" % type(o.exc).__name__,
                   "fatal_then_send", labels=labels)
    if o.state != "exc":
        return bad("send-into-dead-transport-succeeds:tls13", fs,
                   labels=labels)
    if not rconn.closed:
        return bad("not-closed-after-failed-send:tls13",
                   "send_keyupdate_request raised %s but the connection is "
                   "still open" % fs, labels=labels)
    sess = rconn.session
    if usable(sess):
        return bad("resumable-after-failed-send:tls13", fs, labels=labels)
    o3 = sc.do_write(p, reader, b"late")
    if not (o3.state == "exc" and isinstance(o3.exc,
                                             TLSClosedConnectionError)):
        return bad("write-after-failed-send:tls13", repr(o3), labels=labels)
    return good(labels=labels)


def close_inflight(case, p, sender, reader, sent, labels):
    """``reader`` closes (closeSocket=False: it waits for the peer's
    close_notify) while ``sender``'s data records are still in flight ahead
    of that close_notify: an orderly shutdown on both sides."""
    rconn, sconn = p.conn(reader), p.conn(sender)
    rconn.closeSocket = False
    sconn.closeSocket = False
    ver13 = tuple(rconn.version) == (3, 4)
    gen = rconn.closeAsync()
    outs, _ = drive({reader: gen}, p.link, on_stall="leave")
    first = outs[reader]
    # the peer sees the close_notify after having sent its data
    o_s = sc.do_read(p, sender, 100, 1)
    if first.state == "blocked":
        outs, _ = drive({reader: gen}, p.link, on_stall="leave")
        first = outs[reader]
    where = "%s:%s" % (case["event"], "tls13" if ver13 else "tls12-")
    fs = first.state if first.exc is None else describe_exc(first.exc)
    labels.append("final=" + fs)
    if first.state == "exc":
        return bad("orderly-close-fails:" + where,
                   "close() with %d data bytes of the peer in flight: %s" % (
                       len(sent), fs), labels=labels)
    for who, conn in ((reader, rconn), (sender, sconn)):
        if conn.session is not None and not conn.session.resumable:
            return bad("orderly-close-kills-resumability:%s:%s" % (
                where, "closer" if who == reader else "peer"), "",
                labels=labels)
    if not (o_s.state == "done" and not o_s.value):
        if o_s.state == "exc":
            return bad("orderly-close-not-clean:" + where,
                       "peer read: %s" % describe_exc(o_s.exc),
                       labels=labels)
    return good(labels=labels)


# ---------------------------------------------------------------------------
@st.composite
def cases(draw, tier):
    if draw(st.integers(0, 3)) == 0:
        return {"k": "data", "fl": draw(st.sampled_from(FL)),
                "event": draw(st.sampled_from(
                    ["close_notify", "warning", "fatal", "eof", "reset",
                     "eof_mid_record", "close_inflight",
                     "close_inflight_ctrl", "fatal_then_send"])),
                "reply_fails": draw(st.booleans()),
                "cn_level": draw(st.sampled_from([1, 1, 2, 0, 255])),
                "nrec": draw(st.integers(0, 4)),
                "sender": draw(st.sampled_from(["c", "s"])),
                "closeSocket": draw(st.booleans()),
                "ignoreAbrupt": draw(st.booleans()),
                "desc": draw(st.sampled_from([10, 20, 40, 47, 80, 86])),
                "cut": draw(st.integers(0, 400)),
                "rmin": draw(st.sampled_from([1, 1, 2, 50, 101, 150, 238,
                                              700, 10000]))}
    if draw(st.integers(0, 5)) == 0:
        return {"k": "alert", "fl": draw(st.sampled_from(FL)),
                "side": draw(st.sampled_from(["c", "s"])),
                "pos": draw(st.integers(0, 7)),
                "desc": draw(st.sampled_from([10, 20, 40, 42, 47, 50, 70,
                                              80, 86, 109, 110, 116, 120]))}
    return {"k": "hs", "fl": draw(st.sampled_from(FL)),
            "side": draw(st.sampled_from(["c", "s"])),
            "dir": draw(st.sampled_from(["recv", "send"])),
            "off": draw(st.integers(0, 6000)),
            "kind": draw(st.sampled_from(["eof", "reset", "pipe"]))}


def strategy(tier):
    return cases(tier)


def budget(tier):
    return 600 if tier == "quick" else 60000


def explicit(tier, seed):
    for fl in FL:
        base = baseline(fl)
        full = tier == "thorough" or fl in FULL_QUICK
        for side in "cs":
            for direction in ("recv", "send"):
                kinds = ("eof", "reset") if direction == "recv" else \
                    ("pipe", "reset")
                for off in offsets_for(base[side][direction], full, seed):
                    for kind in kinds:
                        yield {"k": "hs", "fl": fl, "side": side,
                               "dir": direction, "off": off, "kind": kind}
        for side in "cs":
            for k in range(len(alert_positions(fl, side))):
                yield {"k": "alert", "fl": fl, "side": side, "pos": k,
                       "desc": (40, 47, 70, 80)[k % 4]}
        for ev in ("close_notify", "warning", "fatal", "eof", "reset",
                   "eof_mid_record"):
            for nrec in (0, 2):
                for sender in "cs":
                    for ia in (False, True):
                        yield {"k": "data", "fl": fl, "event": ev,
                               "nrec": nrec, "sender": sender,
                               "closeSocket": ia or nrec == 0,
                               "ignoreAbrupt": ia, "desc": 80, "cut": 9}
                        if nrec and fl in FULL_QUICK or tier == "thorough":
                            for rmin in (150, 10000):
                                yield {"k": "data", "fl": fl, "event": ev,
                                       "nrec": nrec + 1, "sender": sender,
                                       "closeSocket": ia,
                                       "ignoreAbrupt": ia, "desc": 80,
                                       "cut": 9, "rmin": rmin}
        for nrec in (0, 1, 3):
            for sender in "cs":
                yield {"k": "data", "fl": fl, "event": "close_inflight",
                       "nrec": nrec, "sender": sender, "closeSocket": False,
                       "ignoreAbrupt": False}
                if nrec == 0:
                    yield {"k": "data", "fl": fl,
                           "event": "close_inflight_ctrl", "nrec": 0,
                           "sender": sender, "closeSocket": False,
                           "ignoreAbrupt": False}
                yield {"k": "data", "fl": fl, "event": "close_notify",
                       "nrec": nrec, "sender": sender, "closeSocket": True,
                       "ignoreAbrupt": False, "reply_fails": True}
                yield {"k": "data", "fl": fl, "event": "close_notify",
                       "nrec": nrec, "sender": sender, "closeSocket": True,
                       "ignoreAbrupt": False, "cn_level": 2}
                if nrec == 0:
                    yield {"k": "data", "fl": fl, "event": "fatal_then_send",
                           "nrec": 0, "sender": sender, "closeSocket": True,
                           "ignoreAbrupt": False, "desc": 80}
