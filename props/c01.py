"""C01 - application data is delivered exactly, in order, for every suite
and version; no record carries more plaintext than the limit in force.

Oracle: FIFO byte-stream model per direction + the reference receiver
(vlib.refs.record) re-opening every record from the wire tap."""
import hashlib

from hypothesis import strategies as st

from vlib.runner import good, bad, HarnessError
from vlib.det import DET
from vlib import scenario as sc
from vlib.driver import drive
from vlib import iana
from vlib.tap import RefView

ID = "C01"
LEVEL = "exploration"
RULE = ("case = (suite, version, EtM, both record_size_limit settings, "
        "TLS 1.3 padding callback, payload fill (pseudo-random, all-zero, "
        "leading / trailing zeros, 0xff), full or resumed handshake, "
        "history of write/read/set-recordSize/KeyUpdate "
        "operations on either side with boundary-biased lengths, optionally "
        "ended by the writer closing while data is undelivered and the "
        "reader asking for more than is left); every "
        "defined (suite, version, EtM) triple is enumerated at least once "
        "per run and further histories are drawn by Hypothesis; oracle = "
        "FIFO model + reference receiver on the wire tap + per-record "
        "plaintext length <= limit in force; non-trivial = at least one "
        "payload spanning >= 2 records or sitting on a limit boundary and "
        "writes in both directions; distinct = hash(case)")
ASSUMPTIONS = [
    "in-memory transport delivering whole writes (chunking is C14's domain)",
    "reference receiver validated against OpenSSL CLI / RFC vectors "
    "(vlib/refs); 3DES decryption delegated to the openssl CLI",
    "draft-00 ChaCha20 suites (not IANA registered): FIFO model and length "
    "bound only, no reference receiver",
    "randomness and clock replaced by per-endpoint DRBG / fixed clock",
]
MAX_WALL = {"quick": 200, "thorough": 3000}

VERSIONS = [(3, 0), (3, 1), (3, 2), (3, 3), (3, 4)]
# listed in dheDsaSuites but in no MAC list, hence never negotiable under any
# settings: outside C01's domain (recorded as a C19 known finding)
DEAD_SUITES = (0x0040, 0x006A)


def negotiable():
    from tlslite.constants import CipherSuite as CS
    ids = set(CS.tls13Suites) | set(CS.certAllSuites) | \
        set(CS.ecdheEcdsaSuites) | set(CS.dheDsaSuites) | \
        set(CS.anonSuites) | set(CS.ecdhAnonSuites) | set(CS.srpAllSuites)
    return sorted(ids)


_triples = None


def triples():
    """All (suite id, version, etm) the library can negotiate."""
    global _triples
    if _triples is None:
        out = []
        for sid in negotiable():
            s = iana.SUITES.get(sid)
            if s is None:
                raise HarnessError("suite %04x missing from iana table" % sid)
            for v in VERSIONS:
                if s.defined_in(v) is False:
                    continue
                if sid in DEAD_SUITES:
                    continue
                etms = [True, False] if (s.kind == "cbc" and v < (3, 4)) \
                    else [False]
                for e in etms:
                    out.append((sid, v, e))
        _triples = out
    return _triples


def init(tier, seed):
    DET.install()


def prg(tag, n):
    out = bytearray()
    i = 0
    while len(out) < n:
        out += hashlib.sha256(b"%s/%d" % (tag, i)).digest()
        i += 1
    return bytes(out[:n])


def pad_cb_for(spec):
    if spec is None:
        return None
    kind = spec[0]
    if kind == "const":
        k = spec[1]
        return lambda size, ctype, mx: max(0, min(k, mx))
    if kind == "fill":
        return lambda size, ctype, mx: max(0, mx)
    if kind == "mod":
        k = spec[1]
        return lambda size, ctype, mx: max(0, min((-size) % k, mx))
    raise ValueError(spec)


def check(case):
    sid, v, etm = case["suite"], tuple(case["ver"]), case["etm"]
    suite = iana.SUITES[sid]
    DET.reseed("C01", sid, v, etm, case.get("salt", 0))
    c_extra = {"record_size_limit": case["c_rsl"]}
    s_extra = {"record_size_limit": case["s_rsl"]}
    pad = case.get("pad13")
    if v == (3, 4) and pad:
        c_extra["padding_cb"] = pad_cb_for(pad)
        s_extra["padding_cb"] = pad_cb_for(pad)
    if case.get("hrr") and v == (3, 4):
        # the handshake goes through a HelloRetryRequest (the limits are
        # lifted for the second ClientHello and have to be put back)
        c_extra.update(keyShares=["x25519"],
                       eccCurves=["x25519", "secp256r1"])
        s_extra.update(eccCurves=["secp256r1", "secp384r1"],
                       keyShares=["secp256r1"])
    copts, sopts = sc.pin(suite, v, etm=etm, c_extra=c_extra,
                          s_extra=s_extra)
    labels = ["ver=%d.%d" % v, "kind=" + suite.kind +
              ("+etm" if etm and suite.kind == "cbc" else "")]
    if case.get("hrr") and v == (3, 4):
        labels.append("hrr")
    if case.get("resume"):
        # the data phase runs on a *resumed* connection (abbreviated
        # handshake: extensions are negotiated on another code path)
        from tlslite.api import SessionCache
        sopts["sessionCache"] = SessionCache()
        sopts["settings"].ticketKeys = [bytearray(b"c01" * 11)[:32]]
        p0 = sc.connect(dict(copts), dict(sopts))
        if not p0.both_ok:
            return bad("handshake-fails:%04x:%s" % (sid, sc.VERNAME[v]),
                       "client %r server %r" % (p0.co, p0.so), labels=labels)
        sc.do_write(p0, "s", b"t")
        sc.read_all(p0, "c")
        sc.do_close(p0, "c")
        sc.read_all(p0, "s")
        copts["session"] = p0.c.session
        DET.reseed("C01r", sid, v, etm, case.get("salt", 0))
    p = sc.connect(copts, sopts)
    if case.get("resume"):
        labels.append("resumed" if p.both_ok and p.c.resumed
                      else "not-resumed")
    if not p.both_ok:
        return bad("handshake-fails:%04x:%s" % (sid, sc.VERNAME[v]),
                   "client %r server %r" % (p.co, p.so), labels=labels)
    if p.c.session.cipherSuite != sid or p.c.version != v or \
            p.s.session.cipherSuite != sid or p.s.version != v:
        return bad("pin-mismatch:%04x:%s" % (sid, sc.VERNAME[v]),
                   "negotiated %04x %r" % (p.c.session.cipherSuite,
                                           p.c.version), labels=labels)
    # limit negotiated by the extension (RFC 8449): what side X may send is
    # what the peer advertised
    adv = {"c": case["c_rsl"], "s": case["s_rsl"]}
    negotiated = adv["c"] is not None and adv["s"] is not None
    if negotiated and v < (3, 4):
        negotiated = 28 in RefView(p).server_hello["exts"]
    hard = {}
    for side, peer in (("c", "s"), ("s", "c")):
        if negotiated:
            a = adv[peer]
            if v == (3, 4):
                hard[side] = min(2 ** 14 + 1, a)      # on inner plaintext
            else:
                hard[side] = min(2 ** 14, a)
        else:
            hard[side] = 2 ** 14 + 1 if v == (3, 4) else 2 ** 14
    user = {"c": 2 ** 14, "s": 2 ** 14}
    recs_used = 0       # records written so far in this case (both sides)
    wire_used = 0       # ... and roughly how many bytes they took
    use_ref = not suite.draft
    rv = RefView(p) if use_ref else None
    fifo = {"c": bytearray(), "s": bytearray()}     # written by side
    taken = {"c": 0, "s": 0}                        # read by the peer
    total = {"c": 0, "s": 0}
    seen_recs = {"c": 0, "s": 0}
    multi = False
    boundary = False
    wrote = set()
    if rv is not None:
        for side in "cs":
            rv.follow(side)                         # skip Finished/tickets
            seen_recs[side] = len(rv.plain[side])
    else:
        from vlib.wire import records as _recs
        for side in "cs":
            seen_recs[side] = len(_recs(p.link.wire(side))[0])
    for i, op in enumerate(case["ops"]):
        kind = op[0]
        if kind == "rs":
            _, side, size = op
            p.conn(side).recordSize = size
            user[side] = size
            continue
        if kind == "ku":
            if v != (3, 4):
                continue
            _, side, req = op
            outs, _ = drive({side: p.conn(side).send_keyupdate_request(
                1 if req else 0)}, p.link, on_stall="leave")
            if not outs[side].ok:
                return bad("keyupdate-fails", repr(outs[side]),
                           labels=labels)
            labels.append("keyupdate")
            if rv is not None:
                rv.follow(side)
                seen_recs[side] = len(rv.plain[side])
            continue
        if kind == "w":
            _, side, n = op
            # (a write is cut into records of min(user, negotiated) bytes:
            # at most 3000 records per write, so that tiny record sizes with
            # the pure-Python ciphers stay within the per-case CPU budget)
            per = max(1, min(user[side], hard[side]))
            # (what one record costs on the wire: a padding callback may
            # fill every TLS 1.3 record up to the limit)
            est = per + 32
            if v == (3, 4) and pad:
                est = hard[side] if pad[0] == "fill" else per + 32 + (
                    pad[1] if len(pad) > 1 else 0)
            room = max(1, min(3000, 4000 - recs_used,
                              (1500000 - wire_used) // est))
            if n > room * per:
                n = room * per + (n % per if room > 1 else 0)
                labels.append("write-capped")
            k_recs = -(-n // per) if n else 1
            recs_used += k_recs
            wire_used += k_recs * est
            data = prg(b"C01/%d/%d" % (case.get("salt", 0), i), n)
            fill = case.get("fill")
            if fill == "zeros":
                data = bytes(n)
            elif fill == "lead0":
                data = bytes(min(n, 40)) + data[min(n, 40):]
            elif fill == "trail0":
                data = data[:max(0, n - 40)] + bytes(min(n, 40))
            elif fill == "ff":
                data = b"\xff" * n
            # the caller's buffer type varies; a mutable one must come back
            # untouched (it may be written again)
            arg = data
            if case.get("ptype") == "bytearray" or (
                    case.get("ptype") == "mixed" and i % 2):
                arg = bytearray(data)
            o = sc.do_write(p, side, arg)
            if not o.ok:
                return bad("write-fails:%s" % suite.kind,
                           "op %d %r -> %r" % (i, op, o), labels=labels)
            if bytes(arg) != data:
                return bad("write-modifies-caller-buffer:%s:%s" % (
                    suite.kind, sc.VERNAME[v]),
                    "op %d: the %d-byte bytearray handed to write() is %d "
                    "bytes long afterwards" % (i, n, len(arg)),
                    labels=labels)
            fifo[side] += data
            total[side] += n
            wrote.add(side)
            eff_pt = min(user[side], 2 ** 14,
                         hard[side] - 1 if v == (3, 4) else hard[side])
            if n > eff_pt:
                multi = True
            if n and (n % eff_pt in (0, 1, eff_pt - 1)):
                boundary = True
            if rv is not None:
                rv.follow(side)
                if rv.errors:
                    return bad("ref-receiver-rejects:%s:%s" % (
                        suite.kind, sc.VERNAME[v]), rv.errors[0],
                        labels=labels)
                new = rv.plain[side][seen_recs[side]:]
                seen_recs[side] = len(rv.plain[side])
                got = b"".join(pt for ct, pt, r in new if ct == 23)
                # (TLS 1.3: the answer to the peer's KeyUpdate request may
                # travel between the data records)
                if got != data or any(
                        ct != 23 and not (v == (3, 4) and ct == 22 and
                                          pt[:1] == b"\x18")
                        for ct, pt, r in new):
                    return bad("wire-plaintext-differs:%s:%s" % (
                        suite.kind, sc.VERNAME[v]),
                        "op %d: reference recovered %d bytes / types %r, "
                        "written %d" % (i, len(got),
                                        sorted(set(ct for ct, _, _ in new)),
                                        n), labels=labels)
                for ct, pt, r in new:
                    if len(pt) > eff_pt:
                        return bad("record-exceeds-limit:%s" % (
                            "tls13" if v == (3, 4) else "tls"),
                            "op %d: record with %d plaintext bytes, limit "
                            "%d (user %d, negotiated %r)" % (
                                i, len(pt), eff_pt, user[side], hard[side]),
                            labels=labels)
                    if v == (3, 4):
                        inner = r["len"] - suite.tag_len
                        if inner > hard[side]:
                            return bad("record-exceeds-limit:tls13-inner",
                                       "inner plaintext %d > %d" % (
                                           inner, hard[side]), labels=labels)
                        if pad and pad[0] == "const" and ct == 23:
                            # the configured padding callback must be the
                            # one that shapes the records
                            want = pad[1]
                            got_pad = inner - len(pt) - 1
                            # (near the limit the library's own bound for the
                            # callback is what counts: not judged)
                            if want <= hard[side] - len(pt) - 3 and \
                                    got_pad != want:
                                return bad(
                                    "padding-callback-not-applied",
                                    "settings.padding_cb asks for %d bytes "
                                    "of padding, the record carries %d" % (
                                        want, got_pad), labels=labels)
            else:
                # cheap sound bound from ciphertext length
                from vlib.wire import records
                recs, _ = records(p.link.wire(side))
                first_new = seen_recs[side]
                seen_recs[side] = len(recs)
                for r in recs[first_new:]:
                    if r["type"] == 23 and r["len"] - 8 - 16 > eff_pt + 16:
                        return bad("record-exceeds-limit:draft",
                                   "ciphertext %d" % r["len"], labels=labels)
            continue
        if kind == "r":
            _, side, mx, mn = op
            src = "s" if side == "c" else "c"
            pending = len(fifo[src]) - taken[src]
            if pending == 0:
                labels.append("read-skipped-empty")
                continue
            mn = min(mn, pending)
            mx = max(mx, mn, 1)
            o = sc.do_read(p, side, mx, mn)
            if not o.ok:
                return bad("read-fails:%s:%s" % (suite.kind, sc.VERNAME[v]),
                           "op %d %r -> %r" % (i, op, o), labels=labels)
            got = bytes(o.value)
            exp = bytes(fifo[src][taken[src]:taken[src] + len(got)])
            if got != exp or len(got) < mn or len(got) > mx:
                return bad("read-differs:%s:%s" % (suite.kind,
                                                   sc.VERNAME[v]),
                           "op %d %r: got %d bytes (min %d max %d) equal=%r"
                           % (i, op, len(got), mn, mx, got == exp),
                           labels=labels)
            taken[src] += len(got)
            continue
        raise HarnessError("bad op %r" % (op,))
    fin = case.get("fin")
    if fin:
        # the writer closes with data still undelivered; the reader asks for
        # more than is left: every pending byte must still come out, in
        # order, before the stream ends
        rd, mx, mn = fin
        src = "s" if rd == "c" else "c"
        rest, last = sc.read_all(p, src)        # other direction first
        exp = bytes(fifo[rd][taken[rd]:])
        if rest != exp:
            return bad("drain-differs:%s:%s" % (suite.kind, sc.VERNAME[v]),
                       "side %s: got %d bytes, expected %d" % (
                           src, len(rest), len(exp)), labels=labels)
        taken[rd] += len(rest)
        o = sc.do_close(p, src)
        if not o.ok:
            return bad("close-fails:%s" % suite.kind, repr(o), labels=labels)
        exp = bytes(fifo[src][taken[src]:])
        got = bytearray()
        for _ in range(len(exp) + 3):
            o = sc.do_read(p, rd, max(mx, mn, 1), mn)
            if o.state == "done" and o.value:
                got += o.value
                continue
            break
        labels.append("fin-close")
        if bytes(got) != exp:
            return bad("data-lost-at-close:%s" % sc.VERNAME[v],
                       "writer closed with %d bytes undelivered; reads "
                       "(max %d, min %d) returned %d bytes, equal prefix=%r, "
                       "then %r" % (len(exp), mx, mn, len(got),
                                    exp.startswith(bytes(got)), o),
                       labels=labels)
        taken[src] += len(got)
        nt = (multi or boundary or len(exp) > 0) and bool(wrote)
        return good(nt=nt, labels=labels)
    # drain
    for side, src in (("c", "s"), ("s", "c")):
        rest, last = sc.read_all(p, side)
        exp = bytes(fifo[src][taken[src]:])
        if rest != exp:
            return bad("drain-differs:%s:%s" % (suite.kind, sc.VERNAME[v]),
                       "side %s: got %d bytes, expected %d, equal prefix=%r"
                       % (side, len(rest), len(exp),
                          exp.startswith(rest)), labels=labels)
        if last is not None and last.state != "blocked":
            return bad("drain-end:%s" % suite.kind,
                       "after draining, read gave %r" % (last,),
                       labels=labels)
    nt = (multi or boundary) and wrote == set("cs")
    if multi:
        labels.append("multi-record")
    if boundary:
        labels.append("boundary")
    if negotiated:
        labels.append("rsl-negotiated")
    if case.get("pad13") and v == (3, 4):
        labels.append("tls13-padding")
    return good(nt=nt, labels=labels)


# ---------------------------------------------------------------------------
def len_strategy():
    small = st.sampled_from([0, 1, 2, 15, 16, 17, 31, 32, 33, 63, 64, 65,
                             255, 256, 257, 511, 512, 513])
    return st.one_of(
        small, st.integers(0, 2000),
        st.sampled_from([2 ** 14 - 1, 2 ** 14, 2 ** 14 + 1, 2 ** 15 + 3]))


@st.composite
def history(draw, max_ops, big):
    ops = []
    n = draw(st.integers(2, max_ops))
    sizes = [1, 15, 16, 17, 63, 64, 65, 255, 256, 2 ** 14 - 1, 2 ** 14]
    for _ in range(n):
        k = draw(st.sampled_from(["w", "w", "w", "r", "r", "rs", "ku"]))
        side = draw(st.sampled_from(["c", "s"]))
        if k == "w":
            ln = draw(len_strategy() if big else st.one_of(
                st.integers(0, 700), st.sampled_from([0, 1, 63, 64, 65, 66,
                                                      127, 128, 129, 256])))
            ops.append(["w", side, ln])
        elif k == "ku":
            ops.append(["ku", side, draw(st.booleans())])
        elif k == "r":
            mx = draw(st.sampled_from([1, 2, 16, 100, 5000, 70000]))
            mn = draw(st.sampled_from([0, 1, 1, 2, 50, 3000]))
            ops.append(["r", side, mx, mn])
        else:
            ops.append(["rs", side, draw(st.one_of(
                st.sampled_from(sizes), st.integers(1, 600)))])
    return ops


RSL = [None, 64, 65, 100, 511, 512, 2 ** 14, 2 ** 14 + 1]


def fix_rsl(v, x):
    # HandshakeSettings: at most 2**14+1; for <= TLS 1.2 the library lowers
    # it itself
    return x


@st.composite
def case_strategy(draw, big):
    sid, v, etm = draw(st.sampled_from(triples()))
    d = {"suite": sid, "ver": list(v), "etm": etm,
         "c_rsl": draw(st.sampled_from(RSL + [2 ** 14 + 1] * 3)),
         "s_rsl": draw(st.sampled_from(RSL + [2 ** 14 + 1] * 3)),
         "salt": draw(st.integers(0, 7)),
         "ops": draw(history(8 if not big else 12, big))}
    if v == (3, 4):
        d["pad13"] = draw(st.sampled_from(
            [None, None, ["const", 1], ["const", 100], ["fill"],
             ["mod", 64], ["mod", 512]]))
    d["fill"] = draw(st.sampled_from(["prg", "prg", "zeros", "lead0",
                                      "trail0", "ff"]))
    d["resume"] = draw(st.integers(0, 3)) == 0
    d["hrr"] = draw(st.integers(0, 2)) == 0
    d["ptype"] = draw(st.sampled_from(["bytes", "bytearray", "mixed"]))
    if draw(st.integers(0, 3)) == 0:
        d["fin"] = [draw(st.sampled_from(["c", "s"])),
                    draw(st.sampled_from([1, 16, 100, 70000])),
                    draw(st.sampled_from([1, 2, 50, 3000, 70000]))]
    return d


def strategy(tier):
    return case_strategy(tier == "thorough")


def budget(tier):
    return 500 if tier == "quick" else 9000


def explicit(tier, seed):
    """Every triple once with a fixed, boundary-heavy history."""
    for k, (sid, v, etm) in enumerate(triples()):
        rs = [64, 65, 100, 512][k % 4]
        d = {"suite": sid, "ver": list(v), "etm": etm,
             "c_rsl": [None, 2 ** 14 + 1, 100, 64][k % 4],
             "s_rsl": [2 ** 14 + 1, 2 ** 14 + 1, 65, None][k % 4],
             "salt": seed % 8, "ptype": ["bytes", "bytearray", "mixed"][k % 3],
             "ops": [["w", "c", 700], ["w", "s", 700], ["r", "c", 800, 700],
                     ["w", "c", 5], ["w", "s", 0], ["w", "s", 300],
                     ["r", "s", 3, 1], ["rs", "c", rs], ["w", "c", rs],
                     ["w", "c", rs + 1], ["w", "s", 2 * rs - 1],
                     ["r", "c", 100, 50], ["w", "c", 3 * rs + 17],
                     ["rs", "s", 1], ["w", "s", 3], ["r", "s", 70000, 2]]}
        if v == (3, 4):
            d["pad13"] = [None, ["const", 7], ["fill"], ["mod", 64]][k % 4]
        yield d
        if v == (3, 4):
            d4 = dict(d)
            d4["hrr"] = True
            d4["c_rsl"], d4["s_rsl"] = [(512, 2 ** 14), (2 ** 14 + 1, 64),
                                        (300, 300)][k % 3]
            yield d4
        if k % 2 == 0:
            # same history on a resumed connection, zero-heavy payloads,
            # asymmetric limits, repeated KeyUpdates
            d3 = dict(d)
            d3["resume"] = True
            d3["fill"] = ["zeros", "lead0", "trail0", "ff"][(k // 2) % 4]
            d3["c_rsl"], d3["s_rsl"] = [(2 ** 14, 1024), (512, 2 ** 14),
                                        (2 ** 14 + 1, 64)][(k // 2) % 3]
            # (each side answers a KeyUpdate request when it reads, and
            # re-keys its own direction again afterwards)
            d3["ops"] = [["w", "c", 3000], ["w", "s", 3000],
                         ["ku", "s", True], ["r", "c", 3000, 3000],
                         ["ku", "c", False], ["w", "c", 700],
                         ["r", "s", 3700, 3700], ["ku", "c", True],
                         ["w", "s", 40000], ["r", "s", 10, 0],
                         ["r", "c", 70000, 40000], ["ku", "s", False],
                         ["w", "c", 17000], ["w", "s", 5],
                         ["r", "s", 70000, 17000], ["ku", "s", True],
                         ["ku", "c", True], ["w", "c", 9], ["w", "s", 9]]
            yield d3
        if k % 3 == 0:
            d2 = dict(d)
            d2["ops"] = [["w", "c", 30], ["w", "s", 30], ["w", "c", 20],
                         ["w", "s", 20], ["r", "c", 10, 10],
                         ["r", "s", 10, 10]]
            d2["fin"] = ["cs"[(k // 3) % 2], [100, 70000, 16][k % 3],
                         [60, 3000, 41][(k // 3) % 3]]
            yield d2
