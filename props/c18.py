"""C18 - shared objects stay correct under every thread interleaving."""
import hashlib
import itertools
import threading

from hypothesis import strategies as st

from vlib.runner import good, bad, HarnessError
from vlib.det import DET
from vlib import scenario as sc
from vlib.tsched import Sched, CoopLock

from tlslite.sessioncache import SessionCache
from tlslite.session import Session
from tlslite.verifierdb import VerifierDB
import tlslite.sessioncache as sessioncache_mod

ID = "C18"
LEVEL = "exploration"
RULE = ("(seq) Hypothesis histories of set / get / advance-clock / "
        "invalidate on a SessionCache with small id alphabets, maxEntries "
        "1..6 and maxAge 10, compared after every step with a dictionary-"
        "with-ages reference model; (conc) 2-3 threads x <= 3 operations on "
        "one SessionCache / VerifierDB / Python_RSAKey run under a "
        "settrace-based scheduler with cooperative locks (every lock the "
        "object creates, also lazily, is the scheduler's; RSA keys are "
        "fresh per case): the schedule "
        "(list of switch decisions at line-level preemption points) is "
        "generated, all schedules with one switch anywhere or two switches "
        "in the first 40 (thorough 80) points "
        "are enumerated for fixed 2x2 programs; results must be explainable "
        "by a sequential order of the operations (program order respected) "
        "and RSA results must equal the sequential answers; (stress) free-"
        "running threads, invariants only. non-trivial = history with a "
        "repeated id or an expiry between set and get / schedule with at "
        "least one switch; distinct = hash(case)")
ASSUMPTIONS = [
    "preemption at source-line granularity under the GIL; C-level and "
    "free-threaded races are out of reach",
    "age exactly equal to maxAge, and an entry with exactly maxEntries-1 "
    "newer stores, are 'either' (the documentation and the code agree only "
    "outside these boundaries)",
]
MAX_WALL = {"quick": 240, "thorough": 3000}


def init(tier, seed):
    DET.install()


def mk_session(tag, resumable=True):
    s = Session()
    s.sessionID = bytearray(hashlib.sha256(tag.encode()).digest()[:8])
    s.resumable = resumable
    s.tag = tag
    return s


# ---------------------------------------------------------------------------
# sequential model-based check
# ---------------------------------------------------------------------------
def check_seq(case):
    labels = ["seq"]
    me, ma = case["maxEntries"], case["maxAge"]
    DET.reseed("C18seq")
    cache = SessionCache(maxEntries=me, maxAge=ma)
    sessions = {}
    log = []            # (id, time, sess_tag) per set, in order
    repeated = expiry = False
    ids_seen = set()
    for i, op in enumerate(case["ops"]):
        k = op[0]
        try:
            if k == "set":
                _, idn, sn = op
                tag = "s%d" % sn
                sess = sessions.setdefault(tag, mk_session(tag))
                key = bytearray(b"id%d" % idn)
                if idn in ids_seen:
                    repeated = True
                ids_seen.add(idn)
                cache[key] = sess
                log.append((idn, DET.now, tag))
            elif k == "adv":
                DET.advance(op[1])
                if op[1] > 0:
                    expiry = True
            elif k == "inv":
                tag = "s%d" % op[1]
                if tag in sessions:
                    sessions[tag].resumable = False
            elif k == "invr":
                # the session of the op[1]-th most recent store
                if log:
                    sessions[log[-1 - op[1] % len(log)][2]].resumable = False
            elif k == "get":
                idn = op[1]
                key = bytearray(b"id%d" % idn)
                try:
                    got = cache[key]
                    got_tag = got.tag
                except KeyError:
                    got_tag = None
                # model
                last = None
                newer = 0
                for (j, t, tag) in reversed(log):
                    if j == idn:
                        last = (t, tag)
                        break
                    newer += 1
                if last is None:
                    must, may = None, set([None])
                else:
                    t, tag = last
                    age = DET.now - t
                    valid = sessions[tag].resumable
                    if not valid or age > ma:
                        must, may = None, set([None])
                    elif age == ma or newer >= me - 1:
                        must, may = "either", set([None, tag])
                    else:
                        must, may = tag, set([tag])
                if got_tag not in may:
                    kind = "returns-wrong-or-stale" if got_tag is not None \
                        else "loses-live-entry"
                    why = ("expired" if last and DET.now - last[0] > ma
                           else "invalid" if last and not sessions[
                               last[1]].resumable else "")
                    return bad("cache-%s:%s" % (kind, why or (
                        "dup-id" if repeated else "plain")),
                        "step %d %r: got %r, model allows %r; history=%r" %
                        (i, op, got_tag, sorted(map(str, may)),
                         case["ops"][:i + 1]), labels=labels)
            else:
                raise HarnessError(op)
        except KeyError:
            raise
        except HarnessError:
            raise
        except Exception as e:      # noqa
            return bad("cache-internal-error:%s" % type(e).__name__,
                       "step %d %r raised %r; history=%r" % (
                           i, op, e, case["ops"][:i + 1]), labels=labels)
    # size bound: number of retrievable ids
    try:
        n_live = 0
        for idn in sorted(ids_seen):
            try:
                cache[bytearray(b"id%d" % idn)]
                n_live += 1
            except KeyError:
                pass
    except Exception as e:      # noqa
        return bad("cache-internal-error:%s" % type(e).__name__,
                   "final scan raised %r; history=%r" % (e, case["ops"]),
                   labels=labels)
    if n_live > me:
        return bad("cache-exceeds-size-bound",
                   "%d live entries, maxEntries=%d" % (n_live, me),
                   labels=labels)
    if len(cache.entriesDict) > me:
        return bad("cache-exceeds-size-bound:dict",
                   "%d dict entries" % len(cache.entriesDict), labels=labels)
    if repeated:
        labels.append("repeated-id")
    if expiry:
        labels.append("clock-advanced")
    return good(nt=repeated or expiry, labels=labels)


# bounded-exhaustive sequential histories: one case = every history that
# starts with a given prefix over a small operation alphabet
ENUM_OPS = [["set", 0, 0], ["set", 1, 1], ["set", 2, 2], ["set", 0, 3],
            ["get", 0], ["get", 1], ["adv", 6], ["invr", 0]]


def check_seq_enum(case):
    import itertools
    labels = ["seq-enum", "maxEntries=%d" % case["maxEntries"],
              "depth=%d" % case["depth"]]
    prefix = [ENUM_OPS[i] for i in case["prefix"]]
    n = 0
    for tail in itertools.product(range(len(ENUM_OPS)),
                                  repeat=case["depth"] - len(prefix)):
        ops = prefix + [ENUM_OPS[i] for i in tail]
        if ops[-1][0] != "get" and ops[-1][0] != "set":
            continue        # (a last step that observes nothing)
        r = check_seq({"k": "seq", "maxEntries": case["maxEntries"],
                       "maxAge": 10, "ops": ops})
        n += 1
        if not r.ok:
            return r
    labels.append("histories=%d" % n)
    return good(labels=labels)


# ---------------------------------------------------------------------------
# scheduled concurrency
# ---------------------------------------------------------------------------
def seq_consistent(programs, results, apply_op, init_state, final=None,
                   spans=None):
    """Is there an interleaving respecting program order that explains all
    results - and, when given, the state ``final`` observed from one thread
    after every program has returned (quiescence: those reads follow every
    operation in real time)? programs: list of op lists; results: same
    shape; final: {key: value or absent-marker} for the probed keys."""
    n = len(programs)
    idx = [0] * n

    def may_go(t, idx):
        """real-time order (linearizability): with spans[t][i] = (call,
        return) on the scheduler's logical clock, an operation cannot take
        effect before one that had already returned when it was called"""
        if spans is None:
            return True
        start = spans[t][idx[t]][0]
        for u in range(n):
            if u != t and idx[u] < len(programs[u]) and \
                    spans[u][idx[u]][1] < start:
                return False
        return True

    def rec(state, idx):
        if all(idx[t] == len(programs[t]) for t in range(n)):
            if final is None:
                return True
            return all(state.get(k) == v for k, v in final.items())
        for t in range(n):
            if idx[t] < len(programs[t]) and may_go(t, idx):
                op = programs[t][idx[t]]
                st2, res = apply_op(state, op)
                if res == results[t][idx[t]]:
                    idx2 = list(idx)
                    idx2[t] += 1
                    if rec(st2, idx2):
                        return True
        return False
    return rec(init_state, idx)


def cache_apply(state, op):
    d = dict(state)
    if op[0] == "set":
        d[op[1]] = op[2]
        return d, "ok"
    return d, d.get(op[1])


def check_conc_cache(case):
    labels = ["conc-cache"]
    DET.reseed("C18c")
    cache = SessionCache(maxEntries=50, maxAge=1000)
    sched = Sched(("sessioncache.py",), case["schedule"])
    lock = CoopLock(sched)
    cache.lock = lock
    sessions = {}
    tick = [0]
    spans = [[] for _ in case["programs"]]

    def job(ti, prog):
        def run():
            out = []
            for op in prog:
                t0 = tick[0]
                tick[0] += 1
                if op[0] == "set":
                    tag = op[2]
                    cache[bytearray(op[1].encode())] = sessions[tag]
                    out.append("ok")
                else:
                    try:
                        out.append(cache[bytearray(op[1].encode())].tag)
                    except KeyError:
                        out.append(None)
                spans[ti].append((t0, tick[0]))
                tick[0] += 1
            return out
        return run
    programs = case["programs"]
    for prog in programs:
        for op in prog:
            if op[0] == "set":
                sessions[op[2]] = mk_session(op[2])
    results, errors = sched.run([job(i, p) for i, p in enumerate(programs)],
                                locks=[lock])
    nt = sched.switches > 0
    labels.append("switches=%d" % min(sched.switches, 5))
    if sched.in_critical_preempt:
        labels.append("preempted-in-critical-section")
    if errors:
        if "hang" in errors:
            raise HarnessError("scheduler hang")
        k = sorted(errors, key=str)[0]
        e = errors[k]
        return bad("cache-concurrent-error:%s" % (
            type(e).__name__ if not isinstance(e, bool) else k),
            "errors %r; case=%r" % (errors, case), nt=nt, labels=labels)
    res = [results.get(i) for i in range(len(programs))]
    if any(r is None for r in res):
        raise HarnessError("thread produced no result (points=%d)" %
                           sched.points)
    final = {}
    for key in ("a", "b"):
        try:
            final[key] = cache[bytearray(key.encode())].tag
        except KeyError:
            final[key] = None
    if not seq_consistent(programs, res, cache_apply, {}, None, spans):
        return bad("cache-not-linearizable",
                   "programs %r results %r spans %r" % (programs, res, spans),
                   nt=nt, labels=labels)
    if not seq_consistent(programs, res, cache_apply, {}):
        return bad("cache-not-sequentially-consistent",
                   "programs %r results %r schedule %r" % (
                       programs, res, case["schedule"]), nt=nt,
                   labels=labels)
    if not seq_consistent(programs, res, cache_apply, {}, final, spans):
        return bad("cache-final-state-unexplained",
                   "programs %r results %r then quiescent reads %r" % (
                       programs, res, final), nt=nt, labels=labels)
    # final state must equal the last write per id in *some* order: check
    # each id maps to one of the values written to it
    for prog in programs:
        for op in prog:
            if op[0] == "set":
                try:
                    v = cache[bytearray(op[1].encode())].tag
                except KeyError:
                    return bad("cache-loses-live-entry:concurrent",
                               "id %s missing after the run; %r" % (
                                   op[1], case), nt=nt, labels=labels)
    # the internal structure must still be sound: let everything expire and
    # walk it sequentially
    try:
        DET.advance(2000)
        for key in (b"a", b"b", b"zz"):
            try:
                cache[bytearray(key)]
                return bad("cache-returns-expired:after-concurrency",
                           repr(case), nt=nt, labels=labels)
            except KeyError:
                pass
        probe = mk_session("probe")
        cache[bytearray(b"probe")] = probe
        if cache[bytearray(b"probe")] is not probe:
            return bad("cache-wrong-entry:after-concurrency", repr(case),
                       nt=nt, labels=labels)
        if len(cache.entriesDict) != 1:
            return bad("cache-leaks-entries:after-concurrency",
                       "%d entries left after expiry" % len(
                           cache.entriesDict), nt=nt, labels=labels)
    except Exception as e:      # noqa
        return bad("cache-corrupted-by-concurrency:%s" % type(e).__name__,
                   "%r; case=%r" % (e, case), nt=nt, labels=labels)
    return good(nt=nt, labels=labels)


def db_apply(state, op):
    d = dict(state)
    k = op[0]
    if k == "set":
        d[op[1]] = op[2]
        return d, "ok"
    if k == "get":
        return d, d.get(op[1], "KeyError")
    if k == "in":
        return d, op[1] in d
    if k == "del":
        if op[1] in d:
            del d[op[1]]
            return d, "ok"
        return d, "KeyError"
    raise HarnessError(op)


_verifiers = {}


def verifier(tag):
    if tag not in _verifiers:
        prev = DET.current
        DET.current = "verifier-" + tag
        _verifiers[tag] = VerifierDB.makeVerifier("u", tag, 1024)
        DET.current = prev
    return _verifiers[tag]


def check_conc_db(case):
    labels = ["conc-db"]
    db = VerifierDB()
    db.create()
    sched = Sched(("basedb.py", "verifierdb.py"), case["schedule"])
    lock = CoopLock(sched)
    db.lock = lock
    programs = case["programs"]
    for prog in programs:
        for op in prog:
            if op[0] == "set":
                verifier(op[2])

    tick = [0]
    spans = [[] for _ in programs]

    def job(ti, prog):
        def run():
            out = []
            for op in prog:
                k = op[0]
                key = op[1].encode()
                t0 = tick[0]
                tick[0] += 1
                try:
                    if k == "set":
                        db[key] = verifier(op[2])
                        out.append("ok")
                    elif k == "get":
                        v = db[key]
                        tag = [t for t, ver in _verifiers.items()
                               if tuple(ver) == tuple(v)]
                        out.append(tag[0] if tag else "garbage")
                    elif k == "in":
                        out.append(key in db)
                    elif k == "del":
                        del db[key]
                        out.append("ok")
                except KeyError:
                    out.append("KeyError")
                spans[ti].append((t0, tick[0]))
                tick[0] += 1
            return out
        return run
    results, errors = sched.run([job(i, p) for i, p in enumerate(programs)],
                                locks=[lock])
    nt = sched.switches > 0
    if errors:
        if "hang" in errors:
            raise HarnessError("scheduler hang")
        e = list(errors.values())[0]
        return bad("db-concurrent-error:%s" % type(e).__name__,
                   "%r; case=%r" % (errors, case), nt=nt, labels=labels)
    res = [results.get(i) for i in range(len(programs))]
    if not seq_consistent(programs, res, db_apply, {}):
        return bad("db-not-sequentially-consistent",
                   "programs %r results %r" % (programs, res), nt=nt,
                   labels=labels)
    if not seq_consistent(programs, res, db_apply, {}, None, spans):
        return bad("db-not-linearizable",
                   "programs %r results %r spans %r" % (programs, res, spans),
                   nt=nt, labels=labels)
    # quiescent probe: every way of reading must agree with one final state
    final = {}
    try:
        keys = set(bytes(k) for k in db.keys())
    except Exception as e:      # noqa
        return bad("db-corrupted-by-concurrency:%s" % type(e).__name__,
                   repr(e), nt=nt, labels=labels)
    for key in ("a", "b"):
        kb = key.encode()
        try:
            v = db[kb]
            tag = [t for t, ver in _verifiers.items()
                   if tuple(ver) == tuple(v)]
            final[key] = tag[0] if tag else "garbage"
        except KeyError:
            final[key] = None
        if (kb in db) != (final[key] is not None) or \
                (kb in keys) != (final[key] is not None):
            return bad("db-views-disagree:after-concurrency",
                       "key %s: get %r, in %r, keys %r" % (
                           key, final[key], kb in db, kb in keys), nt=nt,
                       labels=labels)
    if not seq_consistent(programs, res, db_apply, {}, final, spans):
        return bad("db-final-state-unexplained",
                   "programs %r results %r then quiescent reads %r" % (
                       programs, res, final), nt=nt, labels=labels)
    return good(nt=nt, labels=labels)


_rsa_ref = {}


def check_conc_rsa(case):
    labels = ["conc-rsa"]
    import copy
    from tlslite.api import parsePEMKey
    import tlslite.utils.python_rsakey as prk
    from vlib.tsched import ThreadingShim
    DET.reseed("C18rsa", case.get("salt", 0))
    sched = Sched(("python_rsakey.py",), case["schedule"], max_points=40000)
    # a fresh key object per case, never used before the threads start;
    # whatever lock the key creates (when it is built or at first use) is a
    # lock of the scheduler
    real = prk.threading
    prk.threading = ThreadingShim(sched)
    try:
        return _conc_rsa(case, sched, labels)
    finally:
        prk.threading = real


def _conc_rsa(case, sched, labels):
    from tlslite.api import parsePEMKey
    with open(sc.key_pem("rsa1024")) as f:
        key = parsePEMKey(f.read(), private=True, implementations=["python"])
    n = key.n

    def expected(op):
        k = ("rsa", tuple(op))
        if k not in _rsa_ref:
            m = int.from_bytes(hashlib.sha256(repr(op).encode()).digest() *
                               4, "big") % n
            _rsa_ref[k] = (m, pow(m, key.d, n))
        return _rsa_ref[k]

    def job(prog):
        def run():
            out = []
            for op in prog:
                m, _ = expected(op)
                out.append(key._rawPrivateKeyOp(m))
            return out
        return run
    programs = case["programs"]
    for prog in programs:
        for op in prog:
            expected(op)
    results, errors = sched.run([job(p) for p in programs])
    if not sched._locks:
        raise HarnessError("the key created no lock the scheduler knows")
    nt = sched.switches > 0
    labels.append("switches=%d" % min(sched.switches, 5))
    if sched.in_critical_preempt:
        labels.append("preempted-in-critical-section")
    if errors:
        if "hang" in errors:
            raise HarnessError("scheduler hang")
        e = list(errors.values())[0]
        return bad("rsa-concurrent-error:%s" % type(e).__name__,
                   "%r" % (errors,), nt=nt, labels=labels)
    for t, prog in enumerate(programs):
        got = results.get(t)
        if got is None:
            raise HarnessError("no result")
        for op, g in zip(prog, got):
            m, want = expected(op)
            if g != want:
                return bad("rsa-wrong-result-under-interleaving",
                           "thread %d op %r: result does not satisfy "
                           "r^e = m; schedule %r" % (t, op,
                                                     case["schedule"]),
                           nt=nt, labels=labels)
    return good(nt=nt, labels=labels)


def check_stress(case):
    """free-running threads; invariants only"""
    labels = ["stress", case["target"]]
    errs = []
    if case["target"] == "cache":
        cache = SessionCache(maxEntries=8, maxAge=1000)
        sess = [mk_session("t%d" % i) for i in range(12)]

        def work(tid):
            try:
                for i in range(case["iters"]):
                    k = (tid * 7 + i) % 12
                    cache[bytearray(b"k%d" % k)] = sess[k]
                    try:
                        got = cache[bytearray(b"k%d" % ((k + 3) % 12))]
                        if got.tag != "t%d" % ((k + 3) % 12):
                            errs.append("wrong entry")
                    except KeyError:
                        pass
                    if len(cache.entriesDict) > 8:
                        errs.append("size bound")
            except Exception as e:      # noqa
                errs.append(repr(e))
    else:
        key = sc.cred("rsa1024")[1]
        n = key.n

        def work(tid):
            try:
                for i in range(case["iters"]):
                    m = (tid * 1000003 + i * 7919 + 2) % n
                    r = key._rawPrivateKeyOp(m)
                    if pow(r, key.e, n) != m:
                        errs.append("wrong rsa result")
            except Exception as e:      # noqa
                errs.append(repr(e))
    ts = [threading.Thread(target=work, args=(i,))
          for i in range(case["threads"])]
    for t in ts:
        t.start()
    for t in ts:
        t.join(120)
    if any(t.is_alive() for t in ts):
        raise HarnessError("stress threads did not finish")
    if errs:
        return bad("stress-%s:%s" % (case["target"], errs[0][:40]),
                   repr(errs[:3]), labels=labels)
    return good(labels=labels)


def check(case):
    return {"seq": check_seq, "cache": check_conc_cache,
            "seqenum": check_seq_enum,
            "db": check_conc_db, "rsa": check_conc_rsa,
            "stress": check_stress}[case["k"]](case)


# ---------------------------------------------------------------------------
@st.composite
def seq_case(draw):
    me = draw(st.integers(1, 6))
    nid = draw(st.integers(1, 5))
    ops = draw(st.lists(st.one_of(
        st.tuples(st.just("set"), st.integers(0, nid), st.integers(0, 6)),
        st.tuples(st.just("set"), st.integers(0, nid), st.integers(0, 6)),
        st.tuples(st.just("get"), st.integers(0, nid)),
        st.tuples(st.just("get"), st.integers(0, nid)),
        st.tuples(st.just("adv"), st.sampled_from([0, 1, 4, 5, 6, 9, 10,
                                                   11])),
        st.tuples(st.just("inv"), st.integers(0, 6)),
        st.tuples(st.just("invr"), st.integers(0, 3))).map(list),
        min_size=2, max_size=25))
    return {"k": "seq", "maxEntries": me, "maxAge": 10, "ops": ops}


@st.composite
def conc_case(draw, kind):
    nthreads = draw(st.integers(2, 3))
    ids = ["a", "b"]
    programs = []
    cnt = 0
    for t in range(nthreads):
        prog = []
        for _ in range(draw(st.integers(1, 3))):
            if kind == "rsa":
                prog.append(["op", t, len(prog)])
            elif kind == "cache":
                if draw(st.booleans()):
                    cnt += 1
                    prog.append(["set", draw(st.sampled_from(ids)),
                                 "v%d" % cnt])
                else:
                    prog.append(["get", draw(st.sampled_from(ids))])
            else:
                k = draw(st.sampled_from(["set", "get", "in", "del"]))
                if k == "set":
                    cnt += 1
                    prog.append(["set", draw(st.sampled_from(ids)),
                                 "p%d" % (cnt % 4)])
                else:
                    prog.append([k, draw(st.sampled_from(ids))])
        programs.append(prog)
    sched = draw(st.lists(st.sampled_from([0, 0, 0, 0, 1, 1, 2]),
                          max_size=60 if kind != "rsa" else 120))
    return {"k": kind, "programs": programs, "schedule": sched,
            "salt": draw(st.integers(0, 3))}


def strategy(tier):
    return st.one_of(seq_case(), seq_case(), seq_case(), conc_case("cache"),
                     conc_case("cache"), conc_case("db"), conc_case("rsa"))


def budget(tier):
    return 8000 if tier == "quick" else 200000


def explicit(tier, seed):
    # bounded-exhaustive schedules for fixed 2x2 programs: all placements of
    # <= 2 switches among the first 12 preemption points
    # (an honest run of these programs has 39 / 44 / 76 preemption points)
    horizon = 80
    pair_horizon = 40 if tier == "quick" else 80
    progs = {
        "cache": [[["set", "a", "v1"], ["get", "a"]],
                  [["set", "a", "v2"], ["get", "a"]]],
        "rsa": [[["op", 0, 0], ["op", 0, 1]], [["op", 1, 0], ["op", 1, 1]]],
        "db": [[["set", "a", "p1"], ["get", "a"]],
               [["del", "a"], ["in", "a"]]],
        "db2": [[["set", "a", "p1"], ["get", "a"], ["get", "a"]],
                [["set", "a", "p2"]]],
    }
    for kind, programs in progs.items():
        kind = kind.rstrip("2")
        yield {"k": kind, "programs": programs, "schedule": []}
        for i in range(horizon):
            s = [0] * i + [1]
            yield {"k": kind, "programs": programs, "schedule": s}
            for j in range(i + 1, pair_horizon):
                s2 = [0] * i + [1] + [0] * (j - i - 1) + [1]
                yield {"k": kind, "programs": programs, "schedule": s2}
    yield {"k": "stress", "target": "cache", "threads": 8,
           "iters": 300 if tier == "quick" else 3000}
    yield {"k": "stress", "target": "rsa", "threads": 6,
           "iters": 40 if tier == "quick" else 400}
    # every history of 6 (thorough: 7) steps over ENUM_OPS
    depth = 6 if tier == "quick" else 7
    for me in ((2, 3, 4) if tier == "quick" else (1, 2, 3, 4, 5)):
        for a in range(len(ENUM_OPS)):
            for b in range(len(ENUM_OPS)):
                yield {"k": "seqenum", "maxEntries": me, "depth": depth,
                       "prefix": [a, b]}
    # regression-style sequential histories around duplicate ids
    # the degenerate one-slot ring
    yield {"k": "seq", "maxEntries": 1, "maxAge": 10,
           "ops": [["set", 0, 0], ["get", 0], ["adv", 11], ["get", 0],
                   ["set", 1, 1], ["set", 0, 0], ["adv", 11], ["get", 0],
                   ["get", 1]]}
    yield {"k": "seq", "maxEntries": 4, "maxAge": 10,
           "ops": [["set", 0, 0], ["adv", 6], ["set", 0, 1], ["adv", 6],
                   ["get", 0], ["adv", 6], ["get", 0], ["get", 1]]}
    yield {"k": "seq", "maxEntries": 3, "maxAge": 10,
           "ops": [["set", 0, 0], ["set", 0, 1], ["set", 1, 2],
                   ["set", 2, 3], ["get", 0], ["get", 1], ["get", 2]]}
