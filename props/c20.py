"""C20 - negotiated cipher-suite semantics match the registered meaning;
a suite is never negotiated in a version that does not define it.

Exhaustive over (suite id, version); oracle = typed-in IANA table
(vlib.iana) + reference receiver / reference PRF keyed from the registered
parameters + wire observation of the key-exchange messages."""
import hashlib

from vlib.runner import good, bad, HarnessError
from vlib.det import DET
from vlib import scenario as sc
from vlib import iana, tap
from vlib.refs import kdf

ID = "C20"
LEVEL = "exploration"
RULE = ("exhaustive enumeration of every suite id the library lists x every "
        "protocol version: defined pairs are negotiated between two pinned "
        "endpoints and checked on the wire (key-exchange messages, "
        "certificate presence, master secret recomputed with the reference "
        "PRF from the premaster secret observed at calc_key (DHE suites "
        "also over a 1032-bit group: odd-length secrets), Finished "
        "recomputed with the registered PRF, "
        "records re-opened by the reference receiver with registered cipher/"
        "key/MAC/tag parameters - in TLS 1.3 also after a KeyUpdate in both "
        "directions -, ciphertext overhead, accessor names); every single "
        "cipher / MAC name shared between two all-version endpoints and "
        "every session offered again to a server capped at a lower version "
        "(cache and ticket) must announce a registered (version, suite) "
        "pair in the ServerHello; pairs "
        "the RFCs do not define are attacked from both roles (rewritten "
        "ClientHello to an all-enabled server, rewritten ServerHello to an "
        "all-enabled client); mismatching credential types must not "
        "negotiate. non-trivial = completed+verified handshake or refused "
        "undefined pair; distinct = (kind, suite, version[, credential])")
ASSUMPTIONS = [
    "'defined in version v' only where RFCs are explicit (AEAD/SHA-2 MAC "
    "suites need TLS 1.2, TLS 1.3 suites only in TLS 1.3 and no older suite "
    "there); ECC/SRP/AES suites over SSLv3 are 'either'",
    "draft-00 ChaCha20 code points are not registered: handshake and "
    "accessor checks only",
    "master secret is read from the session object; premaster secrets are "
    "not observable from outside",
]
VERSIONS = [(3, 0), (3, 1), (3, 2), (3, 3), (3, 4)]
DEAD_SUITES = (0x0040, 0x006A)


def init(tier, seed):
    DET.install()


def exhaustive(tier):
    return True


def library_suites():
    from tlslite.constants import CipherSuite as CS
    neg = set(CS.tls13Suites) | set(CS.certAllSuites) | \
        set(CS.ecdheEcdsaSuites) | set(CS.dheDsaSuites) | \
        set(CS.anonSuites) | set(CS.ecdhAnonSuites) | set(CS.srpAllSuites)
    named = set(i for i in CS.ietfNames if i < 0x10000 and
                i not in (0xff, 0x5600))
    return sorted(neg), sorted(named - neg)


def everything(minv=(3, 0), maxv=(3, 4)):
    from tlslite import handshakesettings as hs
    return dict(minVersion=minv, maxVersion=maxv,
                cipherNames=list(hs.ALL_CIPHER_NAMES),
                macNames=list(hs.ALL_MAC_NAMES),
                keyExchangeNames=list(hs.KEY_EXCHANGE_NAMES))


def explicit(tier, seed):
    neg, named_only = library_suites()
    seeds = [seed] if tier == "quick" else [seed, seed + 1, seed + 2]
    for sd in seeds:
        for sid in neg:
            s = iana.SUITES.get(sid)
            if s is None:
                raise HarnessError("suite %04x not in IANA table" % sid)
            for v in VERSIONS:
                d = s.defined_in(v)
                if d is False:
                    if sd == seeds[0]:
                        yield {"kind": "undef_server", "suite": sid,
                               "ver": list(v)}
                        yield {"kind": "undef_client", "suite": sid,
                               "ver": list(v)}
                    continue
                yield {"kind": "defined", "suite": sid, "ver": list(v),
                       "seed": sd}
                if s.kx == "dhe" and not s.tls13 and d is True:
                    yield {"kind": "defined", "suite": sid, "ver": list(v),
                           "seed": sd, "odd_dh": True,
                           "no_ems": (sid + sd) % 2 == 0}
                if sd == seeds[0] and s.auth in ("rsa", "ecdsa", "dsa") \
                        and d is True:
                    for wrong in ("rsa", "ecdsa", "dsa", "rsapss",
                                  "ed25519"):
                        if cred_family(wrong) == s.auth:
                            continue
                        if wrong == "rsapss" and s.auth == "rsa" and \
                                s.kx != "rsa":
                            continue
                        yield {"kind": "wrongcred", "suite": sid,
                               "ver": list(v), "cred": wrong}
    for sid in named_only:
        for v in ((3, 1), (3, 3)):
            yield {"kind": "unsupported", "suite": sid, "ver": list(v)}
    from tlslite import handshakesettings as hs
    for cipher in list(hs.ALL_CIPHER_NAMES) + [None]:
        for mac in [None] + list(hs.ALL_MAC_NAMES):
            if cipher is None and mac is None:
                continue
            for who in "bcs":
                for cred in ("rsa", "ecdsa"):
                    for minv in ((3, 0), (3, 3)):
                        yield {"kind": "mixed", "cipher": cipher, "mac": mac,
                               "who": who, "cred": cred, "minv": list(minv)}
    for v in VERSIONS[1:]:
        for first, second in (("rsa", "ecdsa"), ("ecdsa", "rsa"),
                              ("rsa", "ed25519"), ("ecdsa", "rsapss"),
                              ("rsa", "dsa"), ("dsa", "ecdsa")):
            for usable in ("both", "first", "second"):
                yield {"kind": "multicred", "ver": list(v), "first": first,
                       "second": second, "usable": usable}
    for sid in neg:
        s = iana.SUITES[sid]
        if s.tls13 or s.auth not in ("rsa", "ecdsa", "dsa", None):
            continue
        for v1 in VERSIONS[1:4]:
            if s.defined_in(v1) is not True:
                continue
            for v2 in VERSIONS[:4]:
                if v2 >= v1:
                    continue
                for tickets in (False, True):
                    yield {"kind": "resume_lower", "suite": sid,
                           "v1": list(v1), "v2": list(v2),
                           "tickets": tickets}


def cred_family(name):
    return {"rsa": "rsa", "rsapss": "rsapss", "ecdsa": "ecdsa",
            "dsa": "dsa", "ed25519": "ecdsa"}[name]


def raw(t, body):
    return bytes([t]) + len(body).to_bytes(3, "big") + body


def check(case):
    kind = case["kind"]
    if kind == "defined":
        return check_defined(case)
    if kind == "wrongcred":
        return check_wrongcred(case)
    if kind in ("undef_server", "unsupported"):
        return check_undef_server(case)
    if kind == "undef_client":
        return check_undef_client(case)
    if kind == "mixed":
        return check_mixed(case)
    if kind == "multicred":
        return check_multicred(case)
    if kind == "resume_lower":
        return check_resume_lower(case)
    raise HarnessError(kind)


def wire_pair(p):
    """(version, suite) the server announced on the wire"""
    msgs, _, _ = tap.plaintext_flight(p.link.wire("s"))
    sh = [tap.parse_server_hello(b) for t, b in msgs if t == 2]
    sh = [x for x in sh if not x["hrr"]]
    if not sh:
        return None
    return tuple(sh[-1]["version"]), sh[-1]["suite"]


def judge_pair(p, labels, what):
    wp = wire_pair(p)
    if wp is None:
        return good(nt=False, labels=labels + ["no-server-hello"])
    ver, sid = wp
    su = iana.SUITES.get(sid)
    labels.append("sh=%s" % sc.VERNAME.get(ver, ver))
    if su is None or su.defined_in(ver) is False:
        return bad("undefined-pair-on-wire:%s:%s" % (
            what, sc.VERNAME.get(ver, ver)),
            "ServerHello announces %s with suite %04x (%s)" % (
                sc.VERNAME.get(ver, ver), sid, su.name if su else "?"),
            labels=labels)
    for conn in (p.c, p.s):
        if conn.session is not None and conn.session.cipherSuite and \
                p.both_ok:
            s2 = iana.SUITES.get(conn.session.cipherSuite)
            if s2 is None or s2.defined_in(tuple(conn.version)) is False:
                return bad("undefined-pair-negotiated:%s" % what,
                           "%04x at %r" % (conn.session.cipherSuite,
                                           conn.version), labels=labels)
    return good(labels=labels + ["completed" if p.both_ok else "failed"])


def check_mixed(case):
    """Both ends speak every version but share only the named cipher / MAC:
    whatever the server announces must be a registered combination."""
    labels = ["mixed", "cipher=%s" % case["cipher"], "mac=%s" % case["mac"]]
    kw = everything(tuple(case["minv"]), (3, 4))
    if case["cipher"]:
        kw["cipherNames"] = [case["cipher"]]
    if case["mac"]:
        kw["macNames"] = [case["mac"]]
    who = case["who"]
    ckw = kw if who in "cb" else everything(tuple(case["minv"]), (3, 4))
    skw = kw if who in "sb" else everything(tuple(case["minv"]), (3, 4))
    DET.reseed("C20mixed", case["cipher"], case["mac"], who)
    p = sc.connect({"settings": sc.mk_settings(**ckw)},
                   {"cred": case["cred"], "settings": sc.mk_settings(**skw)})
    return judge_pair(p, labels, "mixed")


def check_multicred(case):
    """A server holding two key pairs (primary + one in settings.
    virtual_hosts) of different types: whichever it ends up presenting, the
    negotiated suite's authentication method must be that certificate's."""
    from tlslite.handshakesettings import VirtualHost, Keypair
    v = tuple(case["ver"])
    first, second = case["first"], case["second"]
    labels = ["multicred", "ver=" + sc.VERNAME[v], "first=" + first,
              "second=" + second, "usable=" + case["usable"]]
    kw = everything(v, v)
    skw = dict(kw)
    ckw = dict(kw)
    # make one key type unusable through the signature-algorithm lists
    if case["usable"] != "both" and v >= (3, 3):
        dead = first if case["usable"] == "second" else second
        fam = cred_family(dead)
        if fam == "rsa":
            ckw["rsaSigHashes"] = ["sha384"]
            skw["rsaSigHashes"] = ["sha256"]
            ckw["rsaSchemes"] = ["pkcs1"]
            skw["rsaSchemes"] = ["pkcs1"]
        elif fam == "ecdsa":
            ckw["ecdsaSigHashes"] = ["sha384"]
            skw["ecdsaSigHashes"] = ["sha256"]
        else:
            return good(nt=False, labels=labels)
    sst = sc.mk_settings(**skw)
    vh = VirtualHost()
    ch2, k2 = sc.cred(second)
    vh.keys = [Keypair(k2, tuple(ch2.x509List))]
    sst.virtual_hosts = [vh]
    DET.reseed("C20mc", v, first, second, case["usable"])
    p = sc.connect({"settings": sc.mk_settings(**ckw)},
                   {"cred": first, "settings": sst})
    if not p.both_ok:
        for o in (p.co, p.so):
            if o.state == "exc" and not isinstance(
                    o.exc, (Exception,)):
                raise o.exc
        return good(nt=False, labels=labels + ["failed"])
    sid = p.c.session.cipherSuite
    su = iana.SUITES[sid]
    chain = p.c.session.serverCertChain
    alg = chain.x509List[0].certAlg if chain else None
    fam = {"rsa": "rsa", "rsa-pss": "rsa", "ecdsa": "ecdsa", "dsa": "dsa",
           "Ed25519": "ecdsa", "Ed448": "ecdsa"}.get(alg)
    labels.append("presented=" + str(alg))
    if not su.tls13 and su.auth != fam:
        return bad("suite-authentication-differs-from-certificate:%s:%s" % (
            su.auth, alg), "negotiated %s with a %s certificate" % (
                su.name, alg), labels=labels)
    return good(labels=labels)


def check_resume_lower(case):
    """Session negotiated with suite S at version v1, offered again to a
    server (same cache / ticket key) that now stops at v2 < v1."""
    sid, v1, v2 = case["suite"], tuple(case["v1"]), tuple(case["v2"])
    s = iana.SUITES[sid]
    labels = ["resume_lower", "v1=" + sc.VERNAME[v1], "v2=" + sc.VERNAME[v2]]
    from tlslite.api import SessionCache
    cache = SessionCache()
    DET.reseed("C20rl", sid, v1, v2)
    copts, sopts = sc.pin(s, v1, etm=False)
    sopts["sessionCache"] = cache
    if case.get("tickets"):
        sopts["settings"].ticketKeys = [bytearray(b"r" * 32)]
    p0 = sc.connect(copts, sopts)
    if not p0.both_ok:
        return good(nt=False, labels=labels + ["first-failed"])
    sc.do_write(p0, "s", b"x")
    sc.read_all(p0, "c")
    c2, s2 = sc.pin(s, v1, etm=False)
    for o in (c2, s2):
        o["settings"].minVersion = (3, 0)
        o["settings"].macNames = list(everything()["macNames"])
    s2["settings"].maxVersion = v2
    s2["sessionCache"] = cache
    if case.get("tickets"):
        s2["settings"].ticketKeys = [bytearray(b"r" * 32)]
    c2["session"] = p0.c.session
    try:
        p = sc.connect(c2, s2)
    except ValueError:
        return good(nt=False, labels=labels + ["session-refused-by-api"])
    if isinstance(p.co.exc, ValueError):
        return good(nt=False, labels=labels + ["session-refused-by-api"])
    return judge_pair(p, labels, "resumption")


# ---------------------------------------------------------------------------
ODD_DH_P = int(
    "ff035fafee7a2afbd98a37907c1b8431dbd2e7bfe282fb2095db29fcacd18a3ef16aa8"
    "5f92fca1839cd9ea66d7c5f00ecd06bb2161db37e0b9065bf48c3a4909a645698e1a69"
    "3f88b1a5e53272d818c9b81f4d0e1f44e2eb781b556c02d683698fabdb8acbff975082"
    "188dc551489234be913c96c3debcb1fe931320f919bde9e9", 16)   # 1032 bits


def check_master_derivations(s, v, p, derivations, labels):
    """The master secret both sessions hold is the value the negotiated
    version and the suite's PRF define for the premaster secret that the
    key exchange produced."""
    if len(derivations) < 2:
        raise HarnessError("master secret derivations not observed: %d" %
                           len(derivations))
    masters = set()
    for ver, pre, label, kw, out in derivations:
        if ver != v:
            return bad("master-secret:version", "%r in %r" % (ver, v),
                       labels=labels)
        if label == b"master secret":
            want = kdf.master_secret(v, s.prf, pre, kw["client_random"],
                                     kw["server_random"])
        else:
            hh = kw["handshake_hashes"]
            if v == (3, 3):
                sh = hh[s.prf]
            else:
                sh = hh["md5"] + hh["sha1"]
            want = kdf.extended_master_secret(v, s.prf, pre, bytes(sh))
        labels.append("premaster-len-%s" % ("odd" if len(pre) % 2
                                            else "even"))
        if out != want:
            return bad("master-secret-not-as-defined:%s:%s" % (
                sc.VERNAME[v], "odd" if len(pre) % 2 else "even"),
                "%s from a %d byte premaster secret differs from the "
                "%s PRF value" % (label.decode(), len(pre),
                                  s.prf if v == (3, 3) else "version's"),
                labels=labels)
        masters.add(out)
    for conn in (p.c, p.s):
        if bytes(conn.session.masterSecret) not in masters:
            return bad("master-secret-not-the-derived-one", "",
                       labels=labels)
    return None


def check_defined(case):
    sid, v = case["suite"], tuple(case["ver"])
    s = iana.SUITES[sid]
    vn = sc.VERNAME[v]
    labels = ["defined", "ver=" + vn, "kx=%s" % s.kx]
    DET.reseed("C20", sid, v, case.get("seed", 1))
    c_extra = s_extra = None
    if case.get("odd_dh"):
        # a group whose prime has an odd number of bytes: the premaster
        # secret (leading zero bytes stripped) has odd length as a rule
        s_extra = {"dhParams": (2, ODD_DH_P), "dhGroups": []}
        c_extra = {"dhGroups": []}
        labels.append("odd-dh-group")
    copts, sopts = sc.pin(s, v, etm=False, c_extra=c_extra, s_extra=s_extra)
    if case.get("no_ems"):
        copts["settings"].useExtendedMasterSecret = False
        labels.append("no-ems")
    import tlslite.tlsconnection as tc
    derivations = []
    real_calc_key = tc.calc_key

    def observed_calc_key(version, secret, cipher_suite, label, **kw):
        out = real_calc_key(version, secret, cipher_suite, label, **kw)
        if label in (b"master secret", b"extended master secret"):
            hh = kw.get("handshake_hashes")
            if hh is not None:
                # (the transcript object lives on: its value as of now)
                kw = dict(kw, handshake_hashes={
                    h: bytes(hh.digest(h)) for h in ("md5", "sha1", "sha256",
                                                     "sha384")})
            derivations.append((tuple(version), bytes(secret), label, {
                k: (bytes(x) if isinstance(x, (bytes, bytearray)) else x)
                for k, x in kw.items()}, bytes(out)))
        return out
    # (an observer in the harness: the arguments pass through unchanged)
    tc.calc_key = observed_calc_key
    try:
        p = sc.connect(copts, sopts)
    finally:
        tc.calc_key = real_calc_key
    if p.both_ok and v <= (3, 3) and not s.draft:
        err = check_master_derivations(s, v, p, derivations, labels)
        if err:
            return err
    if not p.both_ok:
        if sid in DEAD_SUITES:
            # cannot be negotiated under any settings: outside 'every suite
            # the library can negotiate' (it is a C19 finding instead)
            return good(nt=False, labels=labels + ["not-negotiable-at-all"])
        return bad("defined-pair-fails:%04x:%s" % (sid, vn),
                   "client %r server %r" % (p.co, p.so), labels=labels)
    for conn in (p.c, p.s):
        if conn.session.cipherSuite != sid or conn.version != v:
            return bad("pin-mismatch:%04x:%s" % (sid, vn),
                       "negotiated %04x %r" % (conn.session.cipherSuite,
                                               conn.version), labels=labels)
    # --- accessor names ------------------------------------------------
    want_cipher = s.cipher_setting
    want_mac = None if s.kind == "aead" else s.mac_setting
    want_ver = {(3, 0): "SSL 3.0", (3, 1): "TLS 1.0", (3, 2): "TLS 1.1",
                (3, 3): "TLS 1.2", (3, 4): "TLS 1.3"}[v]
    for conn, who in ((p.c, "client"), (p.s, "server")):
        got = conn.getCipherName()
        if s.draft:
            pass        # not registered: no registered name to compare with
        elif got != want_cipher and not (want_cipher == "null" and
                                         got is None):
            return bad("accessor:conn.getCipherName:%s" % s.enc_name,
                       "%s reports %r, registered %r" % (who, got,
                                                         want_cipher),
                       labels=labels)
        got = conn.session.getCipherName()
        if got != want_cipher:
            return bad("accessor:session.getCipherName:%s" % s.enc_name,
                       "%s reports %r, registered %r" % (who, got,
                                                         want_cipher),
                       labels=labels)
        got = conn.session.getMacName()
        if got != want_mac:
            return bad("accessor:session.getMacName:%04x" % sid,
                       "%s reports %r, registered %r (%s)" % (
                           who, got, want_mac, s.name), labels=labels)
        if conn.getVersionName() != want_ver:
            return bad("accessor:getVersionName",
                       "%r vs %r" % (conn.getVersionName(), want_ver),
                       labels=labels)
    # --- probe data, reference receiver ----------------------------------
    msg_c = hashlib.sha256(b"c%d" % sid).digest() * 3
    msg_s = hashlib.sha256(b"s%d" % sid).digest() * 5 + b"x"
    sc.do_write(p, "c", msg_c)
    sc.do_write(p, "s", msg_s)
    a, _ = sc.read_all(p, "s")
    b, _ = sc.read_all(p, "c")
    if a != msg_c or b != msg_s:
        return bad("probe-data:%04x:%s" % (sid, vn), "probe not delivered",
                   labels=labels)
    if s.draft:
        return good(labels=labels + ["draft-no-reference"])
    rv = tap.RefView(p, suite=s, version=v)
    rv.follow("c")
    rv.follow("s")
    if v == (3, 4) and not rv.errors:
        # the next traffic generation must come from the suite's hash too
        from vlib.driver import drive
        for side in "cs":
            drive({side: p.conn(side).send_keyupdate_request(1)}, p.link,
                  on_stall="leave")
        sc.read_all(p, "s")
        sc.read_all(p, "c")
        more_c, more_s = b"after-ku-c" * 7, b"after-ku-s" * 9
        sc.do_write(p, "c", more_c)
        sc.do_write(p, "s", more_s)
        a2, _ = sc.read_all(p, "s")
        b2, _ = sc.read_all(p, "c")
        if a2 != more_c or b2 != more_s:
            return bad("probe-data-after-keyupdate:%04x" % sid, "",
                       labels=labels)
        msg_c += more_c
        msg_s += more_s
        rv.follow("c")
        rv.follow("s")
        labels.append("keyupdate")
    if rv.errors:
        return bad("registered-params-do-not-open-records:%04x:%s" % (
            sid, vn), rv.errors[0], labels=labels)
    if rv.app_data("c") != msg_c or rv.app_data("s") != msg_s:
        return bad("reference-plaintext-differs:%04x:%s" % (sid, vn),
                   "", labels=labels)
    # ciphertext overhead = registered overhead
    for side, msg in (("c", msg_c), ("s", msg_s)):
        for ct, pt, r in rv.plain[side]:
            if ct != 23:
                continue
            ov = r["len"] - len(pt)
            if v == (3, 4):
                ok = ov == 1 + s.tag_len
            elif s.kind == "aead":
                ok = ov == s.explicit_nonce + s.tag_len
            elif s.kind == "stream":
                ok = ov == s.mac_len
            else:
                ex = s.block if v >= (3, 2) else 0
                total = ex + len(pt) + s.mac_len
                ok = ex + s.mac_len + 1 <= ov <= ex + s.mac_len + s.block \
                    and (r["len"] - ex) % s.block == 0
            if not ok:
                return bad("overhead:%s:%s" % (s.enc_name, vn),
                           "record len %d for %d plaintext bytes" % (
                               r["len"], len(pt)), labels=labels)
    # --- exported keying material: the suite's PRF hash in this version ----
    if v >= (3, 1):
        label = b"EXPORTER-c20-check"
        if v == (3, 4):
            want_exp = kdf.tls13_exporter(
                s.prf, bytes(p.c.session.exporterMasterSecret), label, b"",
                37)
        else:
            want_exp = kdf.exporter_tls12(
                v, s.prf, bytes(p.c.session.masterSecret),
                rv.client_hello["random"], rv.server_hello["random"], label,
                37)
        for conn, who in ((p.c, "client"), (p.s, "server")):
            got_exp = bytes(conn.keyingMaterialExporter(bytearray(label), 37))
            if got_exp != want_exp:
                return bad("exporter-prf:%s:%s" % (s.prf if v >= (3, 3)
                                                   else "md5sha1", vn),
                           "%s exporter output differs from the value the "
                           "version's PRF gives for %s" % (who, s.name),
                           labels=labels)
        labels.append("exporter")
    if v == (3, 4):
        hl = kdf.H[s.prf]().digest_size
        if len(p.c.session.cl_app_secret) != hl:
            return bad("tls13-secret-length:%04x" % sid, "", labels=labels)
        sh = rv.server_hello
        if 51 not in sh["exts"] or 43 not in sh["exts"]:
            return bad("tls13-serverhello-exts", repr(sorted(sh["exts"])),
                       labels=labels)
        return good(labels=labels)
    # --- key exchange messages on the wire (<= TLS 1.2) -------------------
    stypes = [t for t, _ in rv.s_msgs]
    ctypes = [t for t, _ in rv.c_msgs]
    has_cert = 11 in stypes
    has_ske = 12 in stypes
    if (s.auth is not None) != has_cert:
        return bad("kx-wire:certificate-presence:%s" % s.kx_name,
                   "server flight %r" % stypes, labels=labels)
    if (s.kx != "rsa") != has_ske:
        return bad("kx-wire:ske-presence:%s" % s.kx_name,
                   "server flight %r" % stypes, labels=labels)
    if has_ske:
        ske = [b for t, b in rv.s_msgs if t == 12][0]
        err = ske_shape(s, v, ske)
        if err:
            return bad("kx-wire:ske-shape:%s" % s.kx_name, err,
                       labels=labels)
    cke = [b for t, b in rv.c_msgs if t == 16]
    if len(cke) != 1:
        return bad("kx-wire:cke-missing", repr(ctypes), labels=labels)
    err = cke_shape(s, v, cke[0])
    if err:
        return bad("kx-wire:cke-shape:%s" % s.kx_name, err, labels=labels)
    # --- Finished recomputed with the registered PRF -----------------------
    master = bytes(p.c.session.masterSecret)
    shd = [i for i, (t, _) in enumerate(rv.s_msgs) if t == 14][0]
    tr = raw(*rv.c_msgs[0])
    for t, b in rv.s_msgs[:shd + 1]:
        tr += raw(t, b)
    for t, b in rv.c_msgs[1:]:
        tr += raw(t, b)
    cfin = rv.plain["c"][0]
    sfin = rv.plain["s"][0]
    if v == (3, 0):
        want_c = kdf.finished_ssl3(master, tr, True)
    else:
        want_c = kdf.finished_tls(v, s.prf, master, tr, True)
    if cfin[0] != 22 or cfin[1] != raw(20, want_c):
        return bad("finished-prf:client:%s:%s" % (s.prf, vn),
                   "client Finished differs from PRF-%s value" % s.prf,
                   labels=labels)
    tr2 = tr + cfin[1]
    for t, b in rv.s_msgs[shd + 1:]:
        tr2 += raw(t, b)
    if v == (3, 0):
        want_s = kdf.finished_ssl3(master, tr2, False)
    else:
        want_s = kdf.finished_tls(v, s.prf, master, tr2, False)
    if sfin[0] != 22 or sfin[1] != raw(20, want_s):
        return bad("finished-prf:server:%s:%s" % (s.prf, vn),
                   "server Finished differs from PRF-%s value" % s.prf,
                   labels=labels)
    return good(labels=labels)


def _vec(b, p, n):
    ln = int.from_bytes(b[p:p + n], "big")
    if p + n + ln > len(b):
        raise ValueError("vector overruns")
    return b[p + n:p + n + ln], p + n + ln


def ske_shape(s, v, b):
    try:
        if s.kx == "dhe":
            P, p = _vec(b, 0, 2)
            G, p = _vec(b, p, 2)
            Y, p = _vec(b, p, 2)
            if len(P) < 64:
                return "DH prime too short for a DHE suite"
        elif s.kx == "ecdhe":
            if b[0] != 3:
                return "curve_type %d, expected named_curve" % b[0]
            pt, p = _vec(b, 3, 1)
            if not pt:
                return "empty EC point"
        elif s.kx == "srp":
            N, p = _vec(b, 0, 2)
            g, p = _vec(b, p, 2)
            salt, p = _vec(b, p, 1)
            B, p = _vec(b, p, 2)
        else:
            return "unexpected ServerKeyExchange for kx %s" % s.kx
        rest = b[p:]
        if s.auth is None:
            if rest:
                return "anonymous/SRP-only suite carries %d signature " \
                    "bytes" % len(rest)
        else:
            if v >= (3, 3):
                rest = rest[2:]
            sig, q = _vec(rest, 0, 2)
            if q != len(rest) or not sig:
                return "signature framing"
    except (ValueError, IndexError) as e:
        return "malformed: %r" % (e,)
    return None


def cke_shape(s, v, b):
    try:
        if s.kx == "rsa":
            if v == (3, 0):
                ln = len(b)
            else:
                e, p = _vec(b, 0, 2)
                if p != len(b):
                    return "trailing bytes"
                ln = len(e)
            if ln not in (128, 256, 384):
                return "encrypted premaster of %d bytes" % ln
        elif s.kx in ("dhe", "srp"):
            y, p = _vec(b, 0, 2)
            if p != len(b) or not y:
                return "bad public value framing"
        elif s.kx == "ecdhe":
            y, p = _vec(b, 0, 1)
            if p != len(b) or not y:
                return "bad point framing"
    except (ValueError, IndexError) as e:
        return "malformed: %r" % (e,)
    return None


# ---------------------------------------------------------------------------
def check_wrongcred(case):
    sid, v, wrong = case["suite"], tuple(case["ver"]), case["cred"]
    s = iana.SUITES[sid]
    DET.reseed("C20w", sid, v, wrong)
    copts, sopts = sc.pin(s, v, etm=False, cred_name=wrong)
    p = sc.connect(copts, sopts)
    labels = ["wrongcred", "auth=%s/%s" % (s.auth, wrong)]
    if p.co.ok or p.so.ok:
        neg = p.c.session.cipherSuite if p.c.session else None
        return bad("auth-type-not-enforced:%s:%s" % (s.kx_name, wrong),
                   "suite %s completed (%r) with a %s credential" % (
                       s.name, neg, wrong), labels=labels)
    return good(labels=labels)


def _server_for(s, v):
    """Server with everything enabled and a credential fitting ``s``."""
    opts = {"settings": sc.mk_settings(**everything())}
    if s is None or s.tls13 or s.auth in ("rsa", "any"):
        opts["cred"] = "rsa"
    elif s.auth == "ecdsa":
        opts["cred"] = "ecdsa"
    elif s.auth == "dsa":
        opts["cred"] = "dsa"
    if s is not None and not s.tls13:
        if s.kx == "srp":
            opts["verifierDB"] = sc.srp_db()
        elif s.auth is None:
            opts["anon"] = True
    return opts


def check_undef_server(case):
    """An all-enabled server is offered only suite X at version V."""
    sid, v = case["suite"], tuple(case["ver"])
    s = iana.SUITES.get(sid)
    labels = [case["kind"], "ver=" + sc.VERNAME[v]]
    DET.reseed("C20u", sid, v)
    seen = {}

    def mitm(direction, idx, rec):
        if direction == "c2s" and idx == 0 and rec["type"] == 22:
            msgs, _ = tap.split_hs(rec["body"])
            ch = tap.parse_client_hello(msgs[0][1])
            exts = [(t, b) for t, b in tap.ext_list(ch) if t != 43]
            if v == (3, 4):
                exts.append((43, b"\x02\x03\x04"))
                cv = (3, 3)
            else:
                cv = v
            new = tap.build_client_hello(cv, ch["random"], ch["session_id"],
                                         [sid], exts)
            seen["sent"] = True
            return [tap.record(22, (3, 1) if v > (3, 0) else (3, 0), new)]
        return [rec["hdr"] + rec["body"]]

    # any real client just to produce a plausible hello with all extensions
    if s is not None and not s.tls13 and s.kx == "srp":
        client = {"mode": "srp",
                  "settings": sc.mk_settings(**everything((3, 1), (3, 4)))}
    else:
        client = {"settings": sc.mk_settings(**everything((3, 1), (3, 4)))}
    p = sc.connect(client, _server_for(s, v), mitm=mitm)
    if not seen.get("sent"):
        raise HarnessError("ClientHello was not rewritten")
    msgs, _, _ = tap.plaintext_flight(p.link.wire("s"))
    for t, b in msgs:
        if t == 2:
            sh = tap.parse_server_hello(b)
            if sh["suite"] == sid and not sh["hrr"] and (
                    case["kind"] == "unsupported" or sh["version"] == v):
                return bad("%s-selected:%04x:%s" % (
                    "unsupported-suite" if case["kind"] == "unsupported"
                    else "undefined-pair", sid, sc.VERNAME[v]),
                    "server answered ServerHello version %r suite %04x" % (
                        sh["version"], sh["suite"]), labels=labels)
    if p.so.ok:
        return bad("undefined-pair-completes:%04x" % sid, repr(p.so),
                   labels=labels)
    return good(labels=labels)


def check_undef_client(case):
    """An all-enabled client gets a ServerHello selecting X at version V."""
    sid, v = case["suite"], tuple(case["ver"])
    s = iana.SUITES[sid]
    labels = ["undef_client", "ver=" + sc.VERNAME[v]]
    DET.reseed("C20c", sid, v)
    seen = {}

    def mitm(direction, idx, rec):
        if direction == "s2c" and not seen and rec["type"] == 22:
            msgs, rest = tap.split_hs(rec["body"])
            if msgs and msgs[0][0] == 2:
                body = msgs[0][1]
                sl = body[34]
                pos = 35 + sl
                nb = body[:pos] + bytes([sid >> 8, sid & 0xff]) + \
                    body[pos + 2:]
                out = raw(2, nb)
                for t, b in msgs[1:]:
                    out += raw(t, b)
                out += rest
                seen["x"] = True
                return [tap.record(22, rec["ver"], out)]
        return [rec["hdr"] + rec["body"]]

    server = {"cred": "rsa", "settings": sc.mk_settings(
        minVersion=v, maxVersion=v)}
    # (a client offering TLS 1.3 does not list SSLv3 in supported_versions)
    client = {"settings": sc.mk_settings(**everything(
        (3, 0), (3, 4) if v == (3, 4) else (3, 3)))}
    p = sc.connect(client, server, mitm=mitm)
    if not seen:
        raise HarnessError("ServerHello was not rewritten")
    msgs, _, _ = tap.plaintext_flight(p.link.wire("s"))
    shv = [tap.parse_server_hello(b)["version"] for t, b in msgs if t == 2]
    if not shv or shv[0] != v:
        return bad("server-ignores-pinned-version:%s" % sc.VERNAME[v],
                   "server pinned to %r answered %r" % (v, shv),
                   labels=labels)
    if p.co.ok:
        return bad("client-accepts-undefined-pair:%04x:%s" % (
            sid, sc.VERNAME[v]), "client completed", labels=labels)
    # the client must stop at the ServerHello: nothing but its hello (and
    # an alert) may have been sent
    recs, _ = tap.records(p.link.wire("c"))
    later = [r for r in recs[1:] if r["type"] not in (21,)]
    if later:
        return bad("client-continues-after-undefined-pair:%04x:%s" % (
            sid, sc.VERNAME[v]),
            "client sent %d more records (types %r) after a ServerHello "
            "selecting %s in %s; outcome %r" % (
                len(later), [r["type"] for r in later], s.name,
                sc.VERNAME[v], p.co), labels=labels)
    from tlslite.errors import TLSLocalAlert
    if not isinstance(p.co.exc, TLSLocalAlert):
        return bad("client-no-alert-on-undefined-pair:%s" % sc.VERNAME[v],
                   repr(p.co), labels=labels)
    return good(labels=labels)
