"""C06 - handshake messages are accepted only in the order the protocol
allows; renegotiation is refused.

A deviant peer (real TLSConnection with wrapped send methods, transcript
following what is really sent = strongest attacker) replays its side of an
honest trace with a bounded deviation; an independent legality model says
whether the sequence the honest endpoint receives is still permitted."""
import hashlib

from hypothesis import strategies as st

from vlib.runner import good, bad, HarnessError, BaselineBroken
from vlib.det import DET
from vlib import scenario as sc
from vlib import tap
from vlib.deviant import Deviant, RawMsg
from vlib.driver import drive, describe_exc, exc_site
from vlib.wire import records
from props.c08 import opts_for, FLAVOURS

from tlslite.errors import (TLSLocalAlert, TLSRemoteAlert, BaseTLSException,
                            TLSAbruptCloseError)
from tlslite.constants import ContentType

ID = "C06"
LEVEL = "fault_enumeration"
RULE = ("per (handshake flavour, deviant side) the honest message trace "
        "(handshake messages and ChangeCipherSpec) is replayed with one "
        "deviation - skip(i), duplicate(i), swap(i, i+1), insert(T, i), "
        "replace(i, T) with T from a pool (HelloRequest, ClientHello, "
        "ServerHello, ChangeCipherSpec, Finished with wrong verify_data, "
        "KeyUpdate, NewSessionTicket, CertificateRequest, application "
        "data incl. a zero-length record, warning alert, heartbeat), "
        "append(T) after the handshake completed - all single deviations are "
        "enumerated, pairs are drawn by Hypothesis; plus post-handshake "
        "renegotiation attempts and handshake calls on open connections. "
        "non-trivial = the sequence delivered to the honest endpoint "
        "differs from the honest one; distinct = (flavour, side, "
        "deviations)")
ASSUMPTIONS = [
    "legality model: no handshake message may be skipped (except "
    "CertificateRequest, TLS 1.3 compatibility CCS, post-handshake "
    "tickets), duplicated, reordered or inserted; deviations touching only "
    "ignorable messages (TLS 1.3 CCS before the sender's Finished, "
    "warning alerts, heartbeat, "
    "HelloRequest towards a client) are 'either'",
    "a stall (victim waits for bytes that never come) is 'not completed'",
]
MAX_WALL = {"quick": 240, "thorough": 3000}
FL = [f for f in sorted(FLAVOURS) if f != "any" and
      not FLAVOURS[f].get("c08_only")]
POOL = ["hello_request", "client_hello", "server_hello", "ccs",
        "finished_bad", "key_update", "nst13", "cert_request13", "appdata",
        "warning_alert", "heartbeat", "server_hello_done", "finished_copy",
        "appdata_empty", "no_certificate_alert", "cert_request12"]


def init(tier, seed):
    DET.install()


_honest = {}


def honest(name):
    """per side: list of (content type, hs type or None, bytes) in send
    order, incl. CCS; and the index at which the *peer* completed."""
    if name not in _honest:
        log = {"c": [], "s": []}

        def prepare(cc, scn):
            for side, conn in (("c", cc), ("s", scn)):
                def fn(dev, idx, ct, data, side=side):
                    if ct in (ContentType.handshake,
                              ContentType.change_cipher_spec):
                        log[side].append((ct, data[0] if ct == 22 else None,
                                          data))
                    return None
                Deviant(conn, fn)
        client, server = opts_for(name)
        DET.reseed("C06", name)
        p = sc.connect(client, server, prepare=prepare)
        if not p.both_ok:
            raise BaselineBroken("flavour:" + name, "%r %r" % (p.co, p.so))
        n_hs = {"c": len(log["c"]), "s": len(log["s"])}
        _honest[name] = (log, n_hs, tuple(p.c.version))
    return _honest[name]


def pool_msg(t, trace_c, trace_s, version):
    """(content type, bytes) for an inserted message."""
    if t == "hello_request":
        return (22, b"\x00\x00\x00\x00")
    if t == "client_hello":
        return (22, [d for ct, ht, d in trace_c if ht == 1][0])
    if t == "server_hello":
        return (22, [d for ct, ht, d in trace_s if ht == 2][0])
    if t == "ccs":
        return (20, b"\x01")
    if t == "finished_bad":
        n = 36 if version == (3, 0) else 12 if version < (3, 4) else 32
        return (22, b"\x14" + n.to_bytes(3, "big") + b"\xaa" * n)
    if t == "finished_copy":
        f = [d for ct, ht, d in trace_c + trace_s if ht == 20]
        return (22, f[0]) if f else None
    if t == "key_update":
        return (22, b"\x18\x00\x00\x01\x00")
    if t == "nst13":
        body = b"\x00\x00\x0e\x10" + b"\x00\x00\x00\x01" + b"\x01\x00" + \
            b"\x00\x04tick" + b"\x00\x00"
        return (22, b"\x04" + len(body).to_bytes(3, "big") + body)
    if t == "cert_request13":
        ext = b"\x00\x0d\x00\x04\x00\x02\x08\x04"
        body = b"\x00" + len(ext).to_bytes(2, "big") + ext
        return (22, b"\x0d" + len(body).to_bytes(3, "big") + body)
    if t == "server_hello_done":
        return (22, b"\x0e\x00\x00\x00")
    if t == "cert_request12":
        # certificate_types, [signature algorithms,] empty CA list
        body = b"\x02\x01\x40"
        if version >= (3, 3):
            body += b"\x00\x04\x04\x01\x04\x03"
        body += b"\x00\x00"
        return (22, b"\x0d" + len(body).to_bytes(3, "big") + body)
    if t == "appdata":
        return (23, b"early application data")
    if t == "appdata_empty":
        return (23, b"")
    if t == "warning_alert":
        return (21, b"\x01\x5a")
    if t == "no_certificate_alert":
        return (21, b"\x01\x29")
    if t == "heartbeat":
        return (24, b"\x01\x00\x03abc" + b"\x00" * 16)
    raise HarnessError(t)


def norm(seq, version, side):
    """Strip messages a receiver may ignore. seq: list of (ct, bytes)."""
    out = []
    fin_seen = False
    for ct, data in seq:
        if ct == 22 and data[:1] == b"\x14":
            fin_seen = True
        if ct == 20 and version == (3, 4) and not fin_seen:
            continue            # compatibility CCS (RFC 8446 section 5: to
            #                     be dropped only until the peer's Finished)
        if ct == 21 and data[:1] == b"\x01" and False:
            continue
        if ct == 24:
            continue            # heartbeat (negotiated or silently dropped)
        if ct == 22 and data[:1] == b"\x00" and side == "s" and \
                version < (3, 4):
            continue            # HelloRequest towards a client
        out.append((ct, data[0] if ct == 22 and data else None, data))
    return out


def classify(H, A, version, side):
    """H, A: honest / actual emitted (ct, bytes) lists of the deviant side.
    Returns (verdict, position) with verdict in identity / either / illegal
    / late-illegal / late-legal."""
    if [x for x in A] == [x for x in H]:
        return "identity", None
    Hn, An = norm(H, version, side), norm(A, version, side)
    # handshake part of the honest trace: up to the sender's Finished
    fin = [i for i, (ct, ht, d) in enumerate(Hn) if ht == 20]
    cut = fin[-1] + 1 if fin else len(Hn)
    if version == (3, 4) and side == "c":
        cut = fin[0] + 1 if fin else len(Hn)
    Hh = Hn[:cut]
    k = 0
    while k < len(Hh) and k < len(An) and \
            (Hh[k][0], Hh[k][1]) == (An[k][0], An[k][1]):
        k += 1
    if k == len(Hh):
        rest = An[k:]
        post_h = Hn[cut:]
        if [(a, b) for a, b, c in rest] == [(a, b) for a, b, c in post_h]:
            return "either", None       # same order, other content
        legal_post = True
        for ct, ht, d in rest:
            if version == (3, 4):
                if ct == 23:
                    continue
                if ct == 22 and ht in (4, 24) and (
                        ht == 24 or side == "s"):
                    continue
                if ct == 22 and ht == 13 and side == "s":
                    continue    # post-handshake authentication request
                if ct == 21:
                    continue
                legal_post = False
            else:
                if ct == 23 or ct == 21:
                    continue
                if ct == 22 and ht == 1 and side == "c":
                    continue    # renegotiation attempt: may be refused
                    #             with a warning (judged by the reneg cases)
                legal_post = False
        return ("late-legal" if legal_post else "late-illegal"), k
    # deviation inside the handshake part
    if k < len(An) and An[k][0] == 21:
        # an alert may end the handshake - or be a warning the victim
        # ignores: then the sequence *without* it decides (a mandatory
        # message replaced by a warning is still missing). SSLv3 alone lets
        # no_certificate stand in for the client Certificate.
        if version == (3, 0) and An[k][2][1:2] == b"\x29" and \
                k < len(Hh) and Hh[k][1] == 11:
            return "either", k
        A2 = [x for x in A if x[0] != 21]
        if len(A2) < len(A):
            v2, k2 = classify(H, A2, version, side)
            if v2 in ("illegal", "truncated"):
                return "illegal-unless-aborted", k
        return "either", k
    # optional CertificateRequest added at its legal place (TLS 1.3: right
    # after EncryptedExtensions; <= 1.2: right before ServerHelloDone)
    if side == "s" and k < len(An) and An[k][1] == 13 and k > 0:
        prev_ok = (version == (3, 4) and An[k - 1][1] == 8) or \
            (version < (3, 4) and k < len(Hh) and Hh[k][1] == 14)
        A2 = An[:k] + An[k + 1:]
        if prev_ok and [(a, b) for a, b, c in A2[:len(Hh)]] == \
                [(a, b) for a, b, c in Hh]:
            return "either", k
    # optional CertificateRequest dropped, everything else equal
    Hh2 = [x for x in Hh if x[1] != 13]
    if [(a, b) for a, b, c in An[:len(Hh2)]] == [(a, b) for a, b, c in Hh2]:
        return "either", k
    if len(An) < len(Hh) and [(a, b) for a, b, c in An] == \
            [(a, b) for a, b, c in Hh[:len(An)]]:
        return "truncated", k           # strict prefix: must not complete
    return "illegal", k


def hs_len(trace, version):
    """Number of leading trace entries that belong to the handshake proper
    (everything up to and including this side's Finished)."""
    idx = [k for k, (ct, ht, d) in enumerate(trace) if ht == 20]
    return (idx[0] + 1) if idx else len(trace)


def check(case):
    if case["k"] == "reneg":
        return check_reneg(case)
    name, side = case["fl"], case["side"]
    vic = "s" if side == "c" else "c"
    log, n_hs, version = honest(name)
    trace = log[side]
    devs = case["devs"]
    labels = ["fl=" + name, "dev=" + side] + ["d=" + d[0] for d in devs]
    plan = {}
    for d in devs:
        i = d[1] % len(trace)
        plan.setdefault(i, []).append(d)
    state = {"held": None, "n": 0}
    holder = {}

    def fn(dev, idx, ct, data):
        if ct not in (ContentType.handshake, ContentType.change_cipher_spec):
            return None
        i = state["n"]
        state["n"] += 1
        out = [(ct, data)]
        if state["held"] is not None:
            out = out + [state["held"]]
            state["held"] = None
        if state.get("rest") is not None and i > state["rest_at"]:
            out = [state["rest"]] + out
            state["rest"] = None
        for d in plan.get(i, ()):
            k = d[0]
            if k == "skip":
                if (ct, data) in out:
                    out.remove((ct, data))
            elif k == "dup":
                out = out + [(ct, data)]
            elif k == "swap":
                if i + 1 < len(trace) and (ct, data) in out:
                    state["held"] = (ct, data)
                    out.remove((ct, data))
            elif k == "coalesce":
                # the message and a further one in ONE record: legal framing
                # in general, but a message that changes keys must end its
                # record (RFC 8446 section 5.1)
                m = pool_msg(d[2], log["c"], log["s"], version)
                if m is None or m[0] != 22 or ct != 22 or \
                        (ct, data) not in out:
                    continue
                out = [(22, data + m[1]) if x == (ct, data) else x
                       for x in out]
                if version == (3, 4) and data[0] in (2, 20, 24):
                    state["keychange_coalesced"] = data[0]
            elif k == "coalesce_part":
                # as above, but only the first bytes of the further message
                # share the record; the rest follows in a record of its own
                # (under the next keys)
                m = pool_msg(d[2], log["c"], log["s"], version)
                if m is None or m[0] != 22 or ct != 22 or \
                        (ct, data) not in out or version != (3, 4) or \
                        data[0] not in (2, 20, 24):
                    continue
                n = 1 + d[3] % 3
                out = [(22, data + m[1][:n]) if x == (ct, data) else x
                       for x in out]
                # (the rest goes out with / in front of the next thing this
                # side sends: under the keys that follow the change)
                state["rest"] = (22, m[1][n:])
                state["rest_at"] = i
                state["keychange_coalesced"] = data[0]
            elif k == "frag":
                # a stray handshake fragment (the first bytes of the message
                # once more, in a record of their own) in front of the
                # message: the byte stream is no longer a sequence of
                # handshake messages in a legal order
                if ct != 22 or (ct, data) not in out or len(data) < 4:
                    continue
                n = 1 + d[2] % 3
                # d[2] >= 3: on the wire only (an endpoint whose transcript
                # does not cover the stray bytes, or an on-path insertion
                # before protection starts)
                out = [(22, data[:n], "wire") if d[2] >= 3
                       else (22, data[:n])] + out
                state["stray_fragment"] = i
            elif k in ("insert", "replace"):
                m = pool_msg(d[2], log["c"], log["s"], version)
                if m is None:
                    continue
                if k == "insert":
                    out = [m] + out
                else:
                    out = [m if x == (ct, data) else x for x in out]
        if out == [(ct, data)]:
            return None
        return out

    def prepare(cc, scn):
        holder["dev"] = Deviant(cc if side == "c" else scn, fn)
        if case.get("nocs"):
            (scn if side == "c" else cc).closeSocket = False
    client, server = opts_for(name)
    DET.reseed("C06", name)
    p = sc.connect(client, server, prepare=prepare, max_steps=20000)
    # post-handshake traffic of the honest trace (tickets)
    post_read = None
    if p.both_ok:
        sc.do_write(p, "s", b"x")
        _, post_read = sc.read_all(p, "c")
        if state.get("rest") is not None:
            dev = holder["dev"]
            drive({side: dev._orig_send(RawMsg(*state["rest"]))}, p.link,
                  on_stall="leave")
            state["rest"] = None
            if side == "s" and post_read is not None and \
                    post_read.state != "exc":
                post_read = None
        for d in devs:
            if d[0] != "append":
                continue
            m = pool_msg(d[2], log["c"], log["s"], version)
            if m is None:
                continue
            dev = holder["dev"]
            dev.emitted.append((m[0], bytes(m[1])))
            outs, _ = drive({side: dev._orig_send(RawMsg(m[0], m[1]))},
                            p.link, on_stall="leave")
            if side == "s" and post_read is not None and \
                    post_read.state != "exc":
                post_read = None
    A = [(ct, d) for ct, d in holder["dev"].emitted if ct in (20, 21, 22, 23,
                                                              24)]
    H = [(ct, d) for ct, ht, d in trace]
    # the honest trace was recorded up to the same point (tickets incl.)
    verdict, pos = classify(H, [x for x in A if x != (23, b"x")], version,
                            side)
    if verdict != "identity" and "anon" in name and version < (3, 4) and \
            side == "s" and any(ct == 22 and d[:1] == b"\x0d"
                                for ct, d in A) and \
            not any(ht == 13 for ct, ht, d in trace):
        # RFC 5246 7.4.4: "It is a fatal handshake_failure alert for an
        # anonymous server to request client authentication."
        if verdict == "either":
            verdict = "illegal"
        # the deviant server does not expect what an accepting client would
        # answer, so the handshake dies either way: acceptance shows in the
        # client *answering* the request with a Certificate message
        msgs, _, _ = tap.plaintext_flight(p.link.wire("c"))
        if any(t == 11 for t, _ in msgs):
            return bad("illegal-message-acted-upon:cert_request:anon",
                       "anonymous server sent a CertificateRequest and the "
                       "client answered with a Certificate message; case=%r"
                       % (case,), labels=labels)
    vconn = p.conn(vic)
    vout = p.co if vic == "c" else p.so
    if state.get("keychange_coalesced") is not None:
        # judged on its own: the victim must notice, at the latest when it
        # touches the bytes that followed the key-changing message
        labels.append("model=keychange-not-aligned")
        o = vout
        if vout.ok:
            o = post_read if (vic == "c" and post_read is not None) \
                else sc.do_read(p, vic, 100, 1)
        labels.append("victim=" + (describe_exc(o.exc) if o.exc
                                   else o.state))
        if o.state == "exc":
            if isinstance(o.exc, (BaseTLSException, OSError)):
                return good(labels=labels)
            return bad("unrelated-exception:%s@%s" % (
                type(o.exc).__name__, exc_site(o.exc)), repr(case),
                labels=labels)
        return bad("keychange-message-not-record-aligned:msg%d:victim=%s" % (
            state["keychange_coalesced"], vic),
            "handshake bytes following a key-changing message in the same "
            "record were processed (victim state %r); case=%r" % (o, case),
            labels=labels)
    if state.get("stray_fragment") is not None:
        labels.append("model=stray-fragment")
        in_hs = state["stray_fragment"] < hs_len(trace, version)
        if len([d for d in devs if d[0] != "frag"]) > 0:
            # combined with another deviation the fragment may end up
            # *behind* a message that legitimately completes the handshake
            # (e.g. an inserted copy of the Finished): no verdict beyond
            # "no crash"
            if vout.state == "exc" and not isinstance(
                    vout.exc, (BaseTLSException, OSError)):
                return bad("unrelated-exception:%s@%s" % (
                    type(vout.exc).__name__, exc_site(vout.exc)),
                    repr(case), labels=labels)
            return good(nt=False, labels=labels + ["fragment+other:either"])
        labels.append("victim=" + (describe_exc(vout.exc) if vout.exc
                                   else vout.state))
        if vout.state == "exc" and not isinstance(
                vout.exc, (BaseTLSException, OSError)):
            return bad("unrelated-exception:%s@%s" % (
                type(vout.exc).__name__, exc_site(vout.exc)), repr(case),
                labels=labels)
        o = vout
        if vout.ok and not in_hs:
            # (in front of a post-handshake message: noticed by the read
            # that meets it)
            o = post_read if (vic == "c" and post_read is not None) \
                else sc.do_read(p, vic, 100, 1)
        if o.state == "exc" and not isinstance(
                o.exc, (BaseTLSException, OSError)):
            return bad("unrelated-exception:%s@%s" % (
                type(o.exc).__name__, exc_site(o.exc)), repr(case),
                labels=labels)
        if o.state == "done":
            return bad("completes-despite-stray-fragment:%s:victim=%s" % (
                "tls13" if version == (3, 4) else "tls12-", vic),
                "a handshake record holding the first bytes of a message "
                "was inserted in front of that message; the handshake "
                "completed and the next read returned %r; case=%r" % (
                    o, case), labels=labels)
        return good(labels=labels)
    labels.append("model=" + verdict)
    labels.append("victim=" + (describe_exc(vout.exc) if vout.exc
                               else vout.state))
    if verdict == "identity":
        return good(nt=False, labels=labels)
    if p.verdict == "spin" or vout.state == "budget":
        return bad("spin", repr(case), labels=labels)
    if vout.state == "exc" and not isinstance(vout.exc, (BaseTLSException,
                                                         OSError)):
        return bad("unrelated-exception:%s@%s" % (
            type(vout.exc).__name__, exc_site(vout.exc)), repr(case),
            labels=labels)
    if verdict in ("either", "late-legal"):
        return good(labels=labels)
    if verdict == "illegal-unless-aborted":
        # the alert may legitimately have ended it; completing is not legal
        if vout.ok:
            sig_dev = "+".join("%s%s" % (d[0], (":" + d[2]) if len(d) > 2
                                         else "") for d in devs)
            return bad("completes-despite-illegal-order:%s:victim=%s:%s" % (
                "tls13" if version == (3, 4) else "tls12-", vic, sig_dev),
                "a mandatory message was replaced by an alert and the "
                "victim completed; case=%r" % (case,), labels=labels)
        return good(labels=labels + ["no-completion"])
    sig_dev = "+".join("%s%s" % (d[0], (":" + str(d[2])) if len(d) > 2 else "")
                       for d in devs)
    where = "%s:%s:%s" % ("tls13" if version == (3, 4) else "tls12-",
                          "victim=" + vic, sig_dev)
    if verdict == "late-illegal":
        # the victim may complete; the late message must then be refused
        if not vout.ok:
            return good(labels=labels + ["no-completion"])
        if vic == "c" and post_read is not None and \
                post_read.state == "exc":
            o = post_read
        else:
            for _ in range(40):
                o = sc.do_read(p, vic, 1000, 1)
                if not (o.state == "done" and o.value and bytes(o.value) in
                        b"early application data"):
                    break
        if o.state == "exc":
            if isinstance(o.exc, (BaseTLSException, OSError)):
                return good(labels=labels + ["late-rejected"])
            return bad("unrelated-exception:%s@%s" % (
                type(o.exc).__name__, exc_site(o.exc)), repr(case),
                labels=labels)
        if o.state == "blocked":
            # was it delivered at all? compare what reached the victim
            return bad("late-message-absorbed:" + where,
                       "victim completed and silently consumed a message "
                       "that is illegal after the handshake; case=%r" % (
                           case,), labels=labels)
        return bad("late-message-delivered-as-data:" + where,
                   "probe read returned %r" % (o,), labels=labels)
    # illegal or truncated handshake part: no completion allowed
    if vout.ok:
        return bad("completes-despite-illegal-order:" + where,
                   "model %s at position %r; case=%r" % (verdict, pos, case),
                   labels=labels)
    if vout.state == "exc":
        e = vout.exc
        if isinstance(e, TLSLocalAlert):
            # "aborts with a fatal alert": the alert really left (the
            # victim does not close its socket in these runs, so nothing
            # but the alert path itself pushes it out)
            recs, _ = records(p.link.wire(vic))
            seen = any(r["type"] in (21, None) for r in recs) or (
                version == (3, 4) and recs and recs[-1]["type"] == 23 and
                recs[-1]["len"] <= 64)
            if not seen and case.get("nocs"):
                return bad("abort-alert-not-on-the-wire:" + where,
                           "victim raised %s; its %d records on the wire "
                           "hold no alert; case=%r" % (
                               describe_exc(e), len(recs), case),
                           labels=labels)
            return good(labels=labels)
        if isinstance(e, (TLSAbruptCloseError, OSError, TLSRemoteAlert)):
            return good(labels=labels + ["no-completion"])
        return bad("illegal-order-no-alert:%s@%s" % (type(e).__name__,
                                                     exc_site(e)),
                   repr(case), labels=labels)
    return good(labels=labels + ["stalled"])


# ---------------------------------------------------------------------------
def check_reneg(case):
    """After completion: renegotiation attempts and API misuse."""
    name = case["fl"]
    kind = case["kind"]
    labels = ["reneg", "fl=" + name, kind]
    client, server = opts_for(name)
    DET.reseed("C06r", name)
    log = {"c": [], "s": []}

    def prepare(cc, scn):
        for side, conn in (("c", cc), ("s", scn)):
            def fn(dev, idx, ct, data, side=side):
                if ct == 22:
                    log[side].append(data)
                return None
            Deviant(conn, fn)
    p = sc.connect(client, server, prepare=prepare)
    if not p.both_ok:
        raise BaselineBroken("flavour:" + name, "%r %r" % (p.co, p.so))
    version = tuple(p.c.version)
    sc.do_write(p, "s", b"x")
    sc.read_all(p, "c")
    if kind == "api":
        for conn, gen in ((p.c, lambda: sc.client_gen(p.c, client)),
                          (p.s, lambda: sc.server_gen(p.s, server))):
            try:
                g = gen()
                next(g)
            except ValueError:
                continue
            except StopIteration:
                pass
            except Exception as e:      # noqa
                return bad("handshake-on-open-connection-raises-%s" %
                           type(e).__name__, repr(e), labels=labels)
            return bad("handshake-on-open-connection-accepted", "",
                       labels=labels)
        return good(labels=labels)
    if kind == "client_hello_to_server":
        sender, vic, msg = "c", "s", log["c"][0]
    elif kind == "hello_request_to_client":
        sender, vic, msg = "s", "c", b"\x00\x00\x00\x00"
    elif kind == "server_hello_to_client":
        sender, vic, msg = "s", "c", [m for m in log["s"] if m[0] == 2][-1]
    elif kind == "finished_to_server":
        sender, vic, msg = "c", "s", [m for m in log["c"]
                                      if m[0] == 20][-1]
    elif kind == "ccs_to_server":
        sender, vic, msg = "c", "s", None
    else:
        raise HarnessError(kind)
    sconn = p.conn(sender)
    before = len(p.link.wire(vic))
    raw = RawMsg(22, msg) if msg is not None else RawMsg(20, b"\x01")
    outs, _ = drive({sender: sconn._sendMsg(raw, False, False)}, p.link,
                    on_stall="leave")
    o = sc.do_read(p, vic, 100, 1)
    vconn = p.conn(vic)
    labels.append("victim=" + (describe_exc(o.exc) if o.exc else o.state))
    # what did the victim answer? look at its records through the sender
    answered = p.link.wire(vic)[before:]
    recs, _ = records(answered)
    if version < (3, 4):
        pass
    # (1) never a new handshake: the victim must not emit a hello
    from vlib.tap import RefView
    try:
        rv = RefView(p)
        rv.follow(vic)
        new_hs = [pt for ct, pt, r in rv.plain[vic][-len(recs):]
                  if ct == 22 and pt[:1] in (b"\x01", b"\x02")] \
            if recs else []
    except Exception:       # noqa - draft suites etc.
        new_hs = []
    if new_hs:
        return bad("renegotiation-started:" + kind,
                   "victim emitted a hello message after completion",
                   labels=labels)
    if o.state == "done" and o.value:
        return bad("renegotiation-message-delivered-as-data:" + kind,
                   repr(bytes(o.value)[:20]), labels=labels)
    if o.state == "exc":
        if not isinstance(o.exc, (BaseTLSException, OSError)):
            return bad("unrelated-exception:%s@%s" % (
                type(o.exc).__name__, exc_site(o.exc)), kind, labels=labels)
        if kind in ("server_hello_to_client", "finished_to_server",
                    "ccs_to_server") and \
                not isinstance(o.exc, TLSLocalAlert):
            return bad("post-handshake-message-no-alert:" + kind,
                       describe_exc(o.exc), labels=labels)
        return good(labels=labels)
    # blocked: message ignored or answered with a warning
    if kind in ("server_hello_to_client", "finished_to_server",
                "ccs_to_server"):
        return bad("post-handshake-message-ignored:" + kind,
                   "victim kept the connection open after %s" % kind,
                   labels=labels)
    if version == (3, 4) and kind in ("client_hello_to_server",
                                      "hello_request_to_client"):
        return bad("tls13-renegotiation-not-fatal:" + kind, "",
                   labels=labels)
    return good(labels=labels)


# ---------------------------------------------------------------------------
def dev_strategy():
    i = st.integers(0, 15)
    t = st.sampled_from(POOL)
    return st.one_of(
        st.tuples(st.just("skip"), i), st.tuples(st.just("dup"), i),
        st.tuples(st.just("swap"), i),
        st.tuples(st.just("insert"), i, t),
        st.tuples(st.just("replace"), i, t),
        st.tuples(st.just("append"), st.just(0), t),
        st.tuples(st.just("coalesce"), i, st.sampled_from(
            ["key_update", "finished_bad", "nst13", "hello_request",
             "cert_request13"])),
        st.tuples(st.just("coalesce_part"), i, st.sampled_from(
            ["key_update", "nst13", "cert_request13"]), st.integers(0, 2)),
        st.tuples(st.just("frag"), i, st.integers(0, 5))).map(list)


@st.composite
def cases(draw, tier):
    return {"k": "dev", "fl": draw(st.sampled_from(FL)),
            "side": draw(st.sampled_from(["c", "s"])),
            "devs": draw(st.lists(dev_strategy(), min_size=2, max_size=2)),
            "nocs": draw(st.booleans())}


def strategy(tier):
    return cases(tier)


def budget(tier):
    return 1500 if tier == "quick" else 40000


def explicit(tier, seed):
    for fl in FL:
        log, n_hs, version = honest(fl)
        for side in "cs":
            n = len(log[side])
            for i in range(n):
                yield {"k": "dev", "fl": fl, "side": side,
                       "devs": [["skip", i]], "nocs": i % 2 == 0}
                yield {"k": "dev", "fl": fl, "side": side,
                       "devs": [["dup", i]], "nocs": i % 2 == 1}
                if i + 1 < n:
                    yield {"k": "dev", "fl": fl, "side": side,
                           "devs": [["swap", i]]}
                pool = POOL if (tier == "thorough" or i % 2 == 0) else \
                    POOL[(i * 3) % len(POOL):][:4]
                for t in pool:
                    yield {"k": "dev", "fl": fl, "side": side,
                           "devs": [["insert", i, t]]}
                for t in (POOL if tier == "thorough" else POOL[i % 3::3]):
                    yield {"k": "dev", "fl": fl, "side": side,
                           "devs": [["replace", i, t]]}
                if log[side][i][1] == 14:
                    yield {"k": "dev", "fl": fl, "side": side,
                           "devs": [["insert", i, "cert_request12"]]}
                if log[side][i][1] == 11:
                    for t in ("no_certificate_alert", "warning_alert"):
                        yield {"k": "dev", "fl": fl, "side": side,
                               "devs": [["replace", i, t]]}
                if version == (3, 4):
                    for t in ("key_update", "nst13", "finished_bad"):
                        yield {"k": "dev", "fl": fl, "side": side,
                               "devs": [["coalesce", i, t]]}
                    for t in ("key_update", "nst13"):
                        yield {"k": "dev", "fl": fl, "side": side,
                               "devs": [["coalesce_part", i, t, i % 3]]}
                yield {"k": "dev", "fl": fl, "side": side,
                       "devs": [["frag", i, i % 3]]}
                yield {"k": "dev", "fl": fl, "side": side,
                       "devs": [["frag", i, 3 + (i + 1) % 3]]}
            for t in POOL:
                yield {"k": "dev", "fl": fl, "side": side,
                       "devs": [["append", 0, t]]}
        for kind in ("api", "client_hello_to_server",
                     "hello_request_to_client", "server_hello_to_client",
                     "finished_to_server", "ccs_to_server"):
            yield {"k": "reneg", "fl": fl, "kind": kind}
