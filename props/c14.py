"""C14 - results do not depend on how the transport chunks, delays or
blocks, nor on the API flavour used.

Metamorphic oracle: the per-endpoint DRBG makes every endpoint's random
choices independent of interleaving, so a run over a scripted socket
(partial reads/writes, would-block at any call, any endpoint interleaving),
through AsyncStateMachine, or through the blocking API in two threads must
produce byte-identical wire streams, the same negotiated parameters, the
same delivered data and the same exception classes as the baseline run of
the same seed over an unconstrained socket."""
import hashlib
import threading

from hypothesis import strategies as st

from vlib.runner import good, bad, HarnessError, BaselineBroken
from vlib.det import DET
from vlib import scenario as sc
from vlib import tap
from vlib.wire import CycleScript, Link, BlockingPipe, BlockingSock, records
from vlib.driver import drive, describe_exc
from props.c03 import view

from tlslite.api import TLSConnection
from tlslite.integration.asyncstatemachine import AsyncStateMachine

ID = "C14"
LEVEL = "exploration"
RULE = ("case = (scenario, API path, schedule): scenarios = 14 handshake "
        "flavours (incl. failing negotiations, client auth, HRR, SRP, "
        "resumption) followed by a script of writes / exact reads / "
        "KeyUpdate / close; schedule = cyclic lists of per-call recv and "
        "send sizes (0 = would-block) for both sockets plus an endpoint "
        "interleaving, with the extreme schedules (1 byte per call; would-"
        "block before every call) enumerated for every scenario; API path "
        "in {async generators, AsyncStateMachine, blocking calls in two "
        "threads}; plus record re-framing of plaintext handshake flights by "
        "an on-path re-framer (split at arbitrary points, 1 byte per "
        "record, coalesce). non-trivial = at least one would-block and one "
        "partial read that splits a record header or handshake header (or a "
        "re-framing that changes record boundaries); distinct = hash(case)")
ASSUMPTIONS = [
    "BufferedSocket.flush() uses sendall(): modelled as blocking-complete; "
    "a would-block raised from inside sendall is outside the domain",
    "byte identity of the wire relies on the DRBG shim (E3); with OS "
    "randomness only outcomes and delivered data would be comparable",
]
MAX_WALL = {"quick": 240, "thorough": 3000}

SCEN = {
    "tls13": dict(v="tls13", steps=[("w", "c", 100), ("r", "s", 100),
                                    ("w", "s", 40000), ("r", "c", 40000),
                                    ("ku", "c"), ("w", "c", 10),
                                    ("r", "s", 10), ("close", "c"),
                                    ("rclose", "s")]),
    "tls13-auth": dict(v="tls13", reqCert=True, ccred="c_rsa",
                       steps=[("w", "s", 5), ("r", "c", 5)]),
    "tls13-hrr": dict(v="tls13", hrr=True, steps=[("w", "c", 17000),
                                                  ("r", "s", 17000)]),
    "tls12-ecdhe": dict(v="tls12", kx=["ecdhe_rsa"],
                        steps=[("w", "c", 3), ("w", "c", 20000),
                               ("r", "s", 20003), ("close", "s"),
                               ("rclose", "c")]),
    "tls12-dhe-auth": dict(v="tls12", kx=["dhe_rsa"], reqCert=True,
                           ccred="c_ecdsa", steps=[("w", "s", 1),
                                                   ("r", "c", 1)]),
    "tls12-srp": dict(v="tls12", srp=True, steps=[("w", "c", 300),
                                                  ("r", "s", 300)]),
    "tls11-rsa": dict(v="tls11", kx=["rsa"], steps=[("w", "c", 1000),
                                                    ("r", "s", 1000)]),
    "tls10-cbc": dict(v="tls10", kx=["rsa"], ciphers=["aes128"],
                      steps=[("w", "c", 50), ("r", "s", 50),
                             ("w", "s", 0), ("w", "s", 9), ("r", "c", 9)]),
    "ssl3": dict(v="ssl3", kx=["rsa"], steps=[("w", "c", 70),
                                              ("r", "s", 70)]),
    "tls12-tickets-npn": dict(v="tls12", tickets=True, npn=True,
                              steps=[("w", "s", 10), ("r", "c", 10)]),
    "fail-version": dict(cv=("tls13", "tls13"), sv=("tls10", "tls12"),
                         steps=[]),
    "fail-suites": dict(v="tls12", c_ciphers=["aes128"],
                        s_ciphers=["aes256gcm"], steps=[]),
    "fail-clientcert": dict(v="tls12", reqCert=True, steps=[]),
    "range": dict(steps=[("w", "c", 2000), ("r", "s", 2000)]),
    # the client's first send fails (EPIPE) while the peer's fatal alert is
    # waiting to be read: the alert explains the failure, however it arrives
    "fail-send-alert-pending": dict(v="tls12", steps=[], gen_only=True,
                                    send_fault="c"),
}
SCEN_NAMES = sorted(SCEN)


def init(tier, seed):
    DET.install()


def prg(tag, n):
    out = bytearray()
    i = 0
    while len(out) < n:
        out += hashlib.sha256(b"%s|%d" % (tag, i)).digest()
        i += 1
    return bytes(out[:n])


def build(name):
    f = SCEN[name]
    ckw, skw = {}, {}
    if f.get("v"):
        v = sc.VER[f["v"]]
        ckw.update(minVersion=v, maxVersion=v)
        skw.update(minVersion=v, maxVersion=v)
    if f.get("cv"):
        ckw.update(minVersion=sc.VER[f["cv"][0]],
                   maxVersion=sc.VER[f["cv"][1]])
        skw.update(minVersion=sc.VER[f["sv"][0]],
                   maxVersion=sc.VER[f["sv"][1]])
    if f.get("kx"):
        ckw["keyExchangeNames"] = f["kx"]
        skw["keyExchangeNames"] = f["kx"]
    if f.get("ciphers"):
        ckw["cipherNames"] = f["ciphers"]
        skw["cipherNames"] = f["ciphers"]
    if f.get("c_ciphers"):
        ckw["cipherNames"] = f["c_ciphers"]
        skw["cipherNames"] = f["s_ciphers"]
    if f.get("hrr"):
        ckw["keyShares"] = ["x25519"]
        ckw["eccCurves"] = ["x25519", "secp256r1"]
        skw["eccCurves"] = ["secp256r1", "secp384r1"]
        skw["keyShares"] = ["secp256r1"]
    if f.get("tickets"):
        skw["ticketKeys"] = [bytearray(b"T" * 32)]
    client = {"settings": sc.mk_settings(**ckw)}
    server = {"settings": sc.mk_settings(**skw)}
    if f.get("srp"):
        client["mode"] = "srp"
        server["verifierDB"] = sc.srp_db()
    else:
        server["cred"] = "rsa"
    if f.get("reqCert"):
        server["reqCert"] = True
        if f.get("ccred"):
            client["cred"] = f["ccred"]
    if f.get("npn"):
        client["nextProtos"] = [bytearray(b"http/1.1")]
        server["nextProtos"] = [bytearray(b"http/1.1")]
    return client, server, f


def summarize(conn, out):
    d = {"state": out.state if out.exc is None else describe_exc(out.exc)}
    if out.exc is None and conn.session is not None:
        v = view(conn)
        d["view"] = hashlib.sha256(repr(sorted(
            (k, repr(x)) for k, x in v.items())).encode()).hexdigest()
    return d


# ---------------------------------------------------------------------------
# path 1: async generators over (optionally scripted) sockets
# ---------------------------------------------------------------------------
def play_gen(name, scripts=None, order=None, mitm=None, prepare=None,
             tweak=None, link=None):
    client, server, f = build(name)
    if tweak is not None:
        tweak(client, server)
    DET.reseed("C14", name)
    if f.get("send_fault"):
        from vlib.wire import Link
        link = link or Link(mitm=mitm)
        victim = f["send_fault"]
        inner = prepare

        def prepare(cc, scn):
            raw = (cc if victim == "c" else scn).sock
            while hasattr(raw, "socket"):
                raw = raw.socket
            raw.tx_fault = (0, "pipe")
            link.inject(victim, b"\x15\x03\x03\x00\x02\x02\x28")
            if inner is not None:
                inner(cc, scn)
    p = sc.connect(client, server, scripts=scripts, order=order, mitm=mitm,
                   max_steps=400000, prepare=prepare, link=link)
    res = {"c": summarize(p.c, p.co), "s": summarize(p.s, p.so),
           "steps": []}
    if p.verdict in ("spin", "budget"):
        res["verdict"] = p.verdict
    if p.both_ok:
        for i, stp in enumerate(f["steps"]):
            res["steps"].append(do_step(p, stp, i))
    res["wire_c"] = hashlib.sha256(p.link.wire("c")).hexdigest()
    res["wire_s"] = hashlib.sha256(p.link.wire("s")).hexdigest()
    res["len_c"] = len(p.link.wire("c"))
    res["len_s"] = len(p.link.wire("s"))
    return res, p


def do_step(p, stp, i):
    k, side = stp[0], stp[1]
    conn = p.conn(side)
    if k == "w":
        o = drive({side: conn.writeAsync(prg(b"C14d%d" % i, stp[2]))},
                  p.link, on_stall="leave", max_steps=400000)[0][side]
        return ["w", o.state if o.exc is None else describe_exc(o.exc)]
    if k == "r":
        got = bytearray()
        want = stp[2]
        for _ in range(200000):
            if len(got) >= want:
                break
            gen = conn.readAsync(want - len(got), 1)
            o = drive({side: gen}, p.link, on_stall="leave",
                      max_steps=400000)[0][side]
            if o.state == "done" and o.value:
                got += o.value
                continue
            if o.state == "blocked":
                gen.close()
            return ["r", hashlib.sha256(bytes(got)).hexdigest(), len(got),
                    o.state if o.exc is None else describe_exc(o.exc)]
        return ["r", hashlib.sha256(bytes(got)).hexdigest(), len(got), "ok"]
    if k == "ku":
        o = drive({side: conn.send_keyupdate_request(1)}, p.link,
                  on_stall="leave", max_steps=400000)[0][side]
        return ["ku", o.state if o.exc is None else describe_exc(o.exc)]
    if k == "close":
        o = drive({side: conn.closeAsync()}, p.link, on_stall="leave",
                  max_steps=400000)[0][side]
        return ["close", o.state if o.exc is None else describe_exc(o.exc)]
    if k == "rclose":
        gen = conn.readAsync(10, 1)
        o = drive({side: gen}, p.link, on_stall="leave",
                  max_steps=400000)[0][side]
        return ["rclose", o.state if o.exc is None else describe_exc(o.exc),
                len(o.value or b""), conn.closed]
    raise HarnessError(stp)


# ---------------------------------------------------------------------------
# path 2: AsyncStateMachine
# ---------------------------------------------------------------------------
class ASM(AsyncStateMachine):
    def __init__(self, conn):
        AsyncStateMachine.__init__(self)
        self.tlsConnection = conn
        self.read_data = bytearray()
        self.connected = False
        self.closed_evt = False

    def outConnectEvent(self):
        self.connected = True

    def outReadEvent(self, b):
        self.read_data += b

    def outCloseEvent(self):
        self.closed_evt = True


def asm_pump(machines, link, max_steps=400000):
    """Deliver read/write events until no machine has an active op or
    everyone is starved. Returns dict side -> exception or None."""
    errs = {}
    idle = 0
    for step in range(max_steps):
        progressed = False
        for side, m in machines.items():
            if side in errs:
                continue
            active = m.handshaker or m.closer or m.reader or m.writer
            if not active:
                continue
            before = (len(link.out["c"].log), len(link.out["s"].log),
                      len(link.inp["c"].q), len(link.inp["s"].q),
                      m.result)
            DET.current = side
            try:
                # select()-like: a write event whenever one is wanted, a read
                # event only when something can actually be read
                if m.wantsWriteEvent():
                    m.inWriteEvent()
                elif link.inp[side].q or link.inp[side].eof:
                    m.inReadEvent()
                else:
                    continue
            except Exception as e:      # noqa - outcome under comparison
                errs[side] = e
            finally:
                DET.current = "main"
            link.pump()
            after = (len(link.out["c"].log), len(link.out["s"].log),
                     len(link.inp["c"].q), len(link.inp["s"].q), m.result)
            still = m.handshaker or m.closer or m.reader or m.writer
            if after != before or not still:
                progressed = True
        if not any((m.handshaker or m.closer or m.reader or m.writer)
                   and s not in errs for s, m in machines.items()):
            break
        if progressed:
            idle = 0
        else:
            idle += 1
            if idle > 3000:
                break
    return errs


def play_asm(name, scripts=None):
    client, server, f = build(name)
    DET.reseed("C14", name)
    link = Link()
    scripts = scripts or {}
    cc = TLSConnection(link.sock("c", scripts.get("c")))
    scn = TLSConnection(link.sock("s", scripts.get("s")))
    mc, ms = ASM(cc), ASM(scn)
    errs = {}
    for side, m, mk in (("c", mc, lambda: sc.client_gen(cc, client)),
                        ("s", ms, lambda: sc.server_gen(scn, server))):
        DET.current = side
        try:
            m.setHandshakeOp(mk())
        except Exception as e:      # noqa
            errs[side] = e
        finally:
            DET.current = "main"
        link.pump()
    errs.update(asm_pump({"c": mc, "s": ms}, link))

    class O(object):
        pass
    outs = {}
    for side, m in (("c", mc), ("s", ms)):
        o = O()
        o.exc = errs.get(side)
        o.state = "done" if m.connected and o.exc is None else (
            "exc" if o.exc is not None else "blocked")
        outs[side] = o
    res = {"c": summarize(cc, outs["c"]), "s": summarize(scn, outs["s"]),
           "steps": []}
    conns = {"c": cc, "s": scn}
    machines = {"c": mc, "s": ms}
    if outs["c"].state == "done" and outs["s"].state == "done":
        for i, stp in enumerate(f["steps"]):
            k, side = stp[0], stp[1]
            m = machines[side]
            if k == "w":
                DET.current = side
                try:
                    m.setWriteOp(prg(b"C14d%d" % i, stp[2]))
                    e = None
                except Exception as ex:     # noqa
                    e = ex
                DET.current = "main"
                link.pump()
                er = asm_pump({side: m}, link)
                e = e or er.get(side)
                res["steps"].append(["w", "done" if e is None
                                     else describe_exc(e)])
            elif k == "r":
                want = stp[2]
                e = None
                for _ in range(100000):
                    if len(m.read_data) >= want:
                        break
                    n0 = len(m.read_data)
                    DET.current = side
                    try:
                        m.inReadEvent()
                    except Exception as ex:     # noqa
                        e = ex
                    DET.current = "main"
                    link.pump()
                    if e is not None:
                        break
                    er = asm_pump({side: m}, link)
                    if er.get(side):
                        e = er[side]
                        break
                    if len(m.read_data) == n0 and not link.inp[side].q:
                        break
                got = bytes(m.read_data[:want])
                del m.read_data[:want]
                m._clear()
                res["steps"].append(
                    ["r", hashlib.sha256(got).hexdigest(), len(got),
                     "ok" if (e is None and len(got) == want) else
                     (describe_exc(e) if e else "blocked")])
            elif k == "ku":
                o = drive({side: conns[side].send_keyupdate_request(1)},
                          link, on_stall="leave")[0][side]
                res["steps"].append(["ku", o.state if o.exc is None
                                     else describe_exc(o.exc)])
            elif k == "close":
                DET.current = side
                try:
                    m.setCloseOp()
                    e = None
                except Exception as ex:     # noqa
                    e = ex
                DET.current = "main"
                link.pump()
                er = asm_pump({side: m}, link)
                e = e or er.get(side)
                res["steps"].append(["close", "done" if e is None
                                     else describe_exc(e)])
            elif k == "rclose":
                gen = conns[side].readAsync(10, 1)
                o = drive({side: gen}, link, on_stall="leave")[0][side]
                res["steps"].append(
                    ["rclose", o.state if o.exc is None
                     else describe_exc(o.exc), len(o.value or b""),
                     conns[side].closed])
    res["wire_c"] = hashlib.sha256(link.wire("c")).hexdigest()
    res["wire_s"] = hashlib.sha256(link.wire("s")).hexdigest()
    res["len_c"] = len(link.wire("c"))
    res["len_s"] = len(link.wire("s"))
    return res


# ---------------------------------------------------------------------------
# path 3: blocking API in two threads
# ---------------------------------------------------------------------------
class ApiContract(Exception):
    """a socket-emulation call broke the contract of the call it emulates
    (recorded as that step's outcome, so it differs from the baseline)"""


def play_threads(name, sizes=None, api="rw"):
    """api: which of the equivalent calls carry the data steps - "rw"
    write()/read(), "sock" sendall()/recv(), "into" send()/recv_into(),
    "file" makefile('wb') / makefile('rb') objects"""
    client, server, f = build(name)
    DET.reseed("C14", name)
    sizes = sizes or {}
    c2s, s2c = BlockingPipe(), BlockingPipe()
    csock = BlockingSock(s2c, c2s, *sizes.get("c", ((), ())))
    ssock = BlockingSock(c2s, s2c, *sizes.get("s", ((), ())))
    cc, scn = TLSConnection(csock), TLSConnection(ssock)
    result = {"c": {"steps": {}}, "s": {"steps": {}}}

    def hs_client():
        c = dict(client)
        st_ = c.get("settings")
        if c.get("mode") == "srp":
            cc.handshakeClientSRP("alice", "wonderland", settings=st_,
                                  reqTack=False)
        else:
            chain = key = None
            if c.get("cred"):
                chain, key = sc.cred(c["cred"])
            cc.handshakeClientCert(chain, key, settings=st_, reqTack=False,
                                   nextProtos=c.get("nextProtos"))

    def hs_server():
        s = dict(server)
        chain = key = None
        if s.get("cred"):
            chain, key = sc.cred(s["cred"])
        scn.handshakeServer(verifierDB=s.get("verifierDB"), certChain=chain,
                            privateKey=key, reqCert=s.get("reqCert", False),
                            settings=s.get("settings"),
                            nextProtos=s.get("nextProtos"))

    def runner(side, conn, hs):
        DET.current = side
        r = result[side]
        try:
            hs()
            r["hs"] = None

            class O1(object):
                exc = None
                state = "done"
            r["summary"] = summarize(conn, O1())
        except Exception as e:      # noqa - compared
            r["hs"] = e
            return
        if f["steps"] and not ok_evt[side].is_set():
            ok_evt[side].set()
        # wait until the peer's handshake outcome is known
        other = "s" if side == "c" else "c"
        done_evt[side].set()
        done_evt[other].wait(30)
        if result[other].get("hs") is not None:
            return
        files = {}
        if api == "file" and any(stp[1] == side and stp[0] in "wr"
                                 for stp in f["steps"]):
            files = {"r": conn.makefile("rb"), "w": conn.makefile("wb")}

        def close_files():
            for fo in files.values():
                fo.close()
            files.clear()
        for i, stp in enumerate(f["steps"]):
            if stp[1] != side:
                continue
            k = stp[0]
            try:
                if k == "w":
                    data = prg(b"C14d%d" % i, stp[2])
                    if api == "sock":
                        conn.sendall(data)
                    elif api == "into":
                        if conn.send(data) != len(data):
                            raise ApiContract("send() result")
                    elif api == "file" and data:
                        # (a buffered writer has nothing to flush for an
                        # empty write: that one goes through write())
                        files["w"].write(data)
                        files["w"].flush()
                    else:
                        conn.write(data)
                    r["steps"][i] = ["w", "done"]
                elif k == "r":
                    got = bytearray()
                    while len(got) < stp[2]:
                        want = stp[2] - len(got)
                        if api != "rw":
                            # in pieces smaller than what is available: a
                            # call must never hand over more than asked for
                            want = min(want, max(1, stp[2] // 3))
                        if api == "sock":
                            d = conn.recv(want)
                        elif api == "into":
                            buf = bytearray(want)
                            n = conn.recv_into(buf)
                            d = bytes(buf[:n or 0])
                        elif api == "file":
                            d = files["r"].read(want)
                        else:
                            d = conn.read(want, 1)
                        if not d:
                            break
                        if len(d) > want:
                            raise ApiContract("more than asked for")
                        got += d
                    r["steps"][i] = ["r", hashlib.sha256(
                        bytes(got)).hexdigest(), len(got),
                        "ok" if len(got) == stp[2] else "short"]
                elif k == "ku":
                    for _ in conn.send_keyupdate_request(1):
                        pass
                    r["steps"][i] = ["ku", "done"]
                elif k == "close":
                    close_files()
                    conn.close()
                    r["steps"][i] = ["close", "done"]
                elif k == "rclose":
                    close_files()
                    d = conn.read(10, 1)
                    r["steps"][i] = ["rclose", "done", len(d), conn.closed]
            except Exception as e:      # noqa
                r["steps"][i] = [k, describe_exc(e)]
                return
    ok_evt = {"c": threading.Event(), "s": threading.Event()}
    done_evt = {"c": threading.Event(), "s": threading.Event()}
    tc = threading.Thread(target=runner, args=("c", cc, hs_client))
    ts = threading.Thread(target=runner, args=("s", scn, hs_server))

    def finish(side):
        done_evt[side].set()
    tc.start()
    ts.start()
    # a failing handshake never sets done_evt: release the peer when the
    # thread ends
    tc.join(60)
    done_evt["c"].set()
    ts.join(60)
    done_evt["s"].set()
    tc.join(5)
    if tc.is_alive() or ts.is_alive():
        raise HarnessError("blocking run did not terminate")

    class O(object):
        pass
    res = {"steps": []}
    for side, conn in (("c", cc), ("s", scn)):
        o = O()
        o.exc = result[side].get("hs")
        o.state = "done" if o.exc is None else "exc"
        res[side] = result[side].get("summary") or summarize(conn, o)
    if res["c"]["state"] == "done" and res["s"]["state"] == "done":
        for i, stp in enumerate(f["steps"]):
            res["steps"].append(result[stp[1]]["steps"].get(i, [stp[0],
                                                                "missing"]))
    res["wire_c"] = hashlib.sha256(bytes(c2s.log)).hexdigest()
    res["wire_s"] = hashlib.sha256(bytes(s2c.log)).hexdigest()
    res["len_c"] = len(c2s.log)
    res["len_s"] = len(s2c.log)
    return res


# ---------------------------------------------------------------------------
_base = {}


def baseline(name):
    if name not in _base:
        res, p = play_gen(name)
        _base[name] = res
    return _base[name]


def compare(base, res, keys):
    for k in keys:
        if base.get(k) != res.get(k):
            return k, base.get(k), res.get(k)
    return None


def norm_steps(steps):
    """normalise step outcome spellings across API paths"""
    out = []
    for s in steps:
        s = list(s)
        if s[0] in ("w", "ku", "close") and s[1] in ("done", "ok"):
            s[1] = "done"
        if s[0] == "rclose":
            s = [s[0], "done" if s[1] in ("done", "ok") else s[1]] + s[2:]
        out.append(s)
    return out


def check(case):
    name, path = case["sc"], case["path"]
    labels = ["sc=" + name, "path=" + path]
    if SCEN[name].get("gen_only") and path != "gen":
        return good(nt=False, labels=labels + ["path-not-applicable"])
    base = baseline(name)
    scripts = None
    nt = False
    if path in ("gen", "asm"):
        sch = case["sched"]
        scripts = {"c": CycleScript(sch["c_recv"], sch["c_send"]),
                   "s": CycleScript(sch["s_recv"], sch["s_send"])}
    if path == "gen":
        res, p = play_gen(name, scripts=scripts, order=case.get("order"))
    elif path == "asm":
        res = play_asm(name, scripts=scripts)
    elif path == "thread":
        sz = case.get("sizes") or {}
        res = play_threads(name, {k: (v[0], v[1]) for k, v in sz.items()},
                           api=case.get("api", "rw"))
        labels.append("api=" + case.get("api", "rw"))
    elif path == "reframe":
        return check_reframe(case, base, labels)
    elif path == "recsize":
        return check_recsize(case, base, labels)
    else:
        raise HarnessError(path)
    if scripts:
        st_ = scripts["c"].stats, scripts["s"].stats
        blocks = sum(s["recv_block"] + s["send_block"] for s in st_)
        partial = sum(s["recv_partial"] + s["send_partial"] for s in st_)
        nt = blocks > 0 and partial > 0
        labels.append("blocks>0" if blocks else "blocks=0")
    else:
        nt = True
    if res.get("verdict") == "budget":
        # the harness's own step budget ran out (one byte per several calls
        # over tens of kilobytes): nothing can be said
        from vlib.runner import inconclusive
        return inconclusive("step-budget", labels=labels)
    if res.get("verdict"):
        return bad("spin-under-schedule:%s:%s" % (name, path), repr(case),
                   nt=nt, labels=labels)
    b2 = dict(base)
    r2 = dict(res)
    b2["steps"], r2["steps"] = norm_steps(base["steps"]), \
        norm_steps(res["steps"])
    keys = ["c", "s", "steps", "len_c", "len_s", "wire_c", "wire_s"]
    d = compare(b2, r2, keys)
    if d:
        return bad("outcome-depends-on-transport:%s:%s:%s" % (name, path,
                                                               d[0]),
                   "baseline %r  vs  %r; case=%r" % (d[1], d[2], case),
                   nt=nt, labels=labels)
    return good(nt=nt, labels=labels)


def check_recsize(case, base, labels):
    """The *sender's* own fragmentation (user-set recordSize, or a
    negotiated record_size_limit) must not change what happens either:
    same outcome, same negotiated view, same data."""
    name, side, n = case["sc"], case["side"], case["n"]
    labels = labels + ["side=" + side]
    if case.get("rsl"):
        if not 64 <= n <= 2 ** 14 + 1:
            return good(nt=False, labels=labels)

        def tweak(client, server):
            if side in "cb":
                client["settings"].record_size_limit = n
            if side in "sb":
                server["settings"].record_size_limit = n
        # a reference run with the extension present but a limit too large
        # to matter gives the comparable outcome
        def tweak0(client, server):
            if side in "cb":
                client["settings"].record_size_limit = 2 ** 14
            if side in "sb":
                server["settings"].record_size_limit = 2 ** 14
        base, _ = play_gen(name, tweak=tweak0)
        res, p = play_gen(name, tweak=tweak)
        keys = ["c", "s", "steps"]
        if side != "b":
            # only one side advertises: nothing is negotiated; views still
            # equal to the big-limit run
            pass
        b2 = {"c": {"state": base["c"]["state"]},
              "s": {"state": base["s"]["state"]}, "steps": base["steps"]}
        r2 = {"c": {"state": res["c"]["state"]},
              "s": {"state": res["s"]["state"]}, "steps": res["steps"]}
        d = compare(b2, r2, keys)
        what = "record_size_limit"
    else:
        def prepare(cc, scn):
            if side in "cb":
                cc.recordSize = n
            if side in "sb":
                scn.recordSize = n
        res, p = play_gen(name, prepare=prepare)
        d = compare(base, res, ["c", "s", "steps"])
        what = "recordSize"
    if d:
        return bad("outcome-depends-on-sender-fragmentation:%s:%s:%s" % (
            name, what, d[0]),
            "baseline %r vs %r; case=%r" % (d[1], d[2], case),
            labels=labels)
    return good(labels=labels + ["frag=" + what])


def check_reframe(case, base, labels):
    name = case["sc"]
    mode = case["mode"]
    cuts = case.get("cuts", [])
    state = {"enc": {"c2s": False, "s2c": False}, "changed": False,
             "n": 0}
    version13 = SCEN[name].get("v") == "tls13" or name == "range"

    def mitm(direction, idx, rec):
        raw = rec["hdr"] + rec["body"]
        if rec["type"] == 20:
            state["enc"][direction] = True
        if rec["type"] != 22 or state["enc"][direction]:
            return [raw]
        if version13 and idx > 0:
            # after the hello messages TLS 1.3 traffic is protected (the
            # second ClientHello after HRR is idx > 0 too: leave it)
            return [raw]
        body = rec["body"]
        hdr3 = rec["hdr"][:3]
        if len(body) < 2:
            return [raw]
        if mode == "bytes":
            parts = [body[i:i + 1] for i in range(len(body))]
            if len(parts) > 600:
                parts = parts[:300] + [body[300:]]
        elif mode == "cuts":
            pts = sorted(set(1 + c % (len(body) - 1) for c in cuts))
            parts = []
            prev = 0
            for pt in pts + [len(body)]:
                parts.append(body[prev:pt])
                prev = pt
        else:
            return [raw]
        state["changed"] = True
        return [hdr3 + len(x).to_bytes(2, "big") + x for x in parts if x]
    if mode == "coalesce":
        # the opposite re-framing: consecutive plaintext handshake records
        # of one flight merged into a single record (how other stacks send
        # their flights)
        from vlib.wire import Link

        def batch(direction, recs):
            out = []
            acc = None
            for rec in recs:
                raw = rec["hdr"] + rec["body"]
                if rec["type"] == 20:
                    state["enc"][direction] = True
                plain = rec["type"] == 22 and not state["enc"][direction] \
                    and not (version13 and rec["off"] > 0)
                if plain and acc is not None and \
                        len(acc[1]) + len(rec["body"]) <= 2 ** 14 and \
                        acc[0] == rec["hdr"][:3]:
                    acc[1] += rec["body"]
                    state["changed"] = True
                    continue
                if acc is not None:
                    out.append(acc[0] + len(acc[1]).to_bytes(2, "big") +
                               bytes(acc[1]))
                    acc = None
                if plain:
                    acc = [rec["hdr"][:3], bytearray(rec["body"])]
                else:
                    out.append(raw)
            if acc is not None:
                out.append(acc[0] + len(acc[1]).to_bytes(2, "big") +
                           bytes(acc[1]))
            return out
        res, p = play_gen(name, link=Link(batch_mitm=batch))
    else:
        res, p = play_gen(name, mitm=mitm)
    if not state["changed"]:
        return good(nt=False, labels=labels + ["not-applied"])
    keys = ["c", "s", "steps"]
    d = compare(base, res, keys)
    if d:
        return bad("outcome-depends-on-framing:%s:%s:%s" % (name, mode,
                                                             d[0]),
                   "baseline %r vs %r; case=%r" % (d[1], d[2], case),
                   labels=labels)
    return good(labels=labels + ["mode=" + mode])


# ---------------------------------------------------------------------------
sizes_list = st.lists(st.sampled_from([0, 0, 1, 1, 2, 3, 4, 5, 7, 16, 100,
                                       1000, 5000]), min_size=1, max_size=8)


@st.composite
def sched(draw):
    d = {}
    for k in ("c_recv", "c_send", "s_recv", "s_send"):
        lst = draw(sizes_list)
        if not any(lst):
            lst = lst + [1]
        d[k] = lst
    return d


@st.composite
def cases(draw, tier):
    name = draw(st.sampled_from(SCEN_NAMES))
    path = draw(st.sampled_from(["gen", "gen", "gen", "asm", "thread",
                                 "reframe", "recsize"]))
    c = {"sc": name, "path": path}
    if path == "recsize":
        c["side"] = draw(st.sampled_from(["c", "s", "b"]))
        c["rsl"] = draw(st.booleans())
        c["n"] = draw(st.integers(64, 600)) if c["rsl"] else \
            draw(st.one_of(st.integers(1, 600), st.sampled_from(
                [2 ** 14 - 1, 2 ** 14])))
        return c
    if path in ("gen", "asm"):
        c["sched"] = draw(sched())
        if path == "gen":
            c["order"] = draw(st.lists(st.sampled_from(["c", "s"]),
                                       min_size=2, max_size=7).filter(
                                           lambda o: "c" in o and "s" in o))
    elif path == "thread":
        c["sizes"] = {"c": [draw(sizes_list), draw(sizes_list)],
                      "s": [draw(sizes_list), draw(sizes_list)]}
        c["api"] = draw(st.sampled_from(["rw", "sock", "into", "file"]))
    else:
        c["mode"] = draw(st.sampled_from(["bytes", "cuts", "cuts",
                                          "coalesce"]))
        c["cuts"] = draw(st.lists(st.integers(0, 5000), min_size=1,
                                  max_size=6))
    return c


def strategy(tier):
    return cases(tier)


def budget(tier):
    return 250 if tier == "quick" else 9000


def explicit(tier, seed):
    one = {"c_recv": [1], "c_send": [1], "s_recv": [1], "s_send": [1]}
    blk = {"c_recv": [0, 5], "c_send": [0, 3], "s_recv": [0, 4],
           "s_send": [0, 7]}
    mix = {"c_recv": [0, 1, 0, 0, 4], "c_send": [2, 0], "s_recv": [3, 0, 1],
           "s_send": [0, 0, 1000]}
    for name in SCEN_NAMES:
        heavy = name in ("tls13", "tls13-hrr", "tls12-ecdhe")
        for sch in (blk, mix) + ((one,) if (not heavy or tier == "thorough")
                                 else ()):
            yield {"sc": name, "path": "gen", "sched": sch,
                   "order": ["c", "c", "s"]}
        yield {"sc": name, "path": "asm", "sched": mix}
        if name in ("tls13", "tls12-ecdhe", "tls13-hrr") or \
                tier == "thorough":
            # every second / two of three sends refused: reads that have to
            # write (KeyUpdate answer, close_notify reply) meet a would-block
            for sch in (blk, {"c_recv": [5000], "c_send": [0, 0, 7],
                              "s_recv": [5000], "s_send": [0, 0, 7]},
                        {"c_recv": [3], "c_send": [0, 5000],
                         "s_recv": [3], "s_send": [0, 5000]}):
                yield {"sc": name, "path": "asm", "sched": sch}
        yield {"sc": name, "path": "thread",
               "sizes": {"c": [[1, 3, 100], [2, 50]],
                         "s": [[7, 1], [1, 1000]]}}
        yield {"sc": name, "path": "thread", "sizes": {}}
        for api in ("sock", "into", "file"):
            yield {"sc": name, "path": "thread", "api": api,
                   "sizes": {"c": [[1, 3, 100], [2, 50]],
                             "s": [[7, 1], [1, 1000]]}}
        yield {"sc": name, "path": "reframe", "mode": "bytes"}
        yield {"sc": name, "path": "reframe", "mode": "coalesce"}
        yield {"sc": name, "path": "reframe", "mode": "cuts",
               "cuts": [3, 4, 5, 70 + seed]}
    # sender-side fragmentation sweep: every record size a handshake message
    # length could be a multiple of
    sweep = ["tls13", "tls12-ecdhe", "tls10-cbc"] if tier == "quick" else \
        [n for n in SCEN_NAMES if not n.startswith("fail")]
    for name in sweep:
        for n in range(1, 300 if tier == "quick" else 700):
            yield {"sc": name, "path": "recsize", "side": "cs"[n % 2],
                   "n": n}
            if tier == "thorough":
                yield {"sc": name, "path": "recsize",
                       "side": "cs"[(n + 1) % 2], "n": n}
        if SCEN[name].get("v") in ("tls13", "tls12"):
            for n in range(64, 260 if tier == "quick" else 700):
                yield {"sc": name, "path": "recsize", "side": "b",
                       "n": n, "rsl": True}
