#!/bin/sh
# Offline setup: hypothesis must be importable in /venv; atheris goes to .deps
here=$(cd "$(dirname "$0")" && pwd)
cd "$here"
/venv/bin/python -c "import hypothesis" 2>/dev/null || \
  /venv/bin/pip install --no-index --find-links /opt/veriftools/wheels hypothesis
if [ ! -d "$here/.deps/atheris" ]; then
  /venv/bin/pip install -q --no-index --find-links /opt/veriftools/wheels --target "$here/.deps" atheris 2>/dev/null || echo "atheris not installed (optional)"
fi
/venv/bin/python -c "import hypothesis; print('hypothesis', hypothesis.__version__)"
exit 0
